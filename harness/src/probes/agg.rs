// C09 probes: the real AggregateOp (ColumnConverter + AggregateSink + into_partial +
// PartialConverter) per flow, the real AggregateStreamMerger::parse_aggregate_row /
// AggState::merge / agg_state_to_scalar at the coordinator, and the real time bucketers.
//
// agg_run <metrics> <gran|-> <ngroups> <nfields> <flows>
//   metrics: comma list of c | f<k> | u<k> | t<k> | a<k> | m<k> | x<k>   (k = metric field index)
//   flows:   flow '/' flow ...; flow = 'e' | batch ';' batch ...; batch = row ',' row ...;
//            row = ts ':' g0 ':' .. ':' f0 ':' ..   (value tokens as in order.rs)
// agg_state <kind> <parts>: one metric over parts of cells of a single column (one flow per part,
//   one batch per part), printing the merged raw state.
// agg_bucket <gran> <week_start 0..6> <ts u64>
use crate::probes::hexs;
use crate::probes::order::parse_value;
pub const PREFIX: &str = "agg_";
use snel_db::command::handlers::query::merge::aggregate_stream::AggregateStreamMerger;
use snel_db::command::types::{AggSpec, Command, TimeGranularity};
use snel_db::engine::core::read::aggregate::partial::{AggState, GroupKey};
use snel_db::engine::core::read::aggregate::plan::{AggregateOpSpec, AggregatePlan};
use snel_db::engine::core::read::flow::operators::{aggregate_output_schema, AggregateOp, AggregateOpConfig};
use snel_db::engine::core::read::flow::{BatchPool, BatchSchema, FlowChannel, FlowContext, FlowMetrics, FlowOperator, FlowTelemetry};
use snel_db::engine::core::read::result::ColumnSpec;
use snel_db::engine::core::QueryPlan;
use snel_db::engine::schema::SchemaRegistry;
use snel_db::engine::types::ScalarValue;
use snel_db::shared::datetime::time::TimeConfig;
use snel_db::shared::datetime::time_bucketing::{naive_bucket_of, CalendarTimeBucketer};
use std::collections::HashMap;
use std::sync::Arc;

fn rt() -> &'static tokio::runtime::Runtime {
    static RT: std::sync::OnceLock<tokio::runtime::Runtime> = std::sync::OnceLock::new();
    RT.get_or_init(|| {
        // the sink's bucket_of reads the global CONFIG ([time]: UTC, Monday, calendar bucketing in config/test.toml)
        if std::env::var("SNELDB_CONFIG").is_err() {
            unsafe { std::env::set_var("SNELDB_CONFIG", "/repo/config/test.toml"); }
        }
        tokio::runtime::Builder::new_multi_thread().worker_threads(2).enable_all().build().unwrap()
    })
}

fn gran(s: &str) -> Option<TimeGranularity> {
    match s {
        "h" => Some(TimeGranularity::Hour),
        "d" => Some(TimeGranularity::Day),
        "w" => Some(TimeGranularity::Week),
        "m" => Some(TimeGranularity::Month),
        "y" => Some(TimeGranularity::Year),
        _ => None,
    }
}

fn specs(s: &str) -> Vec<AggSpec> {
    s.split(',').map(|m| {
        let (k, idx) = m.split_at(1);
        let field = format!("f{}", idx);
        match k {
            "c" => AggSpec::Count { unique_field: None },
            "f" => AggSpec::CountField { field },
            "u" => AggSpec::Count { unique_field: Some(field) },
            "t" => AggSpec::Total { field },
            "a" => AggSpec::Avg { field },
            "m" => AggSpec::Min { field },
            _ => AggSpec::Max { field },
        }
    }).collect()
}

type Flows = Vec<Vec<Vec<Vec<ScalarValue>>>>;

fn parse_flows(tok: &str) -> Result<Flows, String> {
    let mut flows = Vec::new();
    for f in tok.split('/') {
        let mut batches = Vec::new();
        if f != "e" {
            for b in f.split(';') {
                let mut rows = Vec::new();
                for r in b.split(',') {
                    let mut row = Vec::new();
                    for v in r.split(':') { row.push(parse_value(v)?); }
                    rows.push(row);
                }
                batches.push(rows);
            }
        }
        flows.push(batches);
    }
    Ok(flows)
}

fn state_str(s: &AggState) -> String {
    match s {
        AggState::CountAll { count } => format!("c{}", count),
        AggState::CountUnique { values } => {
            let mut v: Vec<String> = values.iter().map(|x| hexs(x.as_bytes())).collect();
            v.sort();
            format!("u{}[{}]", values.len(), v.join("+"))
        }
        AggState::Sum { sum } => format!("s{}", sum),
        AggState::Avg { sum, count } => format!("a{}/{}", sum, count),
        AggState::Min { min_num, min_str } | AggState::Max { max_num: min_num, max_str: min_str } => format!(
            "m{}:{}",
            min_num.map(|n| n.to_string()).unwrap_or("-".into()),
            min_str.as_ref().map(|s| format!("s{}", hexs(s.as_bytes()))).unwrap_or("-".into())
        ),
    }
}

fn final_str(state: &AggState, spec: &AggregateOpSpec) -> String {
    if let AggState::Avg { sum, count } = state { return format!("a{}/{}", sum, count); }
    if let AggState::CountUnique { .. } = state { return state_str(state); }
    match AggregateStreamMerger::agg_state_to_scalar(state, spec) {
        Ok(ScalarValue::Int64(i)) => format!("i{}", i),
        Ok(ScalarValue::Utf8(s)) => format!("s{}", hexs(s.as_bytes())),
        Ok(other) => format!("?{:?}", other),
        Err(_) => "ERR".into(),
    }
}

async fn run_pipeline(metrics: &str, g: Option<TimeGranularity>, ng: usize, nf: usize, flows: Flows, raw: bool) -> Result<String, String> {
    let group_by: Option<Vec<String>> = if ng > 0 { Some((0..ng).map(|i| format!("g{}", i)).collect()) } else { None };
    let command = Command::Query {
        event_type: "evt".into(), context_id: None, since: None, time_field: None, sequence_time_field: None,
        where_clause: None, limit: None, offset: None, order_by: None, picked_zones: None, return_fields: None,
        link_field: None, aggs: Some(specs(metrics)), time_bucket: g.clone(), group_by: group_by.clone(), event_sequence: None,
    };
    let dir = tempfile::tempdir().map_err(|e| e.to_string())?;
    let registry = SchemaRegistry::new_with_path(dir.path().join("schemas.bin")).map_err(|e| format!("{:?}", e))?;
    let registry = Arc::new(tokio::sync::RwLock::new(registry));
    let seg_ids = Arc::new(std::sync::RwLock::new(Vec::<String>::new()));
    let plan = QueryPlan::new(command.clone(), &registry, dir.path(), &seg_ids, None).await.ok_or("NOPLAN")?;
    let agg_plan: AggregatePlan = plan.aggregate_plan.clone().ok_or("NOAGG")?;
    let plan = Arc::new(plan);

    let mut cols = vec![ColumnSpec { name: "timestamp".into(), logical_type: "Timestamp".into() }];
    for i in 0..ng { cols.push(ColumnSpec { name: format!("g{}", i), logical_type: "String".into() }); }
    for i in 0..nf { cols.push(ColumnSpec { name: format!("f{}", i), logical_type: "String".into() }); }
    let in_schema = Arc::new(BatchSchema::new(cols).map_err(|e| e.to_string())?);
    let out_cols = aggregate_output_schema(&agg_plan);
    let out_names: Vec<String> = out_cols.iter().map(|c| c.name.clone()).collect();

    let mut merged: HashMap<GroupKey, Vec<AggState>> = HashMap::new();
    for batches in flows {
        let metrics_h = FlowMetrics::new();
        let cap = batches.iter().map(|b| b.len()).max().unwrap_or(1).max(1);
        let pool = BatchPool::new(cap).map_err(|e| e.to_string())?;
        let ctx = Arc::new(FlowContext::new(cap, pool, Arc::clone(&metrics_h), None::<&str>, FlowTelemetry::default()));
        let (tx, rx) = FlowChannel::bounded(batches.len().max(1) + 1, Arc::clone(&metrics_h));
        let (out_tx, mut out_rx) = FlowChannel::bounded(1024, Arc::clone(&metrics_h));
        for rows in batches {
            let mut b = ctx.pool().acquire(Arc::clone(&in_schema));
            for r in rows { b.push_row(&r).map_err(|e| e.to_string())?; }
            tx.send(Arc::new(b.finish().map_err(|e| e.to_string())?)).await.map_err(|_| "SEND")?;
        }
        drop(tx);
        let op = AggregateOp::new(AggregateOpConfig { plan: Arc::clone(&plan), aggregate: agg_plan.clone() });
        let h = tokio::spawn(async move { op.run(rx, out_tx, ctx).await });
        let mut out_batches = Vec::new();
        while let Some(b) = out_rx.recv().await { out_batches.push(b); }
        h.await.map_err(|e| e.to_string())?.map_err(|e| format!("OPERR {:?}", e))?;
        // coordinator glue (merge_batch_into_groups is pub(crate)): parse every partial row, merge by key
        for b in out_batches {
            let colv: Vec<Vec<ScalarValue>> = (0..out_names.len()).map(|i| b.column(i).unwrap()).collect();
            let views: Vec<&[ScalarValue]> = colv.iter().map(|v| v.as_slice()).collect();
            for row in 0..b.len() {
                let (key, states) = AggregateStreamMerger::parse_aggregate_row(&views, &out_names, row, &agg_plan)?;
                match merged.entry(key) {
                    std::collections::hash_map::Entry::Vacant(e) => { e.insert(states); }
                    std::collections::hash_map::Entry::Occupied(mut e) => {
                        let cur = e.get_mut();
                        if cur.len() == states.len() { for (a, b) in cur.iter_mut().zip(states.iter()) { a.merge(b); } }
                    }
                }
            }
        }
    }
    // emit_merged_groups' filter: groups with an empty group value are dropped when BY is present
    if agg_plan.group_by.is_some() {
        merged.retain(|k, _| !k.groups.is_empty() && !k.groups.iter().any(|g| g.is_empty()));
    }
    let mut out: Vec<(Option<u64>, Vec<Vec<u8>>, String)> = merged.iter().map(|(k, st)| {
        let ms: Vec<String> = st.iter().zip(agg_plan.ops.iter()).map(|(s, sp)| if raw { state_str(s) } else { final_str(s, sp) }).collect();
        (k.bucket, k.groups.iter().map(|g| g.as_bytes().to_vec()).collect(), ms.join(","))
    }).collect();
    out.sort();
    let parts: Vec<String> = out.iter().map(|(b, gs, ms)| format!("{};{};{}",
        b.map(|x| x.to_string()).unwrap_or("-".into()),
        gs.iter().map(|g| hexs(g)).collect::<Vec<_>>().join("."), ms)).collect();
    Ok(format!("G{} {}", parts.len(), parts.join(" ")))
}

pub fn run(t: &[String]) -> String {
    match t[0].as_str() {
        "agg_run" | "agg_raw" => {
            let g = gran(&t[2]);
            let ng: usize = t[3].parse().unwrap();
            let nf: usize = t[4].parse().unwrap();
            let flows = match parse_flows(&t[5]) { Ok(f) => f, Err(e) => return e };
            let raw = t[0] == "agg_raw";
            match rt().block_on(run_pipeline(&t[1], g, ng, nf, flows, raw)) { Ok(s) => s, Err(e) => format!("ERR {}", e.replace(' ', "_")) }
        }
        "agg_bucket" => {
            let g = match gran(&t[1]) { Some(g) => g, None => return "BADGRAN".into() };
            let ws = match t[2].as_str() {
                "0" => chrono::Weekday::Mon, "1" => chrono::Weekday::Tue, "2" => chrono::Weekday::Wed, "3" => chrono::Weekday::Thu,
                "4" => chrono::Weekday::Fri, "5" => chrono::Weekday::Sat, _ => chrono::Weekday::Sun,
            };
            let ts: u64 = t[3].parse().unwrap();
            let cal = CalendarTimeBucketer::new(TimeConfig { timezone: None, week_start: ws, use_calendar_bucketing: true });
            let utc = CalendarTimeBucketer::new(TimeConfig { timezone: Some("UTC".into()), week_start: ws, use_calendar_bucketing: true });
            let a = cal.bucket_of(ts, &g);
            let b = utc.bucket_of(ts, &g);
            format!("C {} U {} N {}", a, b, naive_bucket_of(ts, &g))
        }
        // agg_buckettz <gran> <week_start> <ts> <tz name> <offset secs (model side only)>
        "agg_buckettz" => {
            let g = match gran(&t[1]) { Some(g) => g, None => return "BADGRAN".into() };
            let ws = match t[2].as_str() {
                "0" => chrono::Weekday::Mon, "1" => chrono::Weekday::Tue, "2" => chrono::Weekday::Wed, "3" => chrono::Weekday::Thu,
                "4" => chrono::Weekday::Fri, "5" => chrono::Weekday::Sat, _ => chrono::Weekday::Sun,
            };
            let ts: u64 = t[3].parse().unwrap();
            let cal = CalendarTimeBucketer::new(TimeConfig { timezone: Some(t[4].clone()), week_start: ws, use_calendar_bucketing: true });
            format!("B {}", cal.bucket_of(ts, &g))
        }
        _ => "UNKNOWN_PROBE".into(),
    }
}
