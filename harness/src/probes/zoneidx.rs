// C08 part B probes: enum bitmaps, temporal calendar + per-zone index, xor-filter keys.
// Every probe runs the REAL builders (EnumBitmapBuilder::build_all,
// TemporalIndexBuilder::build_for_zone_plans, build_all_zxf_filtered,
// FieldXorFilter::build_all_filtered) on ZonePlans made from the case line, writes the
// files into a temp segment directory, reads them back with the real loaders and asks the
// REAL pruners (EnumPruner, TemporalPruner, XorPruner) through ZoneArtifacts.
//
//   zidx_hash <hex>                                   -> stable_hash64(&String)
//   zidx_enum <variants> <zones> <op> <lit>           variants: hex,hex | _ ; zone: zid:cell,cell ; zones joined by ;
//   zidx_temp <ts|f> <zones> <op> <lit>
//   zidx_xor  <zones> <op> <lit>
//   zidx_ctx  <b<k>|x> <zones> <probes>               the context index (ZoneIndex) through ZoneWriter::write_all
//             zone: zid:<evt hex>:<ctx hex>,<ctx hex> ; probe: <evt hex>/<ctx hex> or <evt hex>/~ (no context)
// cell / literal: i<int> Int64, t<int> Timestamp, s<hex> Utf8 ("s-" = ""), f<bits>[/<hex display>] Float64,
//                 b0|b1 Boolean, n Null, ~ (cells only) the row has no such payload key.
use crate::probes::unhex;
pub const PREFIX: &str = "zidx_";

use snel_db::command::types::CompareOp;
use snel_db::engine::core::filter::field_xor_filter::FieldXorFilter;
use snel_db::engine::core::time::{TemporalCalendarIndex, TemporalIndexBuilder, ZoneTemporalIndex};
use snel_db::engine::core::zone::enum_bitmap_index::{EnumBitmapBuilder, EnumBitmapIndex};
use snel_db::engine::core::zone::selector::pruner::enum_pruner::EnumPruner;
use snel_db::engine::core::zone::selector::pruner::xor_pruner::XorPruner;
use snel_db::engine::core::zone::selector::pruner::{PruneArgs, TemporalPruner, ZonePruner};
use snel_db::engine::core::zone::zone_artifacts::ZoneArtifacts;
use snel_db::engine::core::zone::zone_xor_index::{build_all_zxf_filtered, ZoneXorFilterIndex};
use snel_db::engine::core::{CandidateZone, Event, ZoneMeta, ZonePlan};
use snel_db::engine::schema::registry::{MiniSchema, SchemaRegistry};
use snel_db::engine::schema::types::{EnumType, FieldType};
use snel_db::engine::types::ScalarValue;
use snel_db::shared::hash::stable_hash64;
use std::collections::{HashMap, HashSet};
use std::path::PathBuf;
use std::sync::Arc;
use tokio::sync::RwLock;

const UID: &str = "u1";
const SEG: &str = "00001";
const EVT: &str = "evt";

fn op_of(s: &str) -> CompareOp {
    match s {
        "eq" => CompareOp::Eq,
        "neq" => CompareOp::Neq,
        "gt" => CompareOp::Gt,
        "gte" => CompareOp::Gte,
        "lt" => CompareOp::Lt,
        "lte" => CompareOp::Lte,
        _ => CompareOp::In,
    }
}

/// (value, display check ok)
fn scalar_of(tok: &str) -> (Option<ScalarValue>, bool) {
    let (k, rest) = tok.split_at(1);
    match k {
        "i" => (Some(ScalarValue::Int64(rest.parse::<i64>().expect("i64"))), true),
        "t" => (Some(ScalarValue::Timestamp(rest.parse::<i64>().expect("i64"))), true),
        "s" => (Some(ScalarValue::Utf8(String::from_utf8(unhex(rest)).expect("utf8"))), true),
        "f" => {
            let mut it = rest.splitn(2, '/');
            let bits: u64 = it.next().unwrap().parse().expect("bits");
            let f = f64::from_bits(bits);
            let ok = match it.next() {
                Some(h) => f.to_string().as_bytes() == unhex(h).as_slice(),
                None => true,
            };
            (Some(ScalarValue::Float64(f)), ok)
        }
        "b" => (Some(ScalarValue::Boolean(rest == "1")), true),
        "n" => (Some(ScalarValue::Null), true),
        _ => (None, true), // "~": missing key
    }
}

fn blank_event(ts: u64) -> Event {
    serde_json::from_value(serde_json::json!({
        "event_type": EVT, "context_id": "c", "timestamp": ts, "payload": {}
    }))
    .expect("event")
}

struct Parsed {
    zones: Vec<(u32, Vec<Option<ScalarValue>>)>,
    disp_ok: bool,
}

fn parse_zones(s: &str) -> Parsed {
    let mut zones = Vec::new();
    let mut disp_ok = true;
    if s != "_" {
        for z in s.split(';') {
            let (zid, cells) = z.split_once(':').expect("zone");
            let mut v = Vec::new();
            for c in cells.split(',') {
                let (sv, ok) = scalar_of(c);
                disp_ok &= ok;
                v.push(sv);
            }
            zones.push((zid.parse::<u32>().expect("zid"), v));
        }
    }
    Parsed { zones, disp_ok }
}

/// ZonePlans whose events carry the cells under payload key `field`
/// (or, for `field == "timestamp"`, in the fixed timestamp column).
fn plans(zones: &[(u32, Vec<Option<ScalarValue>>)], field: &str) -> Vec<ZonePlan> {
    let mut out = Vec::new();
    let mut start = 0usize;
    for (zid, cells) in zones {
        let mut events = Vec::new();
        for c in cells {
            let mut ev = blank_event(0);
            if field == "timestamp" {
                if let Some(ScalarValue::Int64(i)) = c {
                    ev.timestamp = *i as u64;
                } else if let Some(ScalarValue::Utf8(s)) = c {
                    ev.timestamp = s.parse::<u64>().expect("u64 timestamp");
                }
            } else if let Some(v) = c {
                ev.payload.insert(field.to_string(), v.clone());
            }
            events.push(ev);
        }
        let n = events.len();
        out.push(ZonePlan {
            id: *zid,
            start_index: start,
            end_index: start + n - 1,
            events,
            uid: UID.to_string(),
            event_type: EVT.to_string(),
            segment_id: 1,
            created_at: 0,
        });
        start += n;
    }
    out
}

fn registry_with(dir: &std::path::Path, field: &str, ft: FieldType) -> Arc<RwLock<SchemaRegistry>> {
    let mut reg = SchemaRegistry::new_with_path(dir.join("schemas.bin")).expect("registry");
    let mut fields = HashMap::new();
    fields.insert(field.to_string(), ft);
    reg.define(EVT, MiniSchema { fields }).expect("define");
    Arc::new(RwLock::new(reg))
}

fn block_on<F: std::future::Future>(f: F) -> F::Output {
    tokio::runtime::Builder::new_current_thread().enable_all().build().unwrap().block_on(f)
}

fn show(r: Option<Vec<CandidateZone>>) -> String {
    match r {
        None => "N".to_string(),
        Some(v) => {
            let mut ids: Vec<u32> = v.iter().map(|z| z.zone_id).collect();
            ids.sort();
            ids.dedup();
            format!("S:{}", ids.iter().map(|z| z.to_string()).collect::<Vec<_>>().join(","))
        }
    }
}

fn hexs(b: &[u8]) -> String {
    if b.is_empty() { "-".into() } else { hex::encode(b) }
}

fn run_enum(t: &[String]) -> String {
    let variants: Vec<String> = if t[1] == "_" { vec![] } else {
        t[1].split(',').map(|h| String::from_utf8(unhex(h)).expect("utf8")).collect()
    };
    let p = parse_zones(&t[2]);
    let op = op_of(&t[3]);
    let (lit, _) = scalar_of(&t[4]);
    let lit = lit.expect("literal");
    let tmp = tempfile::tempdir().unwrap();
    let base: PathBuf = tmp.path().to_path_buf();
    let seg_dir = base.join(SEG);
    std::fs::create_dir_all(&seg_dir).unwrap();
    let reg = registry_with(tmp.path(), "k", FieldType::Enum(EnumType { variants: variants.clone() }));
    let zps = plans(&p.zones, "k");
    block_on(EnumBitmapBuilder::build_all(&zps, &seg_dir, &reg)).expect("build_all");
    let path = seg_dir.join(format!("{}_k.ebm", UID));
    let (rpz, bits) = match EnumBitmapIndex::load(&path) {
        Ok(ix) => {
            let mut zs: Vec<(&u32, &Vec<Vec<u8>>)> = ix.zone_bitmaps.iter().collect();
            zs.sort();
            let s = zs.iter().map(|(z, b)| format!("{}:{}", z, b.iter().map(|x| hexs(x)).collect::<Vec<_>>().join("/")))
                .collect::<Vec<_>>().join(";");
            (ix.rows_per_zone.to_string(), s)
        }
        Err(_) => ("N".into(), "N".into()),
    };
    let pruner = EnumPruner { artifacts: ZoneArtifacts { base_dir: &base, caches: None } };
    let args = PruneArgs { segment_id: SEG, uid: UID, column: "k", value: Some(&lit), op: Some(&op) };
    let res = pruner.apply(&args);
    format!("rpz={} bits={} res={}", rpz, bits, show(res))
}

fn run_temp(t: &[String]) -> String {
    let field = if t[1] == "ts" { "timestamp" } else { "created" };
    let p = parse_zones(&t[2]);
    let op = op_of(&t[3]);
    // one literal, or several separated by commas (the structures are built once, every literal is probed)
    let lits: Vec<ScalarValue> = t[4].split(',').map(|x| scalar_of(x).0.expect("literal")).collect();
    let tmp = tempfile::tempdir().unwrap();
    let base: PathBuf = tmp.path().to_path_buf();
    let seg_dir = base.join(SEG);
    std::fs::create_dir_all(&seg_dir).unwrap();
    // the schema declares `created` as a datetime field; `timestamp` is always indexed
    let reg = registry_with(tmp.path(), "created", FieldType::Timestamp);
    let zps = plans(&p.zones, field);
    block_on(TemporalIndexBuilder::new(UID, &seg_dir, reg).build_for_zone_plans(&zps)).expect("temporal build");
    let cal = match TemporalCalendarIndex::load(UID, field, &seg_dir) {
        Ok(c) => {
            let mut h: Vec<(u32, Vec<u32>)> = c.hour.iter().map(|(b, bm)| (*b, bm.iter().collect())).collect();
            let mut d: Vec<(u32, Vec<u32>)> = c.day.iter().map(|(b, bm)| (*b, bm.iter().collect())).collect();
            h.sort();
            d.sort();
            let f = |v: &Vec<(u32, Vec<u32>)>| v.iter().map(|(b, zs)| format!("{}:{}", b, zs.iter().map(|z| z.to_string()).collect::<Vec<_>>().join("."))).collect::<Vec<_>>().join(",");
            format!("H{}|D{}", f(&h), f(&d))
        }
        Err(_) => "N".to_string(),
    };
    let mut zids: Vec<u32> = p.zones.iter().map(|z| z.0).collect();
    zids.sort();
    zids.dedup();
    let mut zt = Vec::new();
    // own: stored instants that the zone's own index (as built, saved and reloaded) does NOT contain
    let mut own = 0usize;
    for z in zids {
        if let Ok(x) = ZoneTemporalIndex::load_for_field(UID, field, z, &seg_dir) {
            zt.push(format!("{}:{}:{}:{}", z, x.min_ts, x.max_ts, x.keys.iter().map(|k| k.to_string()).collect::<Vec<_>>().join(".")));
            if let Some((_, cells)) = p.zones.iter().rev().find(|(z2, _)| *z2 == z) {
                for c in cells.iter().flatten() {
                    let v = match c {
                        ScalarValue::Int64(i) => Some(*i),
                        ScalarValue::Timestamp(i) => Some(*i),
                        ScalarValue::Utf8(s) => s.parse::<i64>().ok().or_else(|| s.parse::<u64>().ok().map(|u| u as i64)),
                        _ => None,
                    };
                    if let Some(v) = v {
                        if !x.contains_ts(v) { own += 1; }
                    }
                }
            }
        }
    }
    let pruner = TemporalPruner { artifacts: ZoneArtifacts { base_dir: &base, caches: None } };
    let res: Vec<String> = lits.iter().map(|lit| {
        let args = PruneArgs { segment_id: SEG, uid: UID, column: field, value: Some(lit), op: Some(&op) };
        show(pruner.apply_temporal_only(&args))
    }).collect();
    format!("cal={} zti={} res={} own={}", cal, zt.join(";"), res.join("|"), own)
}

fn key_of(v: &Option<ScalarValue>) -> String {
    match v.as_ref().and_then(FieldXorFilter::value_to_string) {
        Some(s) => stable_hash64(&s).to_string(),
        None => "N".to_string(),
    }
}

fn run_xor(t: &[String]) -> String {
    let p = parse_zones(&t[1]);
    let op = op_of(&t[2]);
    let (lit, lok) = scalar_of(&t[3]);
    let lit = lit.expect("literal");
    let tmp = tempfile::tempdir().unwrap();
    let base: PathBuf = tmp.path().to_path_buf();
    let seg_dir = base.join(SEG);
    std::fs::create_dir_all(&seg_dir).unwrap();
    let zps = plans(&p.zones, "v");
    let mut allowed = HashSet::new();
    allowed.insert("v".to_string());
    build_all_zxf_filtered(&zps, &seg_dir, &allowed).expect("zxf");
    FieldXorFilter::build_all_filtered(&zps, &seg_dir, &allowed).expect("xf");
    let ck = p.zones.iter().map(|(z, cells)| format!("{}:{}", z, cells.iter().map(key_of).collect::<Vec<_>>().join(",")))
        .collect::<Vec<_>>().join(";");
    let (have, own) = match ZoneXorFilterIndex::load(&ZoneXorFilterIndex::file_path(&seg_dir, UID, "v")) {
        Ok(ix) => {
            let mut zs: Vec<u32> = ix.filters.keys().cloned().collect();
            zs.sort();
            let mut own = true;
            for (z, cells) in &p.zones {
                if !ix.filters.contains_key(z) { continue; }
                // with duplicate zone ids the later plan replaces the earlier one; only the last is checked
                if p.zones.iter().rev().find(|(z2, _)| z2 == z).map(|(_, c)| std::ptr::eq(c, cells)) != Some(true) { continue; }
                for c in cells.iter().flatten() {
                    if FieldXorFilter::value_to_string(c).is_some() && !ix.contains_in_zone(*z, c) { own = false; }
                }
            }
            (zs.iter().map(|z| z.to_string()).collect::<Vec<_>>().join(","), if own { "1" } else { "0" })
        }
        Err(_) => ("N".to_string(), "1"),
    };
    let pruner = XorPruner { artifacts: ZoneArtifacts { base_dir: &base, caches: None } };
    let args = PruneArgs { segment_id: SEG, uid: UID, column: "v", value: Some(&lit), op: Some(&op) };
    let zres = pruner.apply_zone_index_only(&args);
    // the zone metadata file: "all zones of the segment" is read from it
    let metas: Vec<ZoneMeta> = zps.iter().map(|z| ZoneMeta {
        zone_id: z.id, uid: UID.to_string(), segment_id: 1, start_row: 0, end_row: 0,
        timestamp_min: 0, timestamp_max: 0, created_at: 0 }).collect();
    ZoneMeta::save(UID, &metas, &seg_dir).expect("zones meta");
    let fres = show(pruner.apply_presence_only(&args));
    format!("lk={} disp={} ck={} have={} own={} zres={} fres={}", key_of(&Some(lit.clone())),
            if p.disp_ok && lok { "ok" } else { "BAD" }, ck, have, own, show(zres), fres)
}

// ---------------------------------------------------------------- context index (part C)
// The REAL build path: ZonePlan::build_all (mode b<k>) or explicit ZonePlans (mode x) ->
// ZoneWriter::write_all into a temp segment directory -> the `{uid}.idx` file is loaded back with the
// read side's loader (ZoneArtifacts::load_zone_index -> ZoneIndex::load_from_path) -> find_candidate_zones
// for every probe (event type, optional context), as IndexZoneSelector does.
//   -> shape=<ok|BAD> idx=<evt>>ctx=z.z,ctx=z;<evt>>... res=S:..|S:..
// idx is the loaded index with every zone list sorted and de-duplicated (the zone SET per context; how
// many times a zone is pushed is not observable through find_candidate_zones).
fn ctx_event(evt: &str, ctx: &str, i: usize) -> Event {
    serde_json::from_value(serde_json::json!({
        "event_type": evt, "context_id": ctx, "timestamp": 1_700_000_000u64 + i as u64,
        "payload": { "k": format!("v{}", i) }
    }))
    .expect("event")
}

fn run_ctx(t: &[String]) -> String {
    use snel_db::engine::core::{ZoneIndex, ZoneWriter};
    let s_of = |h: &str| String::from_utf8(unhex(h)).expect("utf8");
    // zones of the line
    let mut zones: Vec<(u32, String, Vec<String>)> = Vec::new();
    for z in t[2].split(';') {
        let mut it = z.splitn(3, ':');
        let zid = it.next().unwrap().parse::<u32>().expect("zid");
        let evt = s_of(it.next().expect("evt"));
        let ctxs: Vec<String> = it.next().expect("ctxs").split(',').map(|h| s_of(h)).collect();
        zones.push((zid, evt, ctxs));
    }
    let tmp = tempfile::tempdir().unwrap();
    let base: PathBuf = tmp.path().to_path_buf();
    let seg_dir = base.join(SEG);
    std::fs::create_dir_all(&seg_dir).unwrap();
    // every event type of the line is defined, in order of first appearance
    let mut reg = SchemaRegistry::new_with_path(tmp.path().join("schemas.bin")).expect("registry");
    let mut seen: Vec<String> = Vec::new();
    for (_, evt, _) in &zones {
        if !seen.contains(evt) {
            let mut fields = HashMap::new();
            fields.insert("k".to_string(), FieldType::String);
            reg.define(evt, MiniSchema { fields }).expect("define");
            seen.push(evt.clone());
        }
    }
    let uid = reg.get_uid(&zones[0].1).expect("uid");
    let reg = Arc::new(RwLock::new(reg));
    let mut shape_ok = true;
    let mut row = 0usize;
    let zps: Vec<ZonePlan> = if let Some(k) = t[1].strip_prefix('b') {
        let k: usize = k.parse().expect("rows per zone");
        let mut events = Vec::new();
        for (_, evt, ctxs) in &zones {
            for c in ctxs {
                events.push(ctx_event(evt, c, row));
                row += 1;
            }
        }
        let zps = ZonePlan::build_all(&events, k, uid.clone(), 1).expect("build_all");
        // the generator's idea of the zones must be what the planner made of the rows
        shape_ok = zps.len() == zones.len()
            && zps.iter().zip(zones.iter()).all(|(zp, (zid, evt, ctxs))| {
                zp.id == *zid && &zp.event_type == evt
                    && zp.events.iter().map(|e| e.context_id.as_str()).eq(ctxs.iter().map(|c| c.as_str()))
            });
        zps
    } else {
        let mut out = Vec::new();
        for (zid, evt, ctxs) in &zones {
            let start = row;
            let mut events = Vec::new();
            for c in ctxs {
                events.push(ctx_event(evt, c, row));
                row += 1;
            }
            out.push(ZonePlan {
                id: *zid, start_index: start, end_index: row - 1, events,
                uid: uid.clone(), event_type: evt.clone(), segment_id: 1, created_at: 0,
            });
        }
        out
    };
    if let Err(e) = block_on(ZoneWriter::new(&uid, &seg_dir, reg.clone()).write_all(&zps)) {
        return format!("BUILD_ERR {:?}", e).replace(' ', "_");
    }
    let arts = ZoneArtifacts { base_dir: &base, caches: None };
    let index: Arc<ZoneIndex> = match arts.load_zone_index(SEG, &uid) {
        Ok(ix) => ix,
        Err(e) => return format!("LOAD_ERR {}", e).replace(' ', "_"),
    };
    let dump = index.index.iter().map(|(evt, cm)| {
        format!("{}>{}", hexs(evt.as_bytes()), cm.iter().map(|(c, zs)| {
            let mut z = zs.clone();
            z.sort();
            z.dedup();
            format!("{}={}", hexs(c.as_bytes()), z.iter().map(|x| x.to_string()).collect::<Vec<_>>().join("."))
        }).collect::<Vec<_>>().join(","))
    }).collect::<Vec<_>>().join(";");
    let res: Vec<String> = t[3].split(',').map(|p| {
        let (e, c) = p.split_once('/').expect("probe");
        let evt = s_of(e);
        let ctx = if c == "~" { None } else { Some(s_of(c)) };
        show(Some(index.find_candidate_zones(&evt, ctx.as_deref(), SEG)))
    }).collect();
    format!("shape={} idx={} res={}", if shape_ok { "ok" } else { "BAD" }, if dump.is_empty() { "_".to_string() } else { dump }, res.join("|"))
}

pub fn run(t: &[String]) -> String {
    match t[0].as_str() {
        "zidx_ctx" => run_ctx(t),
        "zidx_hash" => {
            let s = String::from_utf8(unhex(&t[1])).expect("utf8");
            stable_hash64(&s).to_string()
        }
        "zidx_enum" => run_enum(t),
        "zidx_temp" => run_temp(t),
        "zidx_xor" => {
            if std::env::var("ZIDX_DEBUG").is_ok() {
                let t2 = t.to_vec();
                return match std::panic::catch_unwind(move || run_xor(&t2)) {
                    Ok(s) => s,
                    Err(e) => format!("PANIC: {:?}", e.downcast_ref::<String>().cloned().or(e.downcast_ref::<&str>().map(|x| x.to_string()))),
                };
            }
            run_xor(t)
        }
        _ => "UNKNOWN_PROBE".into(),
    }
}
