// C10 probes: the real ScalarValue::compare / accessors and the real flow-level
// OrderedStreamMerger fed with generated streams.
//
// Value tokens: n | b0 | b1 | i<dec> | t<dec> | f<16 hex bits>.<hex of to_string()> | s<hex> | x<hex>
// ("-" after the tag = empty).
use crate::probes::{hexs, unhex};
pub const PREFIX: &str = "ord_";
use snel_db::engine::core::read::flow::{BatchPool, BatchSchema, FlowChannel, FlowMetrics, OrderedStreamMerger};
use snel_db::engine::core::read::result::ColumnSpec;
use snel_db::engine::types::ScalarValue;
use std::cmp::Ordering;
use std::sync::Arc;

pub fn parse_value(t: &str) -> Result<ScalarValue, String> {
    let (tag, rest) = t.split_at(1);
    match tag {
        "n" => Ok(ScalarValue::Null),
        "b" => Ok(ScalarValue::Boolean(rest == "1")),
        "i" => rest.parse::<i64>().map(ScalarValue::Int64).map_err(|_| "BADINT".to_string()),
        "t" => rest.parse::<i64>().map(ScalarValue::Timestamp).map_err(|_| "BADINT".to_string()),
        "f" => {
            let (bits, repr) = rest.split_once('.').ok_or("BADFLOAT")?;
            let b = u64::from_str_radix(bits, 16).map_err(|_| "BADFLOAT".to_string())?;
            let f = f64::from_bits(b);
            // the model takes the decimal rendering as an input; check it is the real one
            if f.to_string().as_bytes() != unhex(repr).as_slice() {
                return Err("BADREPR".into());
            }
            Ok(ScalarValue::Float64(f))
        }
        "s" => String::from_utf8(unhex(rest)).map(ScalarValue::Utf8).map_err(|_| "BADUTF8".to_string()),
        "x" => Ok(ScalarValue::Binary(unhex(rest))),
        _ => Err("BADVALUE".into()),
    }
}

fn ord(o: Ordering) -> char {
    match o { Ordering::Less => 'L', Ordering::Equal => 'E', Ordering::Greater => 'G' }
}

fn rt() -> &'static tokio::runtime::Runtime {
    static RT: std::sync::OnceLock<tokio::runtime::Runtime> = std::sync::OnceLock::new();
    RT.get_or_init(|| tokio::runtime::Builder::new_multi_thread().worker_threads(2).enable_all().build().unwrap())
}

fn parse_streams(tok: &str) -> Result<Vec<Vec<ScalarValue>>, String> {
    if tok == "-" { return Ok(vec![]); }
    let mut out = Vec::new();
    for s in tok.split('/') {
        if s == "e" { out.push(vec![]); continue; }
        let mut v = Vec::new();
        for x in s.split(',') { v.push(parse_value(x)?); }
        out.push(v);
    }
    Ok(out)
}

fn merge(t: &[String], as_set: bool) -> String {
    let ascending = t[1] == "1";
    let offset: usize = t[2].parse().unwrap();
    let limit: Option<usize> = if t[3] == "-" { None } else { Some(t[3].parse().unwrap()) };
    let batch: usize = t[4].parse::<usize>().unwrap().max(1);
    let streams = match parse_streams(&t[5]) { Ok(s) => s, Err(e) => return e };
    let schema = Arc::new(BatchSchema::new(vec![
        ColumnSpec { name: "k".into(), logical_type: "String".into() },
        ColumnSpec { name: "rid".into(), logical_type: "Integer".into() },
    ]).unwrap());
    let res: Result<Vec<i64>, String> = rt().block_on(async {
        let metrics = FlowMetrics::new();
        let mut receivers = Vec::new();
        let mut rid = 0i64;
        let mut feeders = Vec::new();
        for s in streams {
            let (tx, rx) = FlowChannel::bounded(2, Arc::clone(&metrics));
            receivers.push(rx);
            let rows: Vec<Vec<ScalarValue>> = s.into_iter().map(|k| { let r = vec![k, ScalarValue::Int64(rid)]; rid += 1; r }).collect();
            let schema = Arc::clone(&schema);
            feeders.push(tokio::spawn(async move {
                let pool = BatchPool::new(batch).unwrap();
                let mut b = pool.acquire(Arc::clone(&schema));
                for r in rows {
                    b.push_row(&r).unwrap();
                    if b.is_full() {
                        let done = b.finish().unwrap();
                        if tx.send(Arc::new(done)).await.is_err() { return; }
                        b = pool.acquire(Arc::clone(&schema));
                    }
                }
                if b.len() > 0 {
                    let done = b.finish().unwrap();
                    let _ = tx.send(Arc::new(done)).await;
                }
            }));
        }
        let (out_tx, mut out_rx) = FlowChannel::bounded(2, Arc::clone(&metrics));
        let handle = OrderedStreamMerger::spawn(Arc::clone(&schema), receivers, 0, ascending, offset, limit, out_tx, batch)?;
        let mut ids = Vec::new();
        while let Some(b) = out_rx.recv().await {
            let col = b.column(1).map_err(|e| e.to_string())?;
            for v in col { if let ScalarValue::Int64(i) = v { ids.push(i); } }
        }
        let _ = handle.await;
        for f in feeders { f.abort(); }
        Ok(ids)
    });
    match res {
        Ok(ids) => {
            // with a non-transitive comparator only the number of emitted rows is canonical
            if as_set { return format!("N {}", ids.len()); }
            format!("R {}", ids.iter().map(|i| i.to_string()).collect::<Vec<_>>().join(","))
        }
        Err(_) => "ERR".into(),
    }
}

pub fn run(t: &[String]) -> String {
    match t[0].as_str() {
        // ord_cmp a b c -> compare results for (a,b) (b,c) (a,c) (b,a) (c,b) (c,a)
        "ord_cmp" => {
            let mut v = Vec::new();
            for x in &t[1..4] { match parse_value(x) { Ok(s) => v.push(s), Err(e) => return e } }
            let pairs = [(0, 1), (1, 2), (0, 2), (1, 0), (2, 1), (2, 0)];
            pairs.iter().map(|&(i, j)| ord(v[i].compare(&v[j]))).collect()
        }
        // ord_acc v -> accessors
        "ord_acc" => {
            let v = match parse_value(&t[1]) { Ok(s) => s, Err(e) => return e };
            format!("U {} I {} F {} B {} R {}",
                v.as_u64().map(|x| x.to_string()).unwrap_or("-".into()),
                v.as_i64().map(|x| x.to_string()).unwrap_or("-".into()),
                v.as_f64().map(|x| if x.is_nan() { "nan".to_string() } else { format!("{:016x}", x.to_bits()) }).unwrap_or("-".into()),
                v.as_bool().map(|x| if x { "1" } else { "0" }.to_string()).unwrap_or("-".into()),
                hexs(v.to_string_repr().as_bytes()))
        }
        // ord_frepr <16 hex bits> -> hex of f64::to_string()
        "ord_frepr" => {
            let b = u64::from_str_radix(&t[1], 16).unwrap();
            hexs(f64::from_bits(b).to_string().as_bytes())
        }
        "ord_merge" => merge(t, false),
        "ord_mergeset" => merge(t, true),
        _ => "UNKNOWN_PROBE".into(),
    }
}
