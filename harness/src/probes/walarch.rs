//! C19 probe: the real WalCleaner / WalArchiver / WalArchive / WalArchiveRecovery on real directories.
//!
//! The cleaner and `WalArchiver::new` resolve their directories from the process-global CONFIG, so the
//! first case of a process writes a config file (a copy of /repo/config/test.toml with the [wal] dirs
//! pointing into a private temp dir and `conservative_mode` from env WALARCH_MODE = c | p) and sets
//! SNELDB_CONFIG before CONFIG is touched.  Every case wipes and rebuilds the directories of shard 0.
//!
//! Case line:  walarch_run <c|p> <cmd>...     (commands are executed in order)
//!   R=m|f|d                 archive dir of the shard: missing / a regular file / a directory
//!   A=<hexname>=d|g         entry in the archive dir: a directory / an undecodable regular file
//!   A=<hexname>=a=<id>=<start>=<end>=<e>|<e>…   a decodable archive built in memory from entries
//!   AR=<hexname>            remove an entry of the archive dir
//!   W=<hexname>=d           entry in the WAL dir: a directory
//!   W=<hexname>=f=<rawhex>~<desc>,…   a WAL file made of the raw lines (desc is for the model)
//!   X=…                     same as W, in a separate directory; XD: the cleaner is built by with_wal_dir on it
//!   WCLR                    empty the WAL dir
//!   C=<k>                   WalCleaner::{new(0) | with_wal_dir(0, xdir)}.cleanup_up_to(k)
//!   L=<id>                  WalArchiver::new(0).archive_log(id)          (wal_archive_manager archive)
//!   F=0 | F=-               from here on run C / L with RLIMIT_FSIZE = 0 (every write to a regular file fails with
//!                           EFBIG after File::create succeeded: the "late" I/O failure) / restore the limit
//!   W=<hexname>=b=<contenthex>=<linehex>~<desc>,…   a WAL file with exactly these bytes (the table classifies its lines for the model)
//!   RPL=<hexname>           what WAL replay restores from that one file: the file is copied to a scratch WAL directory and a
//!                           real ShardContext is built on it (ShardContext::new runs WalRecovery); prints the memtable
//!   REC                     WalArchiveRecovery::new(0, archive dir).recover_all()   (… recover)
//! Output: observations of C (WAL listing after the cleanup) / L / REC in order, then the final listing of both directories with every
//! archive decoded by WalArchive::read_from_file.
//!
//!             walarch_rt <scalar>    one trip of a payload value through to_compressed_bytes / from_compressed_bytes
use crate::probes::{hexs, unhex};
pub const PREFIX: &str = "walarch_";
use snel_db::engine::core::{EventId, WalArchive, WalArchiveBody, WalArchiveHeader, WalArchiveRecovery, WalArchiver, WalCleaner, WalEntry};
use snel_db::engine::types::ScalarValue;
use snel_db::shared::config::CONFIG;
use std::collections::BTreeMap;
use std::fs;
use std::os::unix::ffi::{OsStrExt, OsStringExt};
use std::path::{Path, PathBuf};
use std::sync::OnceLock;

static BASE: OnceLock<PathBuf> = OnceLock::new();

// setrlimit(RLIMIT_FSIZE) without a libc dependency (Linux x86_64/aarch64 ABI)
#[repr(C)]
struct RLimit { cur: u64, max: u64 }
unsafe extern "C" {
    fn getrlimit(resource: i32, rlim: *mut RLimit) -> i32;
    fn setrlimit(resource: i32, rlim: *const RLimit) -> i32;
    fn signal(signum: i32, handler: usize) -> usize;
}
const RLIMIT_FSIZE: i32 = 1;
const SIGXFSZ: i32 = 25;
const SIG_IGN: usize = 1;

/// Runs `f` with the soft file-size limit set to 0 when `starve` (writes fail with EFBIG), restoring it afterwards.
fn with_fsize_limit<T>(starve: bool, f: impl FnOnce() -> T) -> T {
    if !starve { return f(); }
    unsafe {
        signal(SIGXFSZ, SIG_IGN);
        let mut old = RLimit { cur: 0, max: 0 };
        assert_eq!(getrlimit(RLIMIT_FSIZE, &mut old), 0);
        let new = RLimit { cur: 0, max: old.max };
        assert_eq!(setrlimit(RLIMIT_FSIZE, &new), 0);
        let r = std::panic::catch_unwind(std::panic::AssertUnwindSafe(f));
        assert_eq!(setrlimit(RLIMIT_FSIZE, &old), 0);
        match r { Ok(v) => v, Err(e) => std::panic::resume_unwind(e) }
    }
}

fn base() -> &'static PathBuf {
    BASE.get_or_init(|| {
        let mode = std::env::var("WALARCH_MODE").unwrap_or_else(|_| "c".into());
        let base = std::env::temp_dir().join(format!("walarch-{}-{}", mode, std::process::id()));
        let _ = fs::remove_dir_all(&base);
        fs::create_dir_all(&base).unwrap();
        let repo = std::env::var("VERIF_REPO").unwrap_or_else(|_| "/repo".into());
        let tmpl = fs::read_to_string(Path::new(&repo).join("config/test.toml")).expect("config/test.toml");
        let mut out = String::new();
        let mut section = String::new();
        for l in tmpl.lines() {
            let t = l.trim();
            if t.starts_with('[') { section = t.to_string(); }
            if section == "[wal]" && t.starts_with("dir") && t[3..].trim_start().starts_with('=') {
                out += &format!("dir = \"{}\"\n", base.join("wal").display());
            } else if section == "[wal]" && t.starts_with("archive_dir") {
                out += &format!("archive_dir = \"{}\"\n", base.join("arch").display());
            } else if section == "[wal]" && t.starts_with("conservative_mode") {
                out += &format!("conservative_mode = {}\n", if mode == "p" { "false" } else { "true" });
            } else {
                out += l;
                out.push('\n');
            }
        }
        let cfg = base.join("config.toml");
        fs::write(&cfg, out).unwrap();
        // one process = one configuration: set before the first access to CONFIG
        unsafe { std::env::set_var("SNELDB_CONFIG", &cfg); }
        assert_eq!(CONFIG.wal.dir, base.join("wal").display().to_string());
        base
    })
}

fn osname(h: &str) -> std::ffi::OsString { std::ffi::OsString::from_vec(unhex(h)) }

fn scalar_out(v: &ScalarValue) -> String {
    match v {
        ScalarValue::Null => "n".into(),
        ScalarValue::Boolean(b) => if *b { "b1".into() } else { "b0".into() },
        ScalarValue::Int64(i) => format!("i{}", i),
        ScalarValue::Float64(f) => format!("f{}", f.to_bits()),
        ScalarValue::Timestamp(t) => format!("t{}", t),
        ScalarValue::Utf8(s) => format!("s{}", hexs(s.as_bytes())),
        ScalarValue::Binary(b) => format!("x{}", hexs(b)),
    }
}
fn scalar_in(s: &str) -> ScalarValue {
    let (k, r) = s.split_at(1);
    match k {
        "n" => ScalarValue::Null,
        "b" => ScalarValue::Boolean(r == "1"),
        "i" => ScalarValue::Int64(r.parse().unwrap()),
        "f" => ScalarValue::Float64(f64::from_bits(r.parse().unwrap())),
        "t" => ScalarValue::Timestamp(r.parse().unwrap()),
        "s" => ScalarValue::Utf8(String::from_utf8(unhex(r)).unwrap()),
        "x" => ScalarValue::Binary(unhex(r)),
        _ => panic!("scalar"),
    }
}
fn entry_out(e: &WalEntry) -> String {
    let p: Vec<String> = e.payload.iter().map(|(k, v)| format!("{}@{}", hexs(k.as_bytes()), scalar_out(v))).collect();
    format!("{}/{}/{}/{}/{}", e.timestamp, hexs(e.context_id.as_bytes()), hexs(e.event_type.as_bytes()), e.event_id.raw(), p.join("+"))
}
fn entry_in(s: &str) -> WalEntry {
    let f: Vec<&str> = s.splitn(5, '/').collect();
    let mut payload = BTreeMap::new();
    if !f[4].is_empty() {
        for kv in f[4].split('+') {
            let (k, v) = kv.split_once('@').unwrap();
            payload.insert(String::from_utf8(unhex(k)).unwrap(), scalar_in(v));
        }
    }
    WalEntry {
        timestamp: f[0].parse().unwrap(),
        context_id: String::from_utf8(unhex(f[1])).unwrap(),
        event_type: String::from_utf8(unhex(f[2])).unwrap(),
        payload,
        event_id: EventId::from_raw(f[3].parse().unwrap()),
    }
}
/// WAL replay of one log file through the real `WalRecovery` (run by `ShardContext::new`); None if the file cannot be copied.
fn replay_one(b: &Path, src: &Path) -> Option<String> {
    let scratch = b.join("rpl");
    wipe(&scratch);
    let (w, c) = (scratch.join("wal"), scratch.join("cols"));
    fs::create_dir_all(&w).unwrap();
    fs::create_dir_all(&c).unwrap();
    if src.is_dir() || fs::copy(src, w.join("wal-00000.log")).is_err() { return None; }
    // current-thread runtime: the WAL writer task spawned by ShardContext::new never runs, the directory stays as it is
    let rt = tokio::runtime::Builder::new_current_thread().enable_all().build().unwrap();
    let out = rt.block_on(async {
        let ctx = snel_db::engine::shard::context::ShardContext::new(0, c.clone(), w.clone());
        ctx.memtable.iter().map(|e| {
            let p: Vec<String> = e.payload.iter().map(|(k, v)| format!("{}@{}", hexs(k.as_bytes()), scalar_out(v))).collect();
            format!("{}/{}/{}/{}/{}", e.timestamp, hexs(e.context_id.as_bytes()), hexs(e.event_type.as_bytes()), e.event_id().raw(), p.join("+"))
        }).collect::<Vec<_>>().join("|")
    });
    drop(rt);
    Some(out)
}

fn entries_out(es: &[WalEntry]) -> String {
    es.iter().map(entry_out).collect::<Vec<_>>().join("|")
}

fn put_wal(dir: &Path, spec: &str) {
    // <hexname>=d | <hexname>=f=<rawhex>~<desc>,… | <hexname>=b=<contenthex>=<linehex>~<desc>,…
    let f: Vec<&str> = spec.splitn(4, '=').collect();
    let p = dir.join(osname(f[0]));
    if p.is_dir() { let _ = fs::remove_dir_all(&p); } else { let _ = fs::remove_file(&p); }
    if f[1] == "d" {
        fs::create_dir_all(&p).unwrap();
    } else if f[1] == "b" {
        // the bytes of the file verbatim (final-line shapes: no trailing newline, "\r\n", only "\n", …)
        fs::write(&p, unhex(f[2])).unwrap();
    } else {
        let rest = if f.len() > 3 { format!("{}={}", f[2], f[3]) } else if f.len() > 2 { f[2].to_string() } else { String::new() };
        let f2: &str = &rest;
        let mut content: Vec<u8> = Vec::new();
        if !f2.is_empty() {
            for l in f2.split(',') {
                let raw = l.split('~').next().unwrap();
                content.extend_from_slice(&unhex(raw));
                content.push(b'\n');
            }
        }
        fs::write(&p, content).unwrap();
    }
}

fn listing_w(dir: &Path) -> String {
    let mut v: Vec<(Vec<u8>, bool)> = match fs::read_dir(dir) {
        Ok(rd) => rd.flatten().map(|e| (e.file_name().as_bytes().to_vec(), e.path().is_dir())).collect(),
        Err(_) => return "!".into(),
    };
    v.sort();
    v.iter().map(|(n, d)| format!("{}:{}", hexs(n), if *d { "d" } else { "f" })).collect::<Vec<_>>().join(",")
}

fn listing_a(dir: &Path) -> String {
    let mut v: Vec<(Vec<u8>, PathBuf)> = fs::read_dir(dir).unwrap().flatten().map(|e| (e.file_name().as_bytes().to_vec(), e.path())).collect();
    v.sort();
    v.iter().map(|(n, p)| {
        if p.is_dir() { return format!("{}:d", hexs(n)); }
        match WalArchive::read_from_file(p) {
            Ok(a) => format!("{}:a:{}:{}:{}:{}:{}", hexs(n), a.header.log_id, a.header.start_timestamp, a.header.end_timestamp,
                             a.header.entry_count, entries_out(&a.body.entries)),
            Err(_) => format!("{}:g", hexs(n)),
        }
    }).collect::<Vec<_>>().join(",")
}

fn wipe(p: &Path) {
    if p.is_dir() { let _ = fs::remove_dir_all(p); } else { let _ = fs::remove_file(p); }
}

fn run_case(t: &[String]) -> String {
    let b = base();
    let conservative = t[1] == "c";
    if CONFIG.wal.conservative_mode != conservative { return "MODE_MISMATCH".into(); }
    let wal = b.join("wal").join("shard-0");
    let xwal = b.join("xwal");
    let arch = b.join("arch").join("shard-0");
    wipe(&wal); wipe(&xwal); wipe(&arch);
    fs::create_dir_all(&wal).unwrap();
    fs::create_dir_all(&xwal).unwrap();
    fs::create_dir_all(b.join("arch")).unwrap();
    let mut use_x = false;
    let mut starve = false;
    let mut obs: Vec<String> = Vec::new();
    for c in &t[2..] {
        if c == "XD" { use_x = true; continue; }
        if c == "WCLR" { wipe(&wal); fs::create_dir_all(&wal).unwrap(); continue; }
        if c == "REC" {
            let r = WalArchiveRecovery::new(0, arch.clone()).recover_all();
            obs.push(match r { Ok(es) => format!("REC:{}", entries_out(&es)), Err(_) => "REC:err".into() });
            continue;
        }
        let (k, v) = c.split_once('=').expect("cmd");
        match k {
            "AR" => wipe(&arch.join(osname(v))),
            "F" => starve = v == "0",
            "R" => {
                wipe(&arch);
                match v { "m" => {}, "f" => fs::write(&arch, b"not a directory").unwrap(), _ => fs::create_dir_all(&arch).unwrap() }
            }
            "A" => {
                let f: Vec<&str> = v.splitn(6, '=').collect();
                let p = arch.join(osname(f[0]));
                wipe(&p);
                match f[1] {
                    "d" => fs::create_dir_all(&p).unwrap(),
                    "g" => fs::write(&p, b"garbage, not zstd").unwrap(),
                    _ => {
                        let entries: Vec<WalEntry> = if f[5].is_empty() { vec![] } else { f[5].split('|').map(entry_in).collect() };
                        let header = WalArchiveHeader::new(0, f[2].parse().unwrap(), entries.len() as u64, f[3].parse().unwrap(),
                                                           f[4].parse().unwrap(), "zstd".to_string(), 3);
                        let a = WalArchive { header, body: WalArchiveBody::new(entries) };
                        fs::write(&p, a.to_compressed_bytes().unwrap()).unwrap();
                    }
                }
            }
            "W" => put_wal(&wal, v),
            "X" => put_wal(&xwal, v),
            "C" => {
                let keep: u64 = v.parse().unwrap();
                let cleaner = if use_x { WalCleaner::with_wal_dir(0, xwal.clone()) } else { WalCleaner::new(0) };
                with_fsize_limit(starve, || cleaner.cleanup_up_to(keep));
                obs.push(if use_x { format!("C:{}/{}", listing_w(&wal), listing_w(&xwal)) } else { format!("C:{}", listing_w(&wal)) });
            }
            "RPL" => {
                let src = (if use_x { &xwal } else { &wal }).join(osname(v));
                obs.push(match replay_one(b, &src) { Some(s) => format!("RPL:{}", s), None => "RPL:none".into() });
            }
            "L" => {
                let r = with_fsize_limit(starve, || WalArchiver::new(0).archive_log(v.parse().unwrap()));
                obs.push(match r {
                    Ok(p) => format!("L:ok:{}", hexs(p.file_name().unwrap().as_bytes())),
                    Err(_) => "L:err".into(),
                });
            }
            _ => return "BADCMD".into(),
        }
    }
    obs.push(format!("WAL:{}", listing_w(&wal)));
    if use_x { obs.push(format!("XWAL:{}", listing_w(&xwal))); }
    if arch.is_dir() {
        obs.push(format!("ROOT:d:{}", listing_a(&arch)));
    } else if arch.exists() {
        obs.push("ROOT:f".into());
    } else {
        obs.push("ROOT:m".into());
    }
    obs.join(";")
}

pub fn run(t: &[String]) -> String {
    match t[0].as_str() {
        "walarch_run" => run_case(t),
        "walarch_rt" => {
            let _ = base();
            let mut payload = BTreeMap::new();
            payload.insert("v".to_string(), scalar_in(&t[1]));
            let e = WalEntry { timestamp: 1, context_id: "c".into(), event_type: "t".into(), payload, event_id: EventId::from_raw(7) };
            let a = WalArchive { header: WalArchiveHeader::new(0, 0, 1, 1, 1, "zstd".into(), 3), body: WalArchiveBody::new(vec![e]) };
            match a.to_compressed_bytes().and_then(|b| WalArchive::from_compressed_bytes(&b)) {
                Ok(a2) => scalar_out(&a2.body.entries[0].payload["v"]),
                Err(_) => "ERR".into(),
            }
        }
        _ => "UNKNOWN_PROBE".into(),
    }
}
