//! C07 probes: the real value path, function level.
//!
//! Canonical forms (no floats printed, strings hex-encoded):
//!   scalar:  N | B0 | B1 | I<dec> | F<16 hex digits of the bits> | U<hex of the UTF-8 bytes> | T<dec> | X<hex>
//!   json:    n | b0 | b1 | i<dec> | f<16 hex> | s<hex> | [a,b,...] | {<hexkey>:v,...}
//!
//!   value_parse    <hex JSON text>            STORE parser (sonic-rs) on `{"v": <text>}` -> json of v | ERR
//!   value_fromjson <hex JSON text>            serde_json::from_str -> ScalarValue::from -> scalar | ERR
//!   value_tojson   <scalar>                   ScalarValue::to_json -> json
//!   value_wal      <scalar>                   WalEntry -> serde_json::to_string -> from_str -> scalar
//!   value_builder  var <hex text>             EventBuilder::add_field (-> add_payload_field) -> scalar
//!   value_builder  i64|u64 <dec> | f64 <hex bits> | bool 0|1 | null
//!   value_block    <phys> <n compactions> <scalar>...   real ColumnGroupBuilder block -> real decoder ->
//!                  (REAL ConditionEvaluator::evaluate_zones read ; EventSink read ; values_to_scalar) per row
//!   value_core     <context_id|event_type> <n compactions> <hex text>...   the same for a CORE string column:
//!                  var-bytes block named like the core field -> (evaluator ; EventSink) core field of the event,
//!                  then the strings the compactor reads (into_strings)
use crate::probes::{hexs, unhex};
pub const PREFIX: &str = "value_";

use serde_json::Value;
use snel_db::command::parser::command::parse_command;
use snel_db::command::types::Command;
use snel_db::engine::core::column::column_block_snapshot::ColumnBlockSnapshot;
use snel_db::engine::core::column::column_values::ColumnValues;
use snel_db::engine::core::column::format::PhysicalType;
use snel_db::engine::core::column::reader::decoders::decoder_for;
use snel_db::engine::core::column::reader::view::ColumnBlockView;
use snel_db::engine::core::read::cache::DecompressedBlock;
use snel_db::engine::core::read::sink::{EventSink, ResultSink};
use snel_db::engine::core::write::column_group_builder::ColumnGroupBuilder;
use snel_db::engine::core::write::write_job::WriteJob;
use snel_db::engine::core::zone::candidate_zone::CandidateZone;
use snel_db::engine::core::{ConditionEvaluator, Event, EventBuilder, WalEntry};
use snel_db::engine::types::ScalarValue;
use std::collections::HashMap;
use std::sync::Arc;

fn hex_or_empty(b: &[u8]) -> String {
    let h = hexs(b);
    if h == "-" { String::new() } else { h }
}

pub fn canon_json(v: &Value) -> String {
    match v {
        Value::Null => "n".into(),
        Value::Bool(b) => if *b { "b1".into() } else { "b0".into() },
        Value::Number(n) => {
            if let Some(u) = n.as_u64() { format!("i{}", u) }
            else if let Some(i) = n.as_i64() { format!("i{}", i) }
            else { format!("f{:016x}", n.as_f64().unwrap().to_bits()) }
        }
        Value::String(s) => format!("s{}", hex_or_empty(s.as_bytes())),
        Value::Array(a) => format!("[{}]", a.iter().map(canon_json).collect::<Vec<_>>().join(",")),
        Value::Object(o) => {
            let mut items: Vec<(&String, &Value)> = o.iter().collect();
            items.sort_by(|a, b| a.0.as_bytes().cmp(b.0.as_bytes()));
            format!("{{{}}}", items.iter().map(|(k, v)| format!("{}:{}", hex_or_empty(k.as_bytes()), canon_json(v))).collect::<Vec<_>>().join(","))
        }
    }
}

pub fn canon_scalar(s: &ScalarValue) -> String {
    match s {
        ScalarValue::Null => "N".into(),
        ScalarValue::Boolean(b) => if *b { "B1".into() } else { "B0".into() },
        ScalarValue::Int64(i) => format!("I{}", i),
        ScalarValue::Float64(f) => format!("F{:016x}", f.to_bits()),
        ScalarValue::Utf8(t) => format!("U{}", hex_or_empty(t.as_bytes())),
        ScalarValue::Timestamp(t) => format!("T{}", t),
        ScalarValue::Binary(b) => format!("X{}", hex_or_empty(b)),
    }
}

fn parse_scalar(t: &str) -> Option<ScalarValue> {
    let (k, rest) = t.split_at(1);
    Some(match k {
        "N" => ScalarValue::Null,
        "B" => ScalarValue::Boolean(rest == "1"),
        "I" => ScalarValue::Int64(rest.parse().ok()?),
        "F" => ScalarValue::Float64(f64::from_bits(u64::from_str_radix(rest, 16).ok()?)),
        "U" => ScalarValue::Utf8(String::from_utf8(if rest.is_empty() { vec![] } else { unhex(rest) }).ok()?),
        _ => return None,
    })
}

fn phys_of(t: &str) -> Option<PhysicalType> {
    Some(match t {
        "var" => PhysicalType::VarBytes,
        "i64" => PhysicalType::I64,
        "u64" => PhysicalType::U64,
        "f64" => PhysicalType::F64,
        "bool" => PhysicalType::Bool,
        _ => return None,
    })
}

/// The block bytes the writer produces for one zone column.
fn write_block(phys: PhysicalType, values: &[ScalarValue]) -> Vec<u8> {
    let key = ("t".to_string(), "x".to_string());
    let mut types = HashMap::new();
    types.insert(key.clone(), phys);
    let mut b = ColumnGroupBuilder::with_types(types);
    for v in values {
        b.add(&WriteJob { key: key.clone(), zone_id: 0, path: std::path::PathBuf::from("/nonexistent/x.col"), value: v.clone() });
    }
    let out = b.finish();
    let (_k, (buf, _offs, _vals)) = out.into_iter().next().expect("one group");
    buf
}

fn read_block(buf: Vec<u8>, rows: usize) -> (PhysicalType, ColumnValues) {
    let block = Arc::new(DecompressedBlock::from_bytes(buf));
    let bytes: &[u8] = &block.bytes;
    let view = ColumnBlockView::parse(bytes).expect("view");
    let phys = view.phys;
    let vals = decoder_for(phys).build_values(&view, rows, Arc::clone(&block)).expect("decode");
    (phys, vals)
}

/// The REAL materialisation of a flushed zone (ConditionEvaluator::evaluate_zones, no conditions) holding the
/// single column `field`; one event per row, in row order.
fn real_eval(field: &str, values: &ColumnValues) -> Vec<Event> {
    let mut zone = CandidateZone::new(0, "00000".to_string());
    let mut m: HashMap<String, ColumnValues> = HashMap::new();
    m.insert(field.to_string(), values.clone());
    zone.set_values(m);
    ConditionEvaluator::new().evaluate_zones(vec![zone])
}

fn core_of(ev: &Event, field: &str) -> String {
    let s = if field == "context_id" { &ev.context_id } else { &ev.event_type };
    format!("U{}", hex_or_empty(s.as_bytes()))
}

pub fn run(t: &[String]) -> String {
    match t[0].as_str() {
        "value_parse" => {
            let txt = match String::from_utf8(unhex(&t[1])) { Ok(s) => s, Err(_) => return "BADUTF8".into() };
            let line = format!("STORE t FOR c PAYLOAD {{\"v\":{}}}", txt);
            match parse_command(&line) {
                Ok(Command::Store { payload, .. }) => match payload.get("v") { Some(v) => canon_json(v), None => "ERR".into() },
                _ => "ERR".into(),
            }
        }
        "value_fromjson" => {
            let txt = match String::from_utf8(unhex(&t[1])) { Ok(s) => s, Err(_) => return "BADUTF8".into() };
            match serde_json::from_str::<Value>(&txt) {
                Ok(v) => canon_scalar(&ScalarValue::from(v)),
                Err(_) => "ERR".into(),
            }
        }
        "value_tojson" => match parse_scalar(&t[1]) { Some(s) => canon_json(&s.to_json()), None => "BADCASE".into() },
        "value_wal" => {
            let s = match parse_scalar(&t[1]) { Some(s) => s, None => return "BADCASE".into() };
            let mut eb = EventBuilder::new();
            eb.event_type = "t".into();
            eb.context_id = "c".into();
            eb.timestamp = 1;
            eb.payload.insert("x".to_string(), s);
            let ev: Event = eb.build();
            let entry = WalEntry::from_event(&ev);
            let line = match serde_json::to_string(&entry) { Ok(l) => l, Err(_) => return "SERERR".into() };
            match serde_json::from_str::<WalEntry>(&line) {
                Ok(e) => canon_scalar(e.payload.get("x").unwrap_or(&ScalarValue::Null)),
                Err(_) => "DEERR".into(),
            }
        }
        "value_builder" => {
            let mut b = EventBuilder::new();
            match t[1].as_str() {
                "var" => { let s = String::from_utf8(unhex(&t[2])).unwrap(); b.add_field("x", &s) }
                "i64" => b.add_field_i64("x", t[2].parse().unwrap()),
                "u64" => b.add_field_u64("x", t[2].parse().unwrap()),
                "f64" => b.add_field_f64("x", f64::from_bits(u64::from_str_radix(&t[2], 16).unwrap())),
                "bool" => b.add_field_bool("x", t[2] == "1"),
                "null" => b.add_field_null("x"),
                _ => return "BADCASE".into(),
            }
            let ev = b.build();
            canon_scalar(ev.payload.get("x").unwrap_or(&ScalarValue::Null))
        }
        "value_block" => {
            let phys = match phys_of(&t[1]) { Some(p) => p, None => return "BADCASE".into() };
            let ncomp: usize = t[2].parse().unwrap_or(0);
            let mut vals: Vec<ScalarValue> = Vec::new();
            for x in &t[3..] { match parse_scalar(x) { Some(s) => vals.push(s), None => return "BADCASE".into() } }
            let rows = vals.len();
            let mut buf = write_block(phys, &vals);
            for _ in 0..ncomp {
                // compaction: decode, values_to_scalar, write again with the same physical type
                let (p, cv) = read_block(buf, rows);
                let scal = ColumnBlockSnapshot::new(p, cv).into_scalar_values();
                buf = write_block(phys, &scal);
            }
            let (p, cv) = read_block(buf, rows);
            let mut cols: HashMap<String, ColumnValues> = HashMap::new();
            cols.insert("x".to_string(), cv.clone());
            let mut out = Vec::new();
            let evs_real = real_eval("x", &cv);
            if evs_real.len() != rows { return format!("ROWS {} of {}", evs_real.len(), rows); }
            for i in 0..rows {
                let a = evs_real[i].payload.get("x").cloned().unwrap_or(ScalarValue::Null);
                let mut sink = EventSink::new();
                sink.on_row(i, &cols);
                let evs = sink.into_events();
                let b = evs[0].payload.get("x").cloned().unwrap_or(ScalarValue::Null);
                out.push(format!("{};{}", canon_scalar(&a), canon_scalar(&b)));
            }
            let scan = ColumnBlockSnapshot::new(p, cv).into_scalar_values();
            format!("{} | {}", out.join(" "), scan.iter().map(canon_scalar).collect::<Vec<_>>().join(" "))
        }
        "value_core" => {
            let field = t[1].as_str();
            if field != "context_id" && field != "event_type" { return "BADCASE".into(); }
            let ncomp: usize = t[2].parse().unwrap_or(0);
            let mut vals: Vec<ScalarValue> = Vec::new();
            for x in &t[3..] {
                let b = if x == "-" { vec![] } else { unhex(x) };
                match String::from_utf8(b) { Ok(s) => vals.push(ScalarValue::Utf8(s)), Err(_) => return "BADUTF8".into() }
            }
            let rows = vals.len();
            let mut buf = write_block(PhysicalType::VarBytes, &vals);
            for _ in 0..ncomp {
                // compaction reads the core columns with into_strings and writes them back as Utf8
                let (p, cv) = read_block(buf, rows);
                let strs = ColumnBlockSnapshot::new(p, cv).into_strings();
                let scal: Vec<ScalarValue> = strs.into_iter().map(ScalarValue::Utf8).collect();
                buf = write_block(PhysicalType::VarBytes, &scal);
            }
            let (p, cv) = read_block(buf, rows);
            let evs_real = real_eval(field, &cv);
            if evs_real.len() != rows { return format!("ROWS {} of {}", evs_real.len(), rows); }
            let mut cols: HashMap<String, ColumnValues> = HashMap::new();
            cols.insert(field.to_string(), cv.clone());
            let mut out = Vec::new();
            for i in 0..rows {
                let mut sink = EventSink::new();
                sink.on_row(i, &cols);
                let evs = sink.into_events();
                // what the response carries: get_field_scalar(core).to_json()
                let js = evs_real[i].get_field(field).map(|v| canon_json(&v)).unwrap_or_else(|| "-".into());
                out.push(format!("{};{};{}", core_of(&evs_real[i], field), core_of(&evs[0], field), js));
            }
            let strs = ColumnBlockSnapshot::new(p, cv).into_strings();
            format!("{} | {}", out.join(" "), strs.iter().map(|s| format!("U{}", hex_or_empty(s.as_bytes()))).collect::<Vec<_>>().join(" "))
        }
        _ => "UNKNOWN_PROBE".into(),
    }
}
