// C06 probes: drive the REAL DEFINE / STORE / QUERY path of sneldb in-process.
//
// One engine per process (CONFIG is a process-global Lazy): a temp directory, a config
// derived from /repo/config/test.toml with absolute dirs and a memtable large enough that
// nothing is flushed, a real SchemaRegistry and ShardManager; commands go through
// dispatch_command (-> define::handle / store::handle / query::handle) with the JSON
// renderer, exactly as a frontend does after its authentication gate (user "bypass").
//
//   store_spec  <spec hex>                                   FieldType::from_spec_with_nullable
//   store_case  <schema> <etype> <ctx hex> <json>            Command::Store built directly
//   store_text  <schema> <etype> <q|u><ctx hex> <text hex> <json> <plus>
//                                                            the command line through parse_command
//   store_redef <schema1> <schema2> <ctx hex> <json>         DEFINE twice, then STORE
//   store_raw   <command line hex>                           any command line, raw answer (not used by the check)
//
// <schema>: "-" (no field) or fields joined by ',', each  name:p:spec  or  name:e:v1/v2 ("0" = no variant);
//           names / specs / variants hex, "-" = empty string.
// <etype> : "=" (the type this case defined) or the hex of another name.
// (store_text: <json> may be "!" = the text is not valid JSON and denotes no command)
// <json>  : n | t | f | u<dec>. | i<dec>. | d<16 hex bits> | s<hex>. | a<k>.items | o<k>.(<hex key>.value)*
use crate::probes::unhex;
pub const PREFIX: &str = "store_";
use serde_json::{Map, Number, Value};
use snel_db::command::dispatcher::dispatch_command;
use snel_db::command::parser::command::parse_command;
use snel_db::command::types::{Command, FieldSpec, MiniSchema};
use snel_db::engine::schema::{FieldType, SchemaRegistry};
use snel_db::engine::shard::manager::ShardManager;
use snel_db::shared::response::JsonRenderer;
use std::collections::{HashMap, HashSet};
use std::sync::{Arc, Mutex, OnceLock};
use tokio::sync::RwLock;

struct Eng {
    rt: tokio::runtime::Runtime,
    sm: Arc<ShardManager>,
    reg: Arc<RwLock<SchemaRegistry>>,
    st: Mutex<St>,
}
#[derive(Default)]
struct St {
    next: u64,
    defined: HashMap<String, (String, String)>, // (mode, schema token) -> (type name, define answer)
    seen: HashMap<String, HashSet<String>>,     // type name -> event ids already observed
}

static ENG: OnceLock<Eng> = OnceLock::new();

fn eng() -> &'static Eng {
    ENG.get_or_init(|| {
        let base = std::env::var("VHARN_STORE_DIR").unwrap_or_else(|_| "/tmp".to_string());
        let dir = std::path::PathBuf::from(base).join(format!("vharn-store-{}", std::process::id()));
        let _ = std::fs::remove_dir_all(&dir);
        std::fs::create_dir_all(&dir).unwrap();
        let d = dir.display().to_string();
        let tpl = std::fs::read_to_string("/repo/config/test.toml").unwrap();
        // VHARN_STORE_FLUSH=1: a 4-event memtable, so the run crosses many flushes and the reads
        // also see passive buffers and segments; default: nothing is flushed.
        let small = std::env::var("VHARN_STORE_FLUSH").map(|v| v == "1").unwrap_or(false);
        let cfg = tpl
            .replace("../data/", &format!("{}/", d))
            .replace("fill_factor = 3", if small { "fill_factor = 2" } else { "fill_factor = 100" })
            .replace("event_per_zone = 1", if small { "event_per_zone = 2" } else { "event_per_zone = 1000" })
            .replace("shard_count = 3", "shard_count = 2")
            .replace("stdout_level = \"debug\"", "stdout_level = \"error\"");
        let cfgp = dir.join("cfg.toml");
        std::fs::write(&cfgp, cfg).unwrap();
        unsafe {
            std::env::set_var("SNELDB_CONFIG", cfgp.display().to_string());
        }
        let rt = tokio::runtime::Builder::new_multi_thread().worker_threads(2).enable_all().build().unwrap();
        // VHARN_STORE_FRONTEND=1: take registry and shard manager from FrontendContext::from_config()
        // (exactly what the server builds) instead of constructing the two directly.
        let frontend = std::env::var("VHARN_STORE_FRONTEND").map(|v| v == "1").unwrap_or(false);
        let (sm, reg) = rt.block_on(async {
            if frontend {
                let ctx = snel_db::frontend::context::FrontendContext::from_config().await;
                (Arc::clone(&ctx.shard_manager), Arc::clone(&ctx.registry))
            } else {
                let reg = Arc::new(RwLock::new(SchemaRegistry::new().expect("registry")));
                let sm = Arc::new(ShardManager::new(2, dir.join("cols"), dir.join("wal")).await);
                (sm, reg)
            }
        });
        Eng { rt, sm, reg, st: Mutex::new(St::default()) }
    })
}

fn dispatch(cmd: &Command) -> Vec<Value> {
    let e = eng();
    let mut out: Vec<u8> = Vec::new();
    e.rt.block_on(async {
        dispatch_command(cmd, &mut out, &e.sm, &e.reg, None, Some("bypass"), &JsonRenderer).await.unwrap();
    });
    String::from_utf8_lossy(&out)
        .lines()
        .filter(|l| !l.trim().is_empty())
        .map(|l| serde_json::from_str::<Value>(l).unwrap_or(Value::Null))
        .collect()
}

// ---------------------------------------------------------------- decoding
fn hs(s: &str) -> String {
    String::from_utf8(unhex(s)).expect("utf8")
}

struct P<'a> {
    b: &'a [u8],
    i: usize,
}
impl<'a> P<'a> {
    fn until_dot(&mut self) -> &'a str {
        let s = self.i;
        while self.b[self.i] != b'.' {
            self.i += 1;
        }
        let r = std::str::from_utf8(&self.b[s..self.i]).unwrap();
        self.i += 1;
        r
    }
    fn value(&mut self) -> Option<Value> {
        let c = self.b[self.i];
        self.i += 1;
        Some(match c {
            b'n' => Value::Null,
            b't' => Value::Bool(true),
            b'f' => Value::Bool(false),
            b'u' => Value::Number(Number::from(self.until_dot().parse::<u64>().ok()?)),
            b'i' => {
                let z = self.until_dot().parse::<i64>().ok()?;
                if z >= 0 {
                    return None;
                }
                Value::Number(Number::from(z))
            }
            b'd' => {
                let h = std::str::from_utf8(&self.b[self.i..self.i + 16]).unwrap();
                self.i += 16;
                Value::Number(Number::from_f64(f64::from_bits(u64::from_str_radix(h, 16).ok()?))?)
            }
            b's' => {
                let h = self.until_dot();
                Value::String(String::from_utf8(if h.is_empty() { vec![] } else { hex::decode(h).ok()? }).ok()?)
            }
            b'a' => {
                let k = self.until_dot().parse::<usize>().ok()?;
                let mut v = Vec::new();
                for _ in 0..k {
                    v.push(self.value()?);
                }
                Value::Array(v)
            }
            b'o' => {
                let k = self.until_dot().parse::<usize>().ok()?;
                let mut m = Map::new();
                for _ in 0..k {
                    let h = self.until_dot();
                    let key = String::from_utf8(if h.is_empty() { vec![] } else { hex::decode(h).ok()? }).ok()?;
                    let v = self.value()?;
                    if m.insert(key, v).is_some() {
                        return None; // duplicate key: not a serde_json::Map
                    }
                }
                Value::Object(m)
            }
            _ => return None,
        })
    }
}
fn same_json(a: &Value, b: &Value) -> bool {
    match (a, b) {
        (Value::Number(x), Value::Number(y)) => {
            if x.is_f64() != y.is_f64() {
                return false;
            }
            if x.is_f64() {
                let (p, q) = (x.as_f64().unwrap().to_bits() as i128, y.as_f64().unwrap().to_bits() as i128);
                (p - q).abs() <= 1
            } else {
                x == y
            }
        }
        (Value::Array(x), Value::Array(y)) => x.len() == y.len() && x.iter().zip(y).all(|(p, q)| same_json(p, q)),
        (Value::Object(x), Value::Object(y)) => {
            x.len() == y.len() && x.iter().all(|(k, p)| y.get(k).map(|q| same_json(p, q)).unwrap_or(false))
        }
        _ => a == b,
    }
}
fn json_tok(s: &str) -> Option<Value> {
    let mut p = P { b: s.as_bytes(), i: 0 };
    let v = p.value()?;
    if p.i == s.len() { Some(v) } else { None }
}

fn schema_tok(s: &str) -> Vec<(String, FieldSpec)> {
    if s == "-" {
        return vec![];
    }
    s.split(',')
        .map(|f| {
            let p: Vec<&str> = f.splitn(3, ':').collect();
            let name = hs(p[0]);
            let spec = if p[1] == "p" {
                FieldSpec::Primitive(hs(p[2]))
            } else if p[2] == "0" {
                FieldSpec::Enum(vec![])
            } else {
                FieldSpec::Enum(p[2].split('/').map(hs).collect())
            };
            (name, spec)
        })
        .collect()
}

// ---------------------------------------------------------------- canonical answers
fn classify_msg(status: i64, msg: &str) -> String {
    if status == 200 {
        return "OK".into();
    }
    let m = msg;
    let e = if m.starts_with("event_type cannot be empty") {
        "EType"
    } else if m.starts_with("context_id cannot be empty") {
        "ECtx"
    } else if m.starts_with("No schema defined for event type") {
        "ENoSchema"
    } else if m.starts_with("Payload must be a JSON object") {
        "ENotObject"
    } else if m.starts_with("Field '") && m.ends_with("does not match expected type") || m.starts_with("Missing field '") {
        "EField"
    } else if m.starts_with("Payload contains fields not defined in schema") {
        "EExtra"
    } else if m.starts_with("Invalid time string")
        || m.starts_with("Unrecognized integer time magnitude")
        || m.starts_with("Unsupported numeric time value")
        || m.starts_with("Float time value out of range")
        || m.starts_with("Time field must be a number or string")
    {
        "ETime"
    } else if m.contains("already defined") {
        "AlreadyDefined"
    } else if m.contains("Schema cannot be empty") {
        "EmptySchema"
    } else {
        return format!("OTHER({} {})", status, hex::encode(m));
    };
    if status == 400 || (status == 500 && (e == "AlreadyDefined" || e == "EmptySchema")) {
        e.to_string()
    } else {
        format!("{}@{}", e, status)
    }
}
fn answer(docs: &[Value]) -> String {
    match docs.first() {
        Some(d) => classify_msg(d["status"].as_i64().unwrap_or(-1), d["message"].as_str().unwrap_or("")),
        None => "NOANSWER".into(),
    }
}

/// DEFINE a fresh event type for this (mode, schema) once per process; returns (type name, answer).
fn define_once(mode: &str, tok: &str, via_text: bool) -> (String, String) {
    let e = eng();
    let key = format!("{} {}", mode, tok);
    if let Some(v) = e.st.lock().unwrap().defined.get(&key) {
        return v.clone();
    }
    let name = {
        let mut st = e.st.lock().unwrap();
        st.next += 1;
        format!("vt{}", st.next)
    };
    let ans = define(&name, tok, via_text);
    e.st.lock().unwrap().defined.insert(key, (name.clone(), ans.clone()));
    (name, ans)
}

fn text_safe(s: &str) -> bool {
    !s.chars().any(|c| c == '"' || c == '\\' || c.is_control())
}

fn define(name: &str, tok: &str, via_text: bool) -> String {
    let fields = schema_tok(tok);
    let direct = Command::Define {
        event_type: name.to_string(),
        version: None,
        schema: MiniSchema { fields: fields.iter().cloned().collect() },
    };
    let safe = !fields.is_empty()
        && fields.iter().all(|(n, s)| {
            text_safe(n)
                && match s {
                    FieldSpec::Primitive(p) => text_safe(p),
                    FieldSpec::Enum(vs) => !vs.is_empty() && vs.iter().all(|v| text_safe(v)),
                }
        })
        && fields.iter().map(|(n, _)| n).collect::<HashSet<_>>().len() == fields.len();
    let cmd = if via_text && safe {
        let body: Vec<String> = fields
            .iter()
            .map(|(n, s)| match s {
                FieldSpec::Primitive(p) => format!("\"{}\": \"{}\"", n, p),
                FieldSpec::Enum(vs) => {
                    format!("\"{}\": [{}]", n, vs.iter().map(|v| format!("\"{}\"", v)).collect::<Vec<_>>().join(", "))
                }
            })
            .collect();
        let line = format!("DEFINE {} FIELDS {{ {} }}", name, body.join(", "));
        match parse_command(&line) {
            Ok(c) => {
                if c != direct {
                    return "DEFINE_TEXT_DIFFERS".into();
                }
                c
            }
            Err(_) => return "DEFINE_PARSE".into(),
        }
    } else {
        direct
    };
    answer(&dispatch(&cmd))
}

/// rows of `QUERY <name>`: (columns, rows) or None when the query is answered with an error
fn query(name: &str) -> Option<(Vec<String>, Vec<Vec<Value>>)> {
    let cmd = parse_command(&format!("QUERY {}", name)).ok()?;
    let docs = dispatch(&cmd);
    let mut cols = vec![];
    let mut rows = vec![];
    let mut ok = false;
    for d in docs {
        match d["type"].as_str() {
            Some("schema") => {
                ok = true;
                cols = d["columns"].as_array().unwrap().iter().map(|c| c["name"].as_str().unwrap().to_string()).collect();
            }
            Some("batch") => {
                for r in d["rows"].as_array().unwrap() {
                    rows.push(r.as_array().unwrap().clone());
                }
            }
            _ => {}
        }
    }
    if ok { Some((cols, rows)) } else { None }
}

/// New rows of the type since the last look: "V=<count> C=<ctx hex of the new rows> T=<time fields of the new rows>".
fn observe(name: &str) -> String {
    let e = eng();
    let Some((cols, rows)) = query(name) else {
        return "V=0 C= T=".into();
    };
    let id_col = cols.iter().position(|c| c == "event_id").unwrap();
    let ctx_col = cols.iter().position(|c| c == "context_id").unwrap();
    // time-typed fields according to the registry
    let times: Vec<String> = {
        let reg = e.rt.block_on(async { e.reg.read().await.get(name).cloned() });
        let mut v: Vec<String> = reg
            .map(|ms| {
                ms.fields
                    .iter()
                    .filter(|(_, ft)| match ft {
                        FieldType::Timestamp | FieldType::Date => true,
                        FieldType::Optional(i) => matches!(**i, FieldType::Timestamp | FieldType::Date),
                        _ => false,
                    })
                    .map(|(n, _)| n.clone())
                    .collect()
            })
            .unwrap_or_default();
        v.sort_by(|a, b| a.as_bytes().cmp(b.as_bytes()));
        v
    };
    let mut st = e.st.lock().unwrap();
    let seen = st.seen.entry(name.to_string()).or_default();
    let mut n = 0;
    let mut ctxs = vec![];
    let mut tv = vec![];
    for r in rows {
        let id = r[id_col].to_string();
        if seen.insert(id) {
            n += 1;
            ctxs.push(hex::encode(r[ctx_col].as_str().unwrap_or("?")));
            for f in &times {
                if let Some(ci) = cols.iter().skip(4).position(|c| c == f) {
                    let v = &r[ci + 4];
                    if !v.is_null() {
                        tv.push(format!("{}={}", hex::encode(f), v));
                    }
                }
            }
        }
    }
    format!("V={} C={} T={}", n, ctxs.join(","), tv.join(","))
}

fn etype_of(tok: &str, defined: &str) -> String {
    if tok == "=" { defined.to_string() } else { hs(tok) }
}

pub fn run(t: &[String]) -> String {
    match t[0].as_str() {
        "store_spec" => {
            let s = hs(&t[1]);
            fn pn(ft: &FieldType) -> &'static str {
                match ft {
                    FieldType::String => "String",
                    FieldType::U64 => "U64",
                    FieldType::I64 => "I64",
                    FieldType::F64 => "F64",
                    FieldType::Bool => "Bool",
                    FieldType::Timestamp => "Timestamp",
                    FieldType::Date => "Date",
                    _ => "?",
                }
            }
            match FieldType::from_spec_with_nullable(&s) {
                None => "None".into(),
                Some(FieldType::Optional(i)) => format!("O {}", pn(&i)),
                Some(ft) => format!("P {}", pn(&ft)),
            }
        }
        // store_raw <hex of a command line>: parse_command + dispatch_command, raw answer (for replays by hand)
        "store_raw" => {
            let line = hs(&t[1]);
            match parse_command(&line) {
                Err(err) => format!("PARSE_ERR {:?}", err),
                Ok(cmd) => dispatch(&cmd).iter().map(|d| d.to_string()).collect::<Vec<_>>().join(" "),
            }
        }
        // store_sleep <ms>: let background work (flushes) finish; for replays by hand
        "store_sleep" => {
            std::thread::sleep(std::time::Duration::from_millis(t[1].parse().unwrap_or(0)));
            "SLEPT".into()
        }
        "store_case" => {
            let Some(payload) = json_tok(&t[4]) else { return "GENBUG json".into() };
            let (name, d) = define_once("case", &t[1], false);
            let cmd = Command::Store { event_type: etype_of(&t[2], &name), context_id: hs(&t[3]), payload };
            let s = answer(&dispatch(&cmd));
            format!("D={} S={} {}", d, s, observe(&name))
        }
        "store_text" => {
            let text = hs(&t[4]);
            if t[5] == "!" {
                // "!": the payload text is NOT valid JSON (unclosed / stray braces ...); generator
                // self-check: the reference parser rejects it too
                if serde_json::from_str::<Value>(&text).is_ok() {
                    return "GENBUG text is valid JSON".into();
                }
            } else {
                let Some(tree) = json_tok(&t[5]) else { return "GENBUG json".into() };
                // generator self-check: the tree is what the text denotes (serde_json without
                // float_roundtrip may be one ulp off on floats, so floats are compared up to one ulp)
                match serde_json::from_str::<Value>(&text) {
                    Ok(v) if same_json(&v, &tree) => {}
                    _ => return "GENBUG text/tree".into(),
                }
            }
            let (name, d) = define_once("text", &t[1], true);
            let (mode, ctxh) = t[3].split_at(1);
            let ctx = hs(ctxh);
            let ctx_txt = if mode == "q" { format!("\"{}\"", ctx) } else { ctx };
            let line = format!("STORE {} FOR {} PAYLOAD {}", etype_of(&t[2], &name), ctx_txt, text);
            let s = match parse_command(&line) {
                Ok(cmd) => answer(&dispatch(&cmd)),
                Err(_) => "PARSE".into(),
            };
            format!("D={} S={} {}", d, s, observe(&name))
        }
        "store_redef" => {
            let Some(payload) = json_tok(&t[4]) else { return "GENBUG json".into() };
            let e = eng();
            let name = {
                let mut st = e.st.lock().unwrap();
                st.next += 1;
                format!("vt{}", st.next)
            };
            let d1 = define(&name, &t[1], false);
            let d2 = define(&name, &t[2], false);
            let cmd = Command::Store { event_type: name.clone(), context_id: hs(&t[3]), payload };
            let s = answer(&dispatch(&cmd));
            format!("D1={} D2={} S={} {}", d1, d2, s, observe(&name))
        }
        _ => "UNKNOWN_PROBE".into(),
    }
}
