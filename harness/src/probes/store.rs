// exploratory version
use crate::probes::unhex;
pub const PREFIX: &str = "store_";
use snel_db::command::dispatcher::dispatch_command;
use snel_db::command::parser::command::parse_command;
use snel_db::engine::schema::{FieldType, SchemaRegistry};
use snel_db::engine::shard::manager::ShardManager;
use snel_db::shared::response::JsonRenderer;
use std::sync::{Arc, OnceLock};
use tokio::sync::RwLock;

struct Eng {
    rt: tokio::runtime::Runtime,
    sm: Arc<ShardManager>,
    reg: Arc<RwLock<SchemaRegistry>>,
}

static ENG: OnceLock<Eng> = OnceLock::new();

fn eng() -> &'static Eng {
    ENG.get_or_init(|| {
        let base = std::env::var("VHARN_STORE_DIR").unwrap_or_else(|_| "/tmp".to_string());
        let dir = std::path::PathBuf::from(base).join(format!("vharn-store-{}", std::process::id()));
        let _ = std::fs::remove_dir_all(&dir);
        std::fs::create_dir_all(&dir).unwrap();
        let d = dir.display().to_string();
        let tpl = std::fs::read_to_string("/repo/config/test.toml").unwrap();
        let cfg = tpl
            .replace("../data/", &format!("{}/", d))
            .replace("fill_factor = 3", "fill_factor = 100")
            .replace("event_per_zone = 1", "event_per_zone = 1000")
            .replace("shard_count = 3", "shard_count = 2")
            .replace("stdout_level = \"debug\"", "stdout_level = \"error\"");
        let cfgp = dir.join("cfg.toml");
        std::fs::write(&cfgp, cfg).unwrap();
        unsafe { std::env::set_var("SNELDB_CONFIG", cfgp.display().to_string()); }
        let rt = tokio::runtime::Builder::new_multi_thread().worker_threads(2).enable_all().build().unwrap();
        let (sm, reg) = rt.block_on(async {
            let reg = Arc::new(RwLock::new(SchemaRegistry::new().expect("registry")));
            let sm = Arc::new(ShardManager::new(2, dir.join("cols"), dir.join("wal")).await);
            (sm, reg)
        });
        Eng { rt, sm, reg }
    })
}

fn run_line(line: &str) -> String {
    let e = eng();
    match parse_command(line) {
        Err(err) => format!("PARSE_ERR {:?}", err),
        Ok(cmd) => {
            let mut out: Vec<u8> = Vec::new();
            e.rt.block_on(async {
                dispatch_command(&cmd, &mut out, &e.sm, &e.reg, None, Some("bypass"), &JsonRenderer).await.unwrap();
            });
            String::from_utf8_lossy(&out).replace('\n', " ")
        }
    }
}

pub fn run(t: &[String]) -> String {
    match t[0].as_str() {
        "store_spec" => {
            let s = String::from_utf8(unhex(&t[1])).unwrap();
            format!("{:?}", FieldType::from_spec_with_nullable(&s))
        }
        "store_raw" => {
            let s = String::from_utf8(unhex(&t[1])).unwrap();
            run_line(&s)
        }
        _ => "UNKNOWN_PROBE".into(),
    }
}
