//! C20 probe: the real response writers and renderers on generated `ColumnBatch` streams.
//!
//! `CONFIG.query.streaming_batch_size` is process-global, so the first case of a process writes a
//! config file (a copy of /repo/config/test.toml plus `streaming_batch_size = $RENDER_BS`) and sets
//! SNELDB_CONFIG before CONFIG is touched; a case whose <bs> differs from the process value answers BADCFG.
//!
//! render_run <q | s<mfc><w|n>> <bs> <limit|-> <offset|-> <cols> <batches>
//!     the stream goes through QueryResponseWriter (q) or ShowResponseWriter (s, materialized frame count,
//!     watermark filtering yes/no) once per renderer (JsonRenderer, UnixRenderer, ArrowRenderer)
//!     cols    = <namehex>:<typehex>,...
//!     batches = '-' (none) or batches joined by '/', a batch = 'E' (no rows) or rows joined by ';',
//!               a row = cells joined by ','
//!     cell    = n | b0 | b1 | i<dec> | f<bits>[:..] | t<dec> | s<hex>[:..] | x<hex>   (text after ':' is for the model)
//!   -> J:<hex of the JSON stream> U:<hex of the text stream> A:<decoded Arrow stream>
//!      decoded Arrow stream = <namehex>:<arrow type>:<nullable>,...|<batch>|<batch>...  (read back with arrow_ipc's StreamReader)
//! render_enc <W | indices i,j,..> <cols> <batch>
//!     the encoders called directly: ArrowStreamEncoder::write_batch(None | Some(indices)), and
//!     JsonRenderer / UnixRenderer stream_batch + stream_row over the same rows
//!   -> J:<hex> U:<hex> A:<decoded>
//! render_err <status index 0..6> <msghex>
//!     Renderer::render(&Response::error(status, msg)) of the three renderers and the HTTP status the dispatcher
//!     derives from those bytes (hook verif_http_status_of_output)
//!   -> J:<hex body>:<http status> U:<..>:<..> A:<..>:<..>
use crate::probes::{hexs, unhex};
pub const PREFIX: &str = "render_";
use arrow_array::{Array, BooleanArray, Float64Array, Int64Array, LargeStringArray, TimestampMillisecondArray};
use arrow_schema::{DataType, TimeUnit};
use snel_db::command::handlers::query::QueryResponseWriter;
use snel_db::command::handlers::query_batch_stream::QueryBatchStream;
use snel_db::command::handlers::show::ShowResponseWriter;
use snel_db::engine::core::read::flow::{BatchPool, BatchSchema, ColumnBatch, FlowChannel, FlowMetrics};
use snel_db::engine::core::read::result::ColumnSpec;
use snel_db::engine::types::ScalarValue;
use snel_db::shared::config::CONFIG;
use snel_db::shared::response::render::Renderer;
use snel_db::shared::response::{ArrowRenderer, ArrowStreamEncoder, JsonRenderer, Response, StatusCode, UnixRenderer};
use std::path::Path;
use std::sync::{Arc, OnceLock};

static BS: OnceLock<usize> = OnceLock::new();
static RT: OnceLock<tokio::runtime::Runtime> = OnceLock::new();

fn batch_size() -> usize {
    *BS.get_or_init(|| {
        let bs: usize = std::env::var("RENDER_BS").ok().and_then(|s| s.parse().ok()).unwrap_or(1000);
        let base = std::env::temp_dir().join(format!("render-{}-{}", bs, std::process::id()));
        let _ = std::fs::remove_dir_all(&base);
        std::fs::create_dir_all(&base).unwrap();
        let repo = std::env::var("VERIF_REPO").unwrap_or_else(|_| "/repo".into());
        let tmpl = std::fs::read_to_string(Path::new(&repo).join("config/test.toml")).expect("config/test.toml");
        let mut out = String::new();
        for l in tmpl.lines() {
            if l.trim_start().starts_with("streaming_batch_size") { continue; }
            out += l;
            out.push('\n');
            if l.trim() == "[query]" {
                out += &format!("streaming_batch_size = {}\n", bs);
            }
        }
        let cfg = base.join("config.toml");
        std::fs::write(&cfg, out).unwrap();
        unsafe { std::env::set_var("SNELDB_CONFIG", &cfg); }
        let got = CONFIG.query.as_ref().and_then(|q| q.streaming_batch_size).unwrap_or(1000);
        assert_eq!(got, bs);
        let _ = std::fs::remove_dir_all(&base);
        bs
    })
}

fn rt() -> &'static tokio::runtime::Runtime {
    RT.get_or_init(|| tokio::runtime::Builder::new_current_thread().enable_all().build().unwrap())
}

fn cell_in(tok: &str) -> ScalarValue {
    let tok = tok.split(':').next().unwrap();
    let (k, r) = tok.split_at(1);
    match k {
        "n" => ScalarValue::Null,
        "b" => ScalarValue::Boolean(r == "1"),
        "i" => ScalarValue::Int64(r.parse().unwrap()),
        "f" => ScalarValue::Float64(f64::from_bits(r.parse().unwrap())),
        "t" => ScalarValue::Timestamp(r.parse().unwrap()),
        "s" => ScalarValue::Utf8(String::from_utf8(unhex(r)).unwrap()),
        "x" => ScalarValue::Binary(unhex(r)),
        _ => panic!("cell"),
    }
}

fn schema_in(tok: &str) -> Arc<BatchSchema> {
    let cols = tok.split(',').map(|c| {
        let (n, t) = c.split_once(':').unwrap();
        ColumnSpec { name: String::from_utf8(unhex(n)).unwrap(), logical_type: String::from_utf8(unhex(t)).unwrap() }
    }).collect();
    Arc::new(BatchSchema::new(cols).expect("schema"))
}

fn rows_in(tok: &str) -> Vec<Vec<ScalarValue>> {
    if tok == "E" { return vec![]; }
    tok.split(';').map(|r| r.split(',').map(cell_in).collect()).collect()
}

fn batch_of(schema: &Arc<BatchSchema>, rows: &[Vec<ScalarValue>]) -> ColumnBatch {
    let pool = BatchPool::new(rows.len().max(1)).expect("pool");
    let mut b = pool.acquire(Arc::clone(schema));
    for r in rows { b.push_row(r).expect("push_row"); }
    b.finish().expect("finish")
}

fn batches_in(schema: &Arc<BatchSchema>, tok: &str) -> Vec<Arc<ColumnBatch>> {
    if tok == "-" { return vec![]; }
    tok.split('/').map(|b| Arc::new(batch_of(schema, &rows_in(b)))).collect()
}

fn stream_of(schema: &Arc<BatchSchema>, batches: &[Arc<ColumnBatch>]) -> QueryBatchStream {
    let (tx, rx) = FlowChannel::bounded(batches.len() + 1, FlowMetrics::new());
    for b in batches { tx.try_send(Arc::clone(b)).map_err(|_| ()).expect("send"); }
    drop(tx);
    QueryBatchStream::verif_from_receiver(Arc::clone(schema), rx)
}

fn dt_name(dt: &DataType) -> String {
    match dt {
        DataType::Int64 => "Int64".into(),
        DataType::Float64 => "Float64".into(),
        DataType::Boolean => "Boolean".into(),
        DataType::Timestamp(TimeUnit::Millisecond, None) => "TimestampMs".into(),
        DataType::LargeUtf8 => "LargeUtf8".into(),
        other => format!("Other({:?})", other).replace(' ', ""),
    }
}

fn arrow_cell(col: &dyn Array, i: usize) -> String {
    if col.is_null(i) { return "n".into(); }
    if let Some(a) = col.as_any().downcast_ref::<Int64Array>() { return format!("i{}", a.value(i)); }
    if let Some(a) = col.as_any().downcast_ref::<TimestampMillisecondArray>() { return format!("i{}", a.value(i)); }
    if let Some(a) = col.as_any().downcast_ref::<Float64Array>() { return format!("f{}", a.value(i).to_bits()); }
    if let Some(a) = col.as_any().downcast_ref::<BooleanArray>() { return if a.value(i) { "b1".into() } else { "b0".into() }; }
    if let Some(a) = col.as_any().downcast_ref::<LargeStringArray>() { return format!("s{}", hexs(a.value(i).as_bytes())); }
    "?".into()
}

/// Reads an Arrow IPC stream back with arrow_ipc's StreamReader.
fn decode_arrow(bytes: &[u8]) -> String {
    let reader = match arrow_ipc::reader::StreamReader::try_new(std::io::Cursor::new(bytes.to_vec()), None) {
        Ok(r) => r,
        Err(_) => return "ERR:reader".into(),
    };
    let schema = reader.schema();
    let mut parts: Vec<String> = vec![schema.fields().iter()
        .map(|f| format!("{}:{}:{}", hexs(f.name().as_bytes()), dt_name(f.data_type()), if f.is_nullable() { 1 } else { 0 }))
        .collect::<Vec<_>>().join(",")];
    for rb in reader {
        let rb = match rb { Ok(b) => b, Err(_) => { parts.push("ERR:batch".into()); break; } };
        let mut rows = Vec::new();
        for i in 0..rb.num_rows() {
            rows.push((0..rb.num_columns()).map(|c| arrow_cell(rb.column(c).as_ref(), i)).collect::<Vec<_>>().join(","));
        }
        parts.push(if rows.is_empty() { "E".into() } else { rows.join(";") });
    }
    parts.join("|")
}

fn run_writer(kind: &str, renderer: &dyn Renderer, schema: &Arc<BatchSchema>, batches: &[Arc<ColumnBatch>],
              limit: Option<u32>, offset: Option<u32>) -> Result<Vec<u8>, String> {
    let stream = stream_of(schema, batches);
    let mut out: Vec<u8> = Vec::new();
    let ok = rt().block_on(async {
        if kind == "q" {
            QueryResponseWriter::new(&mut out, renderer, Arc::clone(schema), limit, offset).write(stream).await.is_ok()
        } else {
            let wm = kind.ends_with('w');
            let mfc: usize = kind[1..kind.len() - 1].parse().unwrap();
            ShowResponseWriter::new(&mut out, renderer, Arc::clone(schema), mfc, wm, limit, offset).write(stream).await.is_ok()
        }
    });
    if ok { Ok(out) } else { Err("ERR:write".into()) }
}

fn optnum(s: &str) -> Option<u32> { if s == "-" { None } else { Some(s.parse().unwrap()) } }

pub fn run(t: &[String]) -> String {
    match t[0].as_str() {
        "render_run" => {
            let bs: usize = t[2].parse().unwrap();
            if batch_size() != bs { return "BADCFG".into(); }
            let schema = schema_in(&t[5]);
            let batches = batches_in(&schema, &t[6]);
            let (limit, offset) = (optnum(&t[3]), optnum(&t[4]));
            let j = run_writer(&t[1], &JsonRenderer, &schema, &batches, limit, offset);
            let u = run_writer(&t[1], &UnixRenderer, &schema, &batches, limit, offset);
            let a = run_writer(&t[1], &ArrowRenderer, &schema, &batches, limit, offset);
            format!("J:{} U:{} A:{}",
                    j.map(|b| hexs(&b)).unwrap_or_else(|e| e),
                    u.map(|b| hexs(&b)).unwrap_or_else(|e| e),
                    a.map(|b| decode_arrow(&b)).unwrap_or_else(|e| e))
        }
        "render_enc" => {
            let schema = schema_in(&t[2]);
            let rows = rows_in(&t[3]);
            let batch = batch_of(&schema, &rows);
            let idx: Option<Vec<usize>> = if t[1] == "W" { None } else { Some(t[1].split(',').map(|x| x.parse().unwrap()).collect()) };
            let sel: Vec<Vec<ScalarValue>> = match &idx {
                None => rows.clone(),
                Some(ix) => ix.iter().map(|&i| rows[i].clone()).collect(),
            };
            let names: Vec<String> = schema.columns().iter().map(|c| c.name.clone()).collect();
            let name_refs: Vec<&str> = names.iter().map(|s| s.as_str()).collect();
            let meta: Vec<(String, String)> = schema.columns().iter().map(|c| (c.name.clone(), c.logical_type.clone())).collect();
            let mut parts = Vec::new();
            for r in [&JsonRenderer as &dyn Renderer, &UnixRenderer as &dyn Renderer] {
                let mut all = Vec::new();
                let mut buf = Vec::new();
                r.stream_schema(&meta, &mut buf); all.extend_from_slice(&buf);
                r.stream_batch(&name_refs, &sel, &mut buf); all.extend_from_slice(&buf);
                for row in &sel { r.stream_row(&name_refs, row, &mut buf); all.extend_from_slice(&buf); }
                r.stream_end(sel.len(), &mut buf); all.extend_from_slice(&buf);
                parts.push(hexs(&all));
            }
            let mut enc = match ArrowStreamEncoder::new(&schema) { Ok(e) => e, Err(_) => return "ERR:encoder".into() };
            let mut all = Vec::new();
            let mut buf = Vec::new();
            if enc.write_schema(&mut buf).is_err() { return "ERR:schema".into(); }
            all.extend_from_slice(&buf);
            let a = if enc.write_batch(&schema, &batch, idx.as_deref(), &mut buf).is_err() { "ERR:write_batch".to_string() } else {
                all.extend_from_slice(&buf);
                let _ = enc.write_end(&mut buf);
                all.extend_from_slice(&buf);
                decode_arrow(&all)
            };
            format!("J:{} U:{} A:{}", parts[0], parts[1], a)
        }
        "render_err" => {
            let st = [StatusCode::Ok, StatusCode::BadRequest, StatusCode::Unauthorized, StatusCode::Forbidden,
                      StatusCode::NotFound, StatusCode::InternalError, StatusCode::ServiceUnavailable][t[1].parse::<usize>().unwrap()];
            let msg = String::from_utf8(unhex(&t[2])).unwrap();
            let resp = Response::error(st, msg);
            let one = |body: Vec<u8>| {
                let http = snel_db::frontend::http::dispatcher::verif_http_status_of_output(&body);
                format!("{}:{}", hexs(&body), http)
            };
            format!("J:{} U:{} A:{}", one(JsonRenderer.render(&resp)), one(UnixRenderer.render(&resp)), one(ArrowRenderer.render(&resp)))
        }
        _ => "UNKNOWN_PROBE".into(),
    }
}
