//! C15 probe (function level): the real ColumnarGrouper + SequenceWhereEvaluator + SequenceMatcher on
//! generated columnar zones, laid out as `SequenceStreamMerger::batches_to_zones` lays them out
//! (string-stored columns, the time column typed i64 with a null bitmap).
//!
//! seq_match <FB|PB> <limit|-> <where|-> <ta> <tb> <fieldsA> <fieldsB> <zonesA> <zonesB>
//!   ta, tb      hex event type names (different)
//!   fieldsX     '-' or comma separated hex names of the payload fields of the type (schema + columns)
//!   zonesX      '-' (the type has no entry in zones_by_event_type) or zones joined by '/'
//!   zone        <flags>:<rows>   flags: L = link column "k" present, T = time column "t" present, N = neither
//!   rows        rows joined by ';' (may be empty), row = <linkhex>,<time|n>,<f1hex>,<f2hex>...   ('-' = empty string)
//!   where       RPN joined by '~': c:<pfxhex|->:<fieldhex>:<eq|ne|gt|ge|lt|le>:<int>  &  |  !
//! -> AMBIGUOUS | '-' | <apos>-<bpos>,...     positions count the rows of the type across its zones
use crate::probes::unhex;
pub const PREFIX: &str = "seq_";
use snel_db::command::types::{CompareOp, EventSequence, EventTarget, Expr, SequenceLink};
use snel_db::engine::core::read::cache::DecompressedBlock;
use snel_db::engine::core::read::sequence::{ColumnarGrouper, SequenceMatcher, SequenceMaterializer, SequenceWhereEvaluator};
use snel_db::engine::types::ScalarValue;
use snel_db::engine::core::{CandidateZone, ColumnValues};
use snel_db::engine::schema::registry::{MiniSchema, SchemaRegistry};
use snel_db::engine::schema::types::FieldType;
use std::collections::HashMap;
use std::sync::atomic::{AtomicU64, Ordering};
use std::sync::{Arc, OnceLock};
use tokio::sync::RwLock;

static RT: OnceLock<tokio::runtime::Runtime> = OnceLock::new();
static DIR: OnceLock<tempfile::TempDir> = OnceLock::new();
static SEQ: AtomicU64 = AtomicU64::new(0);

fn rt() -> &'static tokio::runtime::Runtime {
    RT.get_or_init(|| tokio::runtime::Builder::new_current_thread().enable_all().build().unwrap())
}

fn text(h: &str) -> String { String::from_utf8(unhex(h)).unwrap() }

fn string_column(cells: &[String]) -> ColumnValues {
    let mut bytes = Vec::new();
    let mut ranges = Vec::with_capacity(cells.len());
    for s in cells {
        ranges.push((bytes.len(), s.len()));
        bytes.extend_from_slice(s.as_bytes());
    }
    ColumnValues::new(Arc::new(DecompressedBlock::from_bytes(bytes)), ranges)
}

fn time_column(cells: &[Option<i64>]) -> ColumnValues {
    let n = cells.len();
    let mut bytes = Vec::with_capacity(n * 8 + (n + 7) / 8);
    for c in cells { bytes.extend_from_slice(&c.unwrap_or(0).to_le_bytes()); }
    let nulls = if cells.iter().any(|c| c.is_none()) {
        let start = bytes.len();
        let mut nb = vec![0u8; (n + 7) / 8];
        for (i, c) in cells.iter().enumerate() { if c.is_none() { nb[i / 8] |= 1 << (i % 8); } }
        bytes.extend_from_slice(&nb);
        Some((start, (n + 7) / 8))
    } else { None };
    ColumnValues::new_typed_i64(Arc::new(DecompressedBlock::from_bytes(bytes)), 0, n, nulls)
}

/// zones of one type and the starting position of every zone
fn zones_in(tok: &str, fields: &[String], ty: &str) -> Option<(Vec<CandidateZone>, Vec<usize>)> {
    if tok == "-" { return None; }
    let mut zones = Vec::new();
    let mut starts = Vec::new();
    let mut pos = 0usize;
    for (zi, z) in tok.split('/').enumerate() {
        let (flags, rows) = z.split_once(':').unwrap();
        let rows: Vec<Vec<&str>> = if rows.is_empty() { vec![] } else { rows.split(';').map(|r| r.split(',').collect()).collect() };
        let mut values: HashMap<String, ColumnValues> = HashMap::new();
        if flags.contains('L') {
            values.insert("k".into(), string_column(&rows.iter().map(|r| text(r[0])).collect::<Vec<_>>()));
        }
        if flags.contains('T') {
            values.insert("t".into(), time_column(&rows.iter().map(|r| if r[1] == "n" { None } else { Some(r[1].parse().unwrap()) }).collect::<Vec<_>>()));
        }
        for (fi, f) in fields.iter().enumerate() {
            values.insert(f.clone(), string_column(&rows.iter().map(|r| text(r[2 + fi])).collect::<Vec<_>>()));
        }
        // every zone carries the event_type column, as batches_to_zones guarantees
        values.insert("event_type".into(), string_column(&rows.iter().map(|_| ty.to_string()).collect::<Vec<_>>()));
        // identity column for the materialisation check: the flat position of the row within its type
        values.insert("vpos".into(), string_column(&(0..rows.len()).map(|i| format!("r{}", pos + i)).collect::<Vec<_>>()));
        // zone ids are unique within a segment only: zones 0 and 1 stand for zone 0 of two segments
        let mut zone = CandidateZone::new((zi / 2) as u32, format!("streaming_{}", ty));
        zone.set_values(values);
        zones.push(zone);
        starts.push(pos);
        pos += rows.len();
    }
    Some((zones, starts))
}

fn where_in(tok: &str) -> Option<Expr> {
    if tok == "-" { return None; }
    let mut st: Vec<Expr> = Vec::new();
    for t in tok.split('~') {
        match t {
            "&" => { let r = st.pop().unwrap(); let l = st.pop().unwrap(); st.push(Expr::And(Box::new(l), Box::new(r))); }
            "|" => { let r = st.pop().unwrap(); let l = st.pop().unwrap(); st.push(Expr::Or(Box::new(l), Box::new(r))); }
            "!" => { let x = st.pop().unwrap(); st.push(Expr::Not(Box::new(x))); }
            leaf => {
                let p: Vec<&str> = leaf.split(':').collect();
                let f = text(p[2]);
                let field = if p[1] == "-" { f } else { format!("{}.{}", text(p[1]), f) };
                let op = match p[3] { "eq" => CompareOp::Eq, "ne" => CompareOp::Neq, "gt" => CompareOp::Gt, "ge" => CompareOp::Gte, "lt" => CompareOp::Lt, _ => CompareOp::Lte };
                let c: i64 = p[4].parse().unwrap();
                st.push(Expr::Compare { field, op, value: serde_json::Value::Number(c.into()) });
            }
        }
    }
    st.pop()
}

fn fields_in(tok: &str) -> Vec<String> { if tok == "-" { vec![] } else { tok.split(',').map(text).collect() } }

pub fn run(t: &[String]) -> String {
    match t[0].as_str() {
        "seq_match" => {
            let link = if t[1] == "FB" { SequenceLink::FollowedBy } else { SequenceLink::PrecededBy };
            let limit: Option<usize> = if t[2] == "-" { None } else { Some(t[2].parse().unwrap()) };
            let wh = where_in(&t[3]);
            let (ta, tb) = (text(&t[4]), text(&t[5]));
            let (fa, fb) = (fields_in(&t[6]), fields_in(&t[7]));
            let mut zones: HashMap<String, Vec<CandidateZone>> = HashMap::new();
            let mut starts: HashMap<String, Vec<usize>> = HashMap::new();
            for (ty, f, tok) in [(&ta, &fa, &t[8]), (&tb, &fb, &t[9])] {
                if let Some((z, s)) = zones_in(tok, f, ty) { zones.insert(ty.clone(), z); starts.insert(ty.clone(), s); }
            }
            // schemas: link, time and the payload fields of each type
            let dir = DIR.get_or_init(|| tempfile::tempdir().unwrap());
            let path = dir.path().join(format!("schemas-{}.bin", SEQ.fetch_add(1, Ordering::SeqCst)));
            let mut reg = SchemaRegistry::new_with_path(path.clone()).expect("registry");
            for (ty, f) in [(&ta, &fa), (&tb, &fb)] {
                let mut fields: HashMap<String, FieldType> = HashMap::new();
                fields.insert("k".into(), FieldType::String);
                fields.insert("t".into(), FieldType::I64);
                for n in f.iter() { fields.insert(n.clone(), FieldType::String); }
                reg.define(ty, MiniSchema { fields }).expect("define");
            }
            let registry = Arc::new(RwLock::new(reg));
            let types = vec![ta.clone(), tb.clone()];
            let ev = rt().block_on(SequenceWhereEvaluator::new(wh.as_ref(), &types, &registry));
            let _ = std::fs::remove_file(&path);
            let ev = match ev { Ok(e) => e, Err(_) => return "AMBIGUOUS".into() };
            let groups = ColumnarGrouper::new("k".into(), "t".into()).group_zones_by_link_field(&zones);
            let sequence = EventSequence {
                head: EventTarget { event: ta.clone(), field: None },
                links: vec![(link, EventTarget { event: tb.clone(), field: None })],
            };
            let matches = SequenceMatcher::new(sequence, "t".into()).with_where_evaluator(ev).match_sequences(groups, &zones, limit);
            // the materialiser must turn every matched row index into the event of exactly that row
            let mats = SequenceMaterializer::new().materialize_matches(matches.clone(), &zones);
            if mats.len() != matches.len() {
                return format!("BAD_PAIR materializer returned {} sequences for {} matches", mats.len(), matches.len());
            }
            for (m, ms) in matches.iter().zip(mats.iter()) {
                if ms.events.len() != m.matched_rows.len() {
                    return format!("BAD_PAIR materializer built {} events for {} matched rows", ms.events.len(), m.matched_rows.len());
                }
                for ((ty, ri), e) in m.matched_rows.iter().zip(ms.events.iter()) {
                    let want = format!("r{}", starts[ty][ri.zone_idx] + ri.row_idx);
                    let got = match e.payload.get("vpos") { Some(ScalarValue::Utf8(s)) => s.clone(), other => format!("{:?}", other) };
                    if got != want || e.event_type != *ty {
                        return format!("BAD_PAIR materialized event of {} row {} is {} row {}", ty, want, e.event_type, got);
                    }
                }
            }
            let mut out = Vec::new();
            for m in matches {
                let mut a = None;
                let mut b = None;
                for (ty, ri) in &m.matched_rows {
                    let p = starts[ty][ri.zone_idx] + ri.row_idx;
                    if *ty == ta { a = Some(p); } else { b = Some(p); }
                }
                out.push(format!("{}-{}", a.map(|x| x.to_string()).unwrap_or("?".into()), b.map(|x| x.to_string()).unwrap_or("?".into())));
            }
            if out.is_empty() { "-".into() } else { out.join(",") }
        }
        _ => "UNKNOWN_PROBE".into(),
    }
}
