use crate::probes::unhex;
pub const PREFIX: &str = "time_";
use snel_db::shared::time::{TimeKind, TimeParser};

fn opt(o: Option<i64>) -> String {
    match o { Some(v) => format!("S {}", v), None => "N".to_string() }
}

pub fn run(t: &[String]) -> String {
    match t[0].as_str() {
        // time_str <kind:dt|d> <hex string>
        "time_str" => {
            let kind = if t[1] == "d" { TimeKind::Date } else { TimeKind::DateTime };
            let b = unhex(&t[2]);
            match String::from_utf8(b) {
                Ok(s) => opt(TimeParser::parse_str_to_epoch_seconds(&s, kind)),
                Err(_) => "BADUTF8".into(),
            }
        }
        // time_jstr <kind> <hex string>: normalize_json_value on Value::String
        "time_jstr" => {
            let kind = if t[1] == "d" { TimeKind::Date } else { TimeKind::DateTime };
            let s = String::from_utf8(unhex(&t[2])).unwrap();
            let mut v = serde_json::Value::String(s);
            match TimeParser::normalize_json_value(&mut v, kind) {
                Ok(()) => format!("S {}", v),
                Err(_) => "N".into(),
            }
        }
        // time_json <kind> <hex json text>
        "time_json" => {
            let kind = if t[1] == "d" { TimeKind::Date } else { TimeKind::DateTime };
            let b = unhex(&t[2]);
            let s = String::from_utf8(b).unwrap();
            let mut v: serde_json::Value = match serde_json::from_str(&s) { Ok(v) => v, Err(_) => return "BADJSON".into() };
            match TimeParser::normalize_json_value(&mut v, kind) {
                Ok(()) => format!("S {}", v),
                Err(_) => "N".into(),
            }
        }
        _ => "UNKNOWN_PROBE".into(),
    }
}
