include!(concat!(env!("OUT_DIR"), "/probes_gen.rs"));
use std::io::{BufRead, Write};

/// Decode a hex token into bytes ("-" = empty).
pub fn unhex(s: &str) -> Vec<u8> {
    if s == "-" { return vec![]; }
    hex::decode(s).expect("hex")
}
pub fn hexs(b: &[u8]) -> String {
    if b.is_empty() { "-".to_string() } else { hex::encode(b) }
}

/// One case per stdin line: `<probe> <args...>`; one result line per case on stdout.
pub fn run_fn() {
    std::panic::set_hook(Box::new(|_| {}));
    let stdin = std::io::stdin();
    let stdout = std::io::stdout();
    let mut out = std::io::BufWriter::new(stdout.lock());
    for line in stdin.lock().lines() {
        let line = line.unwrap();
        let toks: Vec<&str> = line.split_whitespace().collect();
        if toks.is_empty() { continue; }
        let toks_owned: Vec<String> = toks.iter().map(|s| s.to_string()).collect();
        let r = std::panic::catch_unwind(move || dispatch(&toks_owned));
        let res = match r { Ok(s) => s, Err(_) => "PANIC".to_string() };
        writeln!(out, "{}", res).unwrap();
    }
}

fn dispatch(t: &[String]) -> String {
    dispatch_gen(t).unwrap_or_else(|| "UNKNOWN_PROBE".to_string())
}
