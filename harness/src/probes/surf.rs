// C08 part A: the succinct range filter.  Calls the real `encode_value`, the real
// `SurfTrie::build_from_sorted` + `ZoneSurfFilter::zones_overlapping_{ge,le}`, and the real
// builder/pruner pair `ZoneSurfFilter::build_all_filtered` (file on disk) +
// `RangePruner::apply_surf_only` (loads the file, encodes the literal, 90 % rule).
//
// value tokens:  i<dec> Int64 | t<dec> Timestamp | f<bits,dec> Float64 | s<hex>/<hint> Utf8
//                (hint = n or the bit pattern str::parse::<f64> must return) | b0 b1 Boolean
//                | n Null | x Binary | _ key absent from the payload
use crate::probes::{hexs, unhex};
pub const PREFIX: &str = "surf_";

use snel_db::command::types::CompareOp;
use snel_db::engine::core::filter::surf_encoding::encode_value;
use snel_db::engine::core::filter::surf_trie::SurfTrie;
use snel_db::engine::core::filter::zone_surf_filter::{ZoneSurfEntry, ZoneSurfFilter};
use snel_db::engine::core::zone::selector::pruner::range_pruner::RangePruner;
use snel_db::engine::core::zone::selector::pruner::PruneArgs;
use snel_db::engine::core::zone::zone_artifacts::ZoneArtifacts;
use snel_db::engine::core::zone::zone_plan::ZonePlan;
use snel_db::engine::core::event::event::Event;
use snel_db::engine::types::ScalarValue;
use std::collections::HashSet;

enum Tok { Absent, Val(ScalarValue), Bad(&'static str) }

fn value(tok: &str) -> Tok {
    let (h, rest) = tok.split_at(1);
    match h {
        "_" => Tok::Absent,
        "i" => match rest.parse::<i64>() { Ok(i) => Tok::Val(ScalarValue::Int64(i)), Err(_) => Tok::Bad("BADCASE") },
        "t" => match rest.parse::<i64>() { Ok(i) => Tok::Val(ScalarValue::Timestamp(i)), Err(_) => Tok::Bad("BADCASE") },
        "f" => match rest.parse::<u64>() { Ok(b) => Tok::Val(ScalarValue::Float64(f64::from_bits(b))), Err(_) => Tok::Bad("BADCASE") },
        "b" => Tok::Val(ScalarValue::Boolean(rest == "1")),
        "n" => Tok::Val(ScalarValue::Null),
        "x" => Tok::Val(ScalarValue::Binary(vec![1, 2, 3])),
        "s" => {
            let mut it = rest.splitn(2, '/');
            let hx = it.next().unwrap_or("-");
            let hint = it.next().unwrap_or("n");
            let s = match String::from_utf8(unhex(hx)) { Ok(s) => s, Err(_) => return Tok::Bad("BADUTF8") };
            // the model takes str::parse::<f64> from the hint: check it against the real parser
            if s.parse::<i64>().is_err() && s.parse::<u64>().is_err() {
                let real = s.parse::<f64>().ok().map(|f| f.to_bits());
                let given = if hint == "n" { None } else { hint.parse::<u64>().ok() };
                if real != given { return Tok::Bad("HINT_MISMATCH"); }
            }
            Tok::Val(ScalarValue::Utf8(s))
        }
        _ => Tok::Bad("BADCASE"),
    }
}

fn op_of(s: &str) -> Option<CompareOp> {
    Some(match s {
        "eq" => CompareOp::Eq, "neq" => CompareOp::Neq, "gt" => CompareOp::Gt, "gte" => CompareOp::Gte,
        "lt" => CompareOp::Lt, "lte" => CompareOp::Lte, "in" => CompareOp::In, _ => return None,
    })
}

fn mk_event(v: Option<ScalarValue>) -> Event {
    let mut e: Event = serde_json::from_str(r#"{"event_type":"t","context_id":"c","timestamp":1,"payload":{}}"#).unwrap();
    e.payload.clear();
    // a second, always present field so that the payload is never empty
    e.payload.insert("other".to_string(), ScalarValue::Int64(7));
    if let Some(v) = v { e.payload.insert("fld".to_string(), v); }
    e
}

pub fn run(t: &[String]) -> String {
    match t[0].as_str() {
        // surf_enc <val>
        "surf_enc" => match value(&t[1]) {
            Tok::Val(v) => match encode_value(&v) { Some(b) => hexs(&b), None => "N".into() },
            Tok::Absent => "BADCASE".into(),
            Tok::Bad(e) => e.into(),
        },
        // surf_enc2 <val> <val>: the two keys
        "surf_enc2" => {
            let mut out = Vec::new();
            for k in 1..3 {
                match value(&t[k]) {
                    Tok::Val(v) => out.push(match encode_value(&v) { Some(b) => hexs(&b), None => "N".into() }),
                    Tok::Absent => return "BADCASE".into(),
                    Tok::Bad(e) => return e.into(),
                }
            }
            out.join(" ")
        }
        // surf_trie <ge|le> <incl:0|1> <target hex> <key hex>*
        "surf_trie" => {
            let keys: Vec<Vec<u8>> = t[4..].iter().map(|k| unhex(k)).collect();
            let trie = SurfTrie::build_from_sorted(&keys);
            let f = ZoneSurfFilter { entries: vec![ZoneSurfEntry { zone_id: 0, trie }] };
            let target = unhex(&t[3]);
            let incl = t[2] == "1";
            let z = if t[1] == "ge" { f.zones_overlapping_ge(&target, incl, "s") } else { f.zones_overlapping_le(&target, incl, "s") };
            if z.is_empty() { "0".into() } else { "1".into() }
        }
        // surf_prune <op> <probe val> ( z <zone id> <val>* )*
        "surf_prune" => {
            let Some(op) = op_of(&t[1]) else { return "BADCASE".into() };
            let probe = match value(&t[2]) { Tok::Val(v) => v, Tok::Absent => return "BADCASE".into(), Tok::Bad(e) => return e.into() };
            let mut plans: Vec<ZonePlan> = Vec::new();
            let mut i = 3;
            while i < t.len() {
                if t[i] != "z" || i + 1 >= t.len() { return "BADCASE".into(); }
                let Ok(id) = t[i + 1].parse::<u32>() else { return "BADCASE".into() };
                i += 2;
                let mut events = Vec::new();
                while i < t.len() && t[i] != "z" {
                    match value(&t[i]) {
                        Tok::Absent => events.push(mk_event(None)),
                        Tok::Val(v) => events.push(mk_event(Some(v))),
                        Tok::Bad(e) => return e.into(),
                    }
                    i += 1;
                }
                let n = events.len();
                plans.push(ZonePlan { id, start_index: 0, end_index: n.saturating_sub(1), events, uid: "u1".into(),
                                      event_type: "t".into(), segment_id: 0, created_at: 0 });
            }
            let base = tempfile::tempdir().unwrap();
            let base_path = base.path().to_path_buf();
            let seg = "00000";
            let seg_dir = base_path.join(seg);
            std::fs::create_dir_all(&seg_dir).unwrap();
            let mut allowed = HashSet::new();
            allowed.insert("fld".to_string());
            if ZoneSurfFilter::build_all_filtered(&plans, &seg_dir, &allowed).is_err() { return "BUILD_ERR".into(); }
            let pr = RangePruner { artifacts: ZoneArtifacts::new(&base_path, None) };
            let args = PruneArgs { segment_id: seg, uid: "u1", column: "fld", value: Some(&probe), op: Some(&op) };
            match pr.apply_surf_only(&args) {
                None => "N".into(),
                Some(z) => {
                    let mut ids: Vec<u32> = z.iter().map(|c| c.zone_id).collect();
                    ids.sort();
                    format!("S {}", ids.iter().map(|x| x.to_string()).collect::<Vec<_>>().join(","))
                }
            }
        }
        _ => "UNKNOWN_PROBE".into(),
    }
}
