//! C18 probes: the real `EventIdGenerator` under a scripted clock (hook
//! `verif_hooks::set_clock_script_ms`), real `ShardContext` lifetimes over a real WAL
//! directory (WAL writer thread + `WalRecovery`), and the synthetic row id of
//! `ConditionEvaluator::evaluate_zones`.
//!
//! Clock readings are written as `<ms>`, `<ms>x<count>` (the same reading count times) or
//! `<ms>+<count>` (ms, ms+1, ..., ms+count-1).
use std::collections::{BTreeMap, HashMap};
use std::io::Write;
use std::path::Path;
use std::sync::Arc;

use snel_db::engine::core::column::column_values::ColumnValues;
use snel_db::engine::core::filter::condition_evaluator::ConditionEvaluator;
use snel_db::engine::core::read::cache::decompressed_block::DecompressedBlock;
use snel_db::engine::core::zone::candidate_zone::CandidateZone;
use snel_db::engine::core::{EventId, EventIdGenerator, WalEntry};
use snel_db::engine::shard::context::ShardContext;

pub const PREFIX: &str = "eid_";

fn readings(toks: &[String]) -> Vec<u64> {
    let mut out = Vec::new();
    for t in toks {
        if t == "-" { continue; }
        if let Some((v, c)) = t.split_once('x') {
            let v: u64 = v.parse().expect("reading");
            let c: usize = c.parse().expect("count");
            out.extend(std::iter::repeat(v).take(c));
        } else if let Some((v, c)) = t.split_once('+') {
            let v: u64 = v.parse().expect("reading");
            let c: u64 = c.parse().expect("count");
            out.extend((0..c).map(|i| v + i));
        } else {
            out.push(t.parse().expect("reading"));
        }
    }
    out
}

fn join(ids: &[u64]) -> String {
    if ids.is_empty() { "-".to_string() } else { ids.iter().map(|i| i.to_string()).collect::<Vec<_>>().join(",") }
}

#[cfg(sneldb_verif)]
fn set_clock(r: Vec<u64>) {
    // advance_after = true: should a case ever exhaust its script the clock keeps advancing
    // (the model then answers with fewer ids and the case shows up as a disagreement).
    snel_db::verif_hooks::set_clock_script_ms(r, true);
}
#[cfg(not(sneldb_verif))]
fn set_clock(_r: Vec<u64>) {
    panic!("built without --cfg sneldb_verif");
}

fn proc_dir() -> std::path::PathBuf {
    std::env::temp_dir().join(format!("vharn-eid-{}", std::process::id()))
}

/// Process-wide engine configuration for the `ShardContext` probes (CONFIG is a global Lazy
/// read from $SNELDB_CONFIG). Only `eid_engine` uses the directories named in it (so that the WAL
/// cleaner, which takes its directories from CONFIG, acts on the WAL the shard really writes).
pub fn ensure_config() {
    use std::sync::Once;
    static ONCE: Once = Once::new();
    ONCE.call_once(|| {
        if std::env::var("SNELDB_CONFIG").is_ok() { return; }
        // one directory per harness process; directories of dead processes are removed
        if let Ok(rd) = std::fs::read_dir(std::env::temp_dir()) {
            for e in rd.flatten() {
                let name = e.file_name().to_string_lossy().to_string();
                if let Some(pid) = name.strip_prefix("vharn-eid-") {
                    if pid.parse::<u32>().is_ok() && !Path::new(&format!("/proc/{pid}")).exists() {
                        let _ = std::fs::remove_dir_all(e.path());
                    }
                }
            }
        }
        let dir = proc_dir();
        let _ = std::fs::create_dir_all(&dir);
        let path = dir.join("config.toml");
        let d = dir.display();
        let text = format!(r#"[wal]
enabled = true
fsync = false
buffered = true
buffer_size = "100KB"
dir = "{d}/wal/"
flush_each_write = false
fsync_every_n = 1024
conservative_mode = false
archive_dir = "{d}/wal/archived/"
compression_level = 3
compression_algorithm = "zstd"
[engine]
fill_factor = 100
data_dir = "{d}/cols"
index_dir = "{d}/index/"
shard_count = 1
event_per_zone = 100
compaction_interval = 3000
sys_io_threshold = 10
sys_memory_threshold_mb = "1MB"
max_inflight_passives = 8
segments_per_merge = 2
compaction_max_shard_concurrency = 1
[schema]
def_dir = "{d}/schema/"
[server]
socket_path = "{d}/sneldb.sock"
log_level = "error"
output_format = "json"
tcp_addr = "127.0.0.1:7171"
http_addr = "127.0.0.1:8085"
ws_addr = "127.0.0.1:8086"
auth_token = "t"
[playground]
enabled = false
allow_unauthenticated = true
[auth]
bypass_auth = true
rate_limit_enabled = false
[logging]
log_dir = "{d}/logs"
stdout_level = "error"
file_level = "error"
[query]
zone_index_cache_max_entries = 16
column_block_cache_max_bytes = "1MB"
zone_surf_cache_max_bytes = "1MB"
[time]
timezone = "UTC"
week_start = "Mon"
use_calendar_bucketing = true
"#);
        let tmp = dir.join(format!("config.toml.{}", std::process::id()));
        std::fs::write(&tmp, text).expect("config");
        std::fs::rename(&tmp, &path).expect("config rename");
        unsafe { std::env::set_var("SNELDB_CONFIG", &path) };
    });
}

fn wal_line(id: Option<u64>, n: usize) -> String {
    match id {
        Some(v) => format!("{{\"timestamp\":{},\"context_id\":\"c\",\"event_type\":\"t\",\"payload\":{{}},\"event_id\":{}}}\n", 1000 + n, v),
        None => format!("{{\"timestamp\":{},\"context_id\":\"c\",\"event_type\":\"t\",\"payload\":{{}}}}\n", 1000 + n),
    }
}

fn memtable_ids(ctx: &ShardContext) -> Vec<u64> {
    ctx.memtable.iter().map(|e| e.event_id().raw()).collect()
}

fn count_wal_lines(dir: &Path) -> usize {
    let mut n = 0;
    if let Ok(rd) = std::fs::read_dir(dir) {
        for e in rd.flatten() {
            if e.path().extension().map(|x| x == "log").unwrap_or(false) {
                if let Ok(s) = std::fs::read_to_string(e.path()) { n += s.lines().count(); }
            }
        }
    }
    n
}

pub fn run(t: &[String]) -> String {
    match t[0].as_str() {
        // eid_run <shard:u16> <k1> <readings...> [/ <k2> <readings...>]...
        // One fresh EventIdGenerator per lifetime; k calls of next(shard) each.
        "eid_run" => {
            let shard: u16 = t[1].parse().unwrap();
            let mut out = Vec::new();
            for life in t[2..].split(|x| x == "/") {
                let k: usize = life[0].parse().unwrap();
                set_clock(readings(&life[1..]));
                let mut g = EventIdGenerator::new();
                let ids: Vec<u64> = (0..k).map(|_| g.next(shard).raw()).collect();
                out.push(join(&ids));
            }
            format!("I {}", out.join(" / "))
        }
        // eid_wal <shard:usize> <stored: id|0|d ...> / <k> <readings...>
        // A hand-written WAL file (d = entry without event_id field), then a real ShardContext
        // lifetime: recovery, then k calls of next_event_id.
        "eid_wal" => {
            ensure_config();
            let shard: usize = t[1].parse().unwrap();
            let mut parts = t[2..].split(|x| x == "/");
            let stored = parts.next().unwrap();
            let life = parts.next().unwrap();
            let k: usize = life[0].parse().unwrap();
            let tmp = tempfile::tempdir().unwrap();
            let base = tmp.path().join("cols").join(format!("shard-{shard}"));
            let wal = tmp.path().join("wal").join(format!("shard-{shard}"));
            std::fs::create_dir_all(&base).unwrap();
            std::fs::create_dir_all(&wal).unwrap();
            let mut f = std::fs::File::create(wal.join("wal-00000.log")).unwrap();
            for (n, s) in stored.iter().enumerate() {
                if s == "-" { continue; }
                let id = if s == "d" { None } else { Some(s.parse::<u64>().unwrap()) };
                f.write_all(wal_line(id, n).as_bytes()).unwrap();
            }
            drop(f);
            set_clock(readings(&life[1..]));
            let rt = tokio::runtime::Builder::new_current_thread().enable_all().build().unwrap();
            let (rec, new) = rt.block_on(async {
                let mut ctx = ShardContext::new(shard, base.clone(), wal.clone());
                let rec = memtable_ids(&ctx);
                let new: Vec<u64> = (0..k).map(|_| ctx.next_event_id().raw()).collect();
                (rec, new)
            });
            drop(rt);
            format!("R {} N {}", join(&rec), join(&new))
        }
        // eid_life2 <shard:usize> <k1> <readings1...> / <k2> <readings2...>
        // Two real ShardContext lifetimes on the same directories.  Lifetime 1 obtains k1 ids and
        // appends one WAL entry per id through the real WAL writer; lifetime 2 recovers the WAL
        // and obtains k2 more ids.
        "eid_life2" => {
            ensure_config();
            let shard: usize = t[1].parse().unwrap();
            let mut parts = t[2..].split(|x| x == "/");
            let l1 = parts.next().unwrap();
            let l2 = parts.next().unwrap();
            let k1: usize = l1[0].parse().unwrap();
            let k2: usize = l2[0].parse().unwrap();
            let tmp = tempfile::tempdir().unwrap();
            let base = tmp.path().join("cols").join(format!("shard-{shard}"));
            let wal = tmp.path().join("wal").join(format!("shard-{shard}"));
            std::fs::create_dir_all(&base).unwrap();
            set_clock(readings(&l1[1..]));
            let rt = tokio::runtime::Builder::new_multi_thread().worker_threads(1).enable_all().build().unwrap();
            let ids1: Vec<u64> = rt.block_on(async {
                let mut ctx = ShardContext::new(shard, base.clone(), wal.clone());
                let mut ids = Vec::new();
                for n in 0..k1 {
                    let id = ctx.next_event_id();
                    ids.push(id.raw());
                    let entry = WalEntry {
                        timestamp: 1000 + n as u64,
                        context_id: "c".into(),
                        event_type: "t".into(),
                        payload: BTreeMap::new(),
                        event_id: id,
                    };
                    ctx.wal.as_ref().unwrap().append(entry).await;
                }
                ctx.wal.as_ref().unwrap().shutdown().await;
                for _ in 0..3000 {
                    if count_wal_lines(&wal) >= k1 { break; }
                    tokio::time::sleep(std::time::Duration::from_millis(10)).await;
                }
                ids
            });
            drop(rt);
            if count_wal_lines(&wal) != k1 { return format!("WAL_INCOMPLETE {}", count_wal_lines(&wal)); }
            set_clock(readings(&l2[1..]));
            let rt = tokio::runtime::Builder::new_current_thread().enable_all().build().unwrap();
            let (rec, new) = rt.block_on(async {
                let mut ctx = ShardContext::new(shard, base.clone(), wal.clone());
                let rec = memtable_ids(&ctx);
                let new: Vec<u64> = (0..k2).map(|_| ctx.next_event_id().raw()).collect();
                (rec, new)
            });
            drop(rt);
            format!("A {} R {} N {}", join(&ids1), join(&rec), join(&new))
        }
        // eid_synth <segment> <zone_id:u32> <mode: m|c> <stored ids...> [/ <segment> <zone_id> <mode> <ids...>]...
        // Candidate zones with a u64 payload column of as many rows as ids are listed; mode c adds the
        // event_id column holding them, mode m leaves it out. No condition: every row is returned.
        "eid_synth" => {
            let col = |vals: &[u64]| {
                let mut buf = Vec::with_capacity(vals.len() * 8);
                for v in vals { buf.extend_from_slice(&v.to_le_bytes()); }
                ColumnValues::new_typed_u64(Arc::new(DecompressedBlock::from_bytes(buf)), 0, vals.len(), None)
            };
            let mut zones = Vec::new();
            let mut counts = Vec::new();
            for z in t[1..].split(|x| x == "/") {
                let seg = z[0].clone();
                let zone_id: u32 = z[1].parse().unwrap();
                let ids: Vec<u64> = z[3..].iter().filter(|x| *x != "-").map(|x| x.parse().unwrap()).collect();
                let mut zone = CandidateZone::new(zone_id, seg);
                let mut cols: HashMap<String, ColumnValues> = HashMap::new();
                let xs: Vec<u64> = (0..ids.len() as u64).collect();
                cols.insert("x".into(), col(&xs));
                if z[2] == "c" { cols.insert("event_id".into(), col(&ids)); }
                zone.set_values(cols);
                zones.push(zone);
                counts.push(ids.len());
            }
            let ev = ConditionEvaluator::new();
            let out: Vec<u64> = ev.evaluate_zones(zones).iter().map(|e| e.event_id().raw()).collect();
            // rows come back zone by zone, in row order
            let mut parts = Vec::new();
            let mut pos = 0;
            for c in counts {
                let end = (pos + c).min(out.len());
                parts.push(join(&out[pos.min(out.len())..end]));
                pos += c;
            }
            if pos != out.len() { return format!("ROWCOUNT {}", out.len()); }
            format!("S {}", parts.join(" / "))
        }
        // eid_engine <flush:0|1> <k1> <readings1...> / <k2> <readings2...>
        // End to end on one real shard: DEFINE, k1 STOREs (payload x = 0..), optionally FLUSH (the events
        // move to a segment and the WAL is pruned), shutdown, a second real ShardManager on the same
        // directories, k2 more STOREs, then QUERY through the real dispatcher and JSON renderer.
        // Output: events stored, rows the QUERY returned, their ids (sorted), and - when nothing is
        // missing - whether the ids increase in append order (x order).
        "eid_engine" => {
            ensure_config();
            use snel_db::command::dispatcher::dispatch_command;
            use snel_db::command::parser::command::parse_command;
            use snel_db::engine::schema::SchemaRegistry;
            use snel_db::engine::shard::manager::ShardManager;
            use snel_db::shared::response::json::JsonRenderer;
            let flush = t[1] == "1";
            let mut parts = t[2..].split(|x| x == "/");
            let l1 = parts.next().unwrap();
            let l2 = parts.next().unwrap();
            let ks = [l1[0].parse::<usize>().unwrap(), l2[0].parse::<usize>().unwrap()];
            let scripts = [readings(&l1[1..]), readings(&l2[1..])];
            if std::env::var("SNELDB_CONFIG").map(|p| !p.starts_with(proc_dir().to_string_lossy().as_ref())).unwrap_or(true) {
                return "ENGINE_ERROR foreign_config".into();
            }
            let tmp = proc_dir();
            let base = tmp.join("cols");
            let wal = tmp.join("wal");
            for d in [&base, &wal, &tmp.join("schema"), &tmp.join("index")] { let _ = std::fs::remove_dir_all(d); }
            let _ = std::fs::remove_file(tmp.join("schemas.bin"));
            let mut x = 0usize;
            let mut last = String::new();
            for life in 0..2 {
                let rt = tokio::runtime::Builder::new_multi_thread().worker_threads(2).enable_all().build().unwrap();
                let res: Result<String, String> = rt.block_on(async {
                    let reg = SchemaRegistry::new_with_path(tmp.join("schemas.bin")).map_err(|e| format!("{e:?}"))?;
                    let registry = Arc::new(tokio::sync::RwLock::new(reg));
                    let mgr = ShardManager::new(1, base.clone(), wal.clone()).await;
                    let run_cmd = |line: String| {
                        let mgr = &mgr;
                        let registry = &registry;
                        async move {
                            let cmd = parse_command(&line).map_err(|e| format!("parse {line}: {e:?}"))?;
                            let mut out: Vec<u8> = Vec::new();
                            dispatch_command(&cmd, &mut out, mgr, registry, None, Some("bypass"), &JsonRenderer)
                                .await.map_err(|e| e.to_string())?;
                            Ok::<String, String>(String::from_utf8_lossy(&out).to_string())
                        }
                    };
                    if life == 0 { run_cmd(r#"DEFINE t FIELDS { "x": "int" }"#.to_string()).await?; }
                    set_clock(scripts[life].clone());
                    for _ in 0..ks[life] {
                        run_cmd(format!(r#"STORE t FOR c PAYLOAD {{ "x": {x} }}"#)).await?;
                        x += 1;
                    }
                    let q = run_cmd("QUERY t".to_string()).await?;
                    if flush && life == 0 {
                        let f = run_cmd("FLUSH".to_string()).await?;
                        if !f.contains("200") && !f.to_lowercase().contains("ok") { return Err(format!("flush: {f}")); }
                    }
                    let errs = mgr.shutdown_all().await;
                    if !errs.is_empty() { return Err(format!("shutdown {errs:?}")); }
                    if !flush {
                        for _ in 0..3000 {
                            if count_wal_lines(&wal.join("shard-0")) >= x { break; }
                            tokio::time::sleep(std::time::Duration::from_millis(10)).await;
                        }
                    } else {
                        tokio::time::sleep(std::time::Duration::from_millis(50)).await;
                    }
                    Ok(q)
                });
                drop(rt);
                match res { Ok(q) => last = q, Err(e) => return format!("ENGINE_ERROR {}", e.replace(char::is_whitespace, "_")) }
            }
            if std::env::var("VHARN_DEBUG").is_ok() { eprintln!("{last}"); }
            // rows of the streamed JSON answer: {"type":"schema","columns":[..]} then {"type":"batch","rows":[[..]]}
            let (mut ix, mut iid) = (None, None);
            let mut rows: Vec<(i64, u64)> = Vec::new();
            for l in last.lines() {
                let v: serde_json::Value = match serde_json::from_str(l) { Ok(v) => v, Err(_) => continue };
                match v["type"].as_str() {
                    Some("schema") => {
                        for (i, c) in v["columns"].as_array().map(|a| a.as_slice()).unwrap_or(&[]).iter().enumerate() {
                            match c["name"].as_str() { Some("x") => ix = Some(i), Some("event_id") => iid = Some(i), _ => {} }
                        }
                    }
                    Some("batch") => {
                        let (Some(ix), Some(iid)) = (ix, iid) else { return "ENGINE_ERROR no_schema".into() };
                        for r in v["rows"].as_array().map(|a| a.as_slice()).unwrap_or(&[]) {
                            rows.push((r[ix].as_i64().unwrap_or(-1), r[iid].as_u64().unwrap_or(0)));
                        }
                    }
                    _ => {}
                }
            }
            rows.sort();
            let by_x: Vec<u64> = rows.iter().map(|r| r.1).collect();
            let complete = rows.len() == x && rows.iter().enumerate().all(|(i, r)| r.0 == i as i64);
            let order = if !complete { "?" } else if by_x.windows(2).all(|w| w[0] < w[1]) { "increasing" } else { "not_increasing" };
            let mut ids = by_x.clone();
            ids.sort();
            format!("Q stored={} returned={} ids={} order={}", x, rows.len(), join(&ids), order)
        }
        // eid_raw <u64>: EventId round trip (from_raw / raw / is_zero)
        "eid_raw" => {
            let v: u64 = t[1].parse().unwrap();
            let e = EventId::from_raw(v);
            format!("E {} {}", e.raw(), if e.is_zero() { 1 } else { 0 })
        }
        _ => "UNKNOWN_PROBE".into(),
    }
}
