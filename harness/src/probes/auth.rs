// C13 probe: drives the REAL authentication / authorisation code of snel_db.
//
// One process = one engine lifetime (CONFIG is a process-global read from SNELDB_CONFIG),
// so every op below acts on one lazily created `FrontendContext` (auth ON: the config the
// check writes has `bypass_auth = false`).  A "case" is one op line; a "history" is the
// sequence of lines one process receives.
//
//   auth_mk <uid> <key|-> <roles|->        AuthManager::create_user_with_roles     -> OK | E <kind>
//   auth_grant <uid> <evt> <r> <w>         AuthManager::grant_permission (sets)    -> OK | E nf
//   auth_revoke <uid> <evt>                AuthManager::revoke_permission (drops)  -> OK | E nf
//   auth_revkey <uid>                      AuthManager::revoke_key                 -> OK | E nf
//   auth_can <uid> <evt>                   can_read / can_write / is_admin         -> r=_ w=_ a=_
//   auth_active <uid>                      AuthManager::list_users -> active flag    -> A 1 | A 0 | A -
//   auth_perms <uid>                       AuthManager::get_permissions            -> PT <type:rw,..> | E nf
//   auth_parse <line>                      AuthManager::parse_auth                 -> P <u> <s> <c> | N
//   auth_verify <msg> <uid> <sig>          AuthManager::verify_signature           -> OK | N
//   auth_tok_new <slot> <uid>              generate_session_token, remembered as @{slot} -> T
//   auth_tok_check <text>                  validate_session_token                  -> U <uid> | N
//   auth_tok_revoke <text>                 revoke_session_token                    -> 1 | 0
//   auth_sess_revoke <uid>                 revoke_user_sessions                    -> <n>
//   auth_sleep <secs>                      sleeps secs + 0.15 s                     -> Z
//   auth_cmd <uid|-> <desc> <text>         parse_command + dispatch_command(.., Some(uid), JsonRenderer)
//                                          -> <status> rows=<n> types=<sorted,hex> | PARSE | PANIC
//   auth_cfg <expiry>                      (model only: session expiry of this history)     -> CFG
//   auth_tcp <conn> <desc> <exp> <line>    one line over a loopback connection to the real
//                                          run_tcp_server (check_auth + dispatch, UnixRenderer)
//                                          -> AUTHFAIL | TOKEN | <status> | PARSEERR
//   auth_tcpclose <conn>                                                           -> C
//   auth_unix <desc> <exp> <line>          one line through frontend::unix::Connection::run
//                                          -> AUTHFAIL | <status> | PARSEERR
//   auth_http <uid|-> <sig|-> <desc> <exp> <body>   POST /command with X-Auth-User / X-Auth-Signature
//                                          -> AUTHFAIL | <status> | PARSEERR
//
// Every text argument is hex; inside the decoded text `@{slot}` is replaced by the value
// remembered for the slot (session tokens are random, signatures are 64 hex chars), so
// the same case line is meaningful for the model, which has its own token values.
// `<desc>` (the abstract command the text `<exp>` denotes) is ignored here; only the model reads
// it.  A successful AUTH on connection <conn> stores its token in slot `auth:<conn>`.
use crate::probes::{hexs, unhex};
use snel_db::command::dispatcher::dispatch_command;
use snel_db::command::parser::parse_command;
use snel_db::engine::auth::{AuthError, AuthManager, PermissionSet};
use snel_db::frontend::context::FrontendContext;
use snel_db::shared::response::{JsonRenderer, UnixRenderer};
use std::collections::{BTreeSet, HashMap};
use std::sync::{Arc, Mutex, OnceLock};
use tokio::io::{AsyncBufReadExt, AsyncReadExt, AsyncWriteExt, BufReader};
use tokio::net::TcpStream;

pub const PREFIX: &str = "auth_";

pub struct G {
    pub rt: tokio::runtime::Runtime,
    pub ctx: Arc<FrontendContext>,
    pub slots: Mutex<HashMap<String, String>>,
    conns: Mutex<HashMap<String, BufReader<TcpStream>>>,
    tcp_up: Mutex<bool>,
    http_up: Mutex<bool>,
}

static GL: OnceLock<G> = OnceLock::new();

pub fn g() -> &'static G {
    GL.get_or_init(|| {
        let rt = tokio::runtime::Builder::new_multi_thread()
            .worker_threads(2)
            .enable_all()
            .build()
            .expect("runtime");
        let ctx = rt.block_on(FrontendContext::from_config());
        G {
            rt,
            ctx,
            slots: Mutex::new(HashMap::new()),
            conns: Mutex::new(HashMap::new()),
            tcp_up: Mutex::new(false),
            http_up: Mutex::new(false),
        }
    })
}

fn am() -> Arc<AuthManager> {
    g().ctx.auth_manager.clone().expect("auth manager")
}

fn subst(s: &str) -> String {
    let slots = g().slots.lock().unwrap();
    let mut out = s.to_string();
    for (k, v) in slots.iter() {
        out = out.replace(&format!("@{{{}}}", k), v);
    }
    out
}

pub fn text(h: &str) -> String {
    subst(&String::from_utf8_lossy(&unhex(h)))
}

fn err_kind(e: &AuthError) -> &'static str {
    match e {
        AuthError::UserExists => "exists",
        AuthError::InvalidUserId => "badid",
        AuthError::UserIdTooLong { .. } => "idlong",
        AuthError::SecretKeyTooLong { .. } => "keylong",
        AuthError::UserNotFound(_) => "nf",
        AuthError::AuthenticationFailed => "auth",
        _ => "other",
    }
}

/// Status line / first frame of a JsonRenderer response -> (status, rows, event types).
fn classify_json(out: &[u8]) -> String {
    let s = String::from_utf8_lossy(out);
    let mut status: Option<u64> = None;
    let mut rows = 0usize;
    let mut types: BTreeSet<String> = BTreeSet::new();
    let mut cols: Vec<String> = vec![];
    let mut perms: Vec<String> = vec![];
    // the response is either one JSON object {"count","status","message","results"} or a
    // stream of frames, one JSON value per line (schema / row / batch / end)
    let mut any = false;
    for line in s.lines() {
        let line = line.trim();
        if line.is_empty() {
            continue;
        }
        let v: serde_json::Value = match serde_json::from_str(line) {
            Ok(v) => v,
            Err(_) => continue,
        };
        any = true;
        if let Some(st) = v.get("status").and_then(|x| x.as_u64()) {
            status = Some(st);
            if let Some(r) = v.get("results").and_then(|x| x.as_array()) {
                for item in r {
                    collect_types(item, &mut types, &mut rows);
                    // SHOW PERMISSIONS: "  <event_type>: read, write" | "  <event_type>: none"
                    if let Some(l) = item.as_str() {
                        if let Some(rest) = l.strip_prefix("  ") {
                            if let Some((t, ps)) = rest.rsplit_once(": ") {
                                perms.push(perm_entry(t, ps.contains("read"), ps.contains("write")));
                            }
                        }
                    }
                }
            }
            continue;
        }
        match v.get("type").and_then(|x| x.as_str()) {
            Some("schema") => {
                cols = v
                    .get("columns")
                    .and_then(|c| c.as_array())
                    .map(|a| {
                        a.iter()
                            .map(|c| {
                                c.get("name")
                                    .and_then(|n| n.as_str())
                                    .unwrap_or("")
                                    .to_string()
                            })
                            .collect()
                    })
                    .unwrap_or_default();
                if status.is_none() {
                    status = Some(200);
                }
            }
            Some("row") => {
                rows += 1;
                if let Some(t) = v
                    .get("values")
                    .and_then(|x| x.get("event_type"))
                    .and_then(|x| x.as_str())
                {
                    types.insert(t.to_string());
                }
            }
            Some("batch") => {
                let idx = cols.iter().position(|c| c == "event_type");
                if let Some(rs) = v.get("rows").and_then(|x| x.as_array()) {
                    for r in rs {
                        rows += 1;
                        if let (Some(i), Some(a)) = (idx, r.as_array()) {
                            if let Some(t) = a.get(i).and_then(|x| x.as_str()) {
                                types.insert(t.to_string());
                            }
                        }
                    }
                }
            }
            Some("end") => {}
            _ => {}
        }
    }
    if !any {
        return format!("RAW {}", hexs(&out[..out.len().min(40)]));
    }
    let ts: Vec<String> = types.iter().map(|t| hexs(t.as_bytes())).collect();
    perms.sort();
    format!(
        "{} rows={} types={}{}",
        status.map(|s| s.to_string()).unwrap_or("?".into()),
        rows,
        if ts.is_empty() { "-".to_string() } else { ts.join(",") },
        if perms.is_empty() { String::new() } else { format!(" perms={}", perms.join(",")) }
    )
}

/// one entry of a canonical permission table: <hex type>:<r|-><w|->
fn perm_entry(t: &str, r: bool, w: bool) -> String {
    format!("{}:{}{}", hexs(t.as_bytes()), if r { "r" } else { "-" }, if w { "w" } else { "-" })
}

fn collect_types(item: &serde_json::Value, types: &mut BTreeSet<String>, rows: &mut usize) {
    if let Some(o) = item.as_object() {
        if let Some(t) = o.get("event_type").and_then(|x| x.as_str()) {
            types.insert(t.to_string());
            *rows += 1;
        }
    }
}

/// First line of a UnixRenderer / gate response -> class.
fn classify_unix_head(line: &str) -> Option<String> {
    let l = line.trim_end();
    if l.starts_with("ERROR: Authentication failed") {
        return Some("AUTHFAIL".into());
    }
    if l.starts_with("ERROR: ") {
        return Some("PARSEERR".into());
    }
    if l.starts_with("OK TOKEN ") {
        return Some("TOKEN".into());
    }
    if l == "OK" {
        return Some("OKBARE".into());
    }
    let b = l.as_bytes();
    if b.len() >= 4 && b[..3].iter().all(|c| c.is_ascii_digit()) && b[3] == b' ' {
        return Some(l[..3].to_string());
    }
    None
}

fn ensure_tcp() {
    let gl = g();
    let mut up = gl.tcp_up.lock().unwrap();
    if !*up {
        let ctx = gl.ctx.clone();
        gl.rt.spawn(async move {
            let _ = snel_db::frontend::tcp::listener::run_tcp_server(ctx).await;
        });
        *up = true;
    }
}

fn ensure_http() {
    let gl = g();
    let mut up = gl.http_up.lock().unwrap();
    if !*up {
        let ctx = gl.ctx.clone();
        gl.rt.spawn(async move {
            let _ = snel_db::frontend::http::listener::run_http_server(ctx).await;
        });
        *up = true;
    }
}

async fn connect(addr: &str) -> Option<TcpStream> {
    for _ in 0..200 {
        if let Ok(s) = TcpStream::connect(addr).await {
            return Some(s);
        }
        tokio::time::sleep(std::time::Duration::from_millis(25)).await;
    }
    None
}

fn tcp_line(conn: &str, line: &str) -> String {
    ensure_tcp();
    let gl = g();
    let addr = snel_db::shared::config::CONFIG.server.tcp_addr.clone();
    let mut conns = gl.conns.lock().unwrap();
    if !conns.contains_key(conn) {
        match gl.rt.block_on(connect(&addr)) {
            Some(s) => {
                conns.insert(conn.to_string(), BufReader::new(s));
            }
            None => return "NOCONN".into(),
        }
    }
    let rd = conns.get_mut(conn).unwrap();
    gl.rt.block_on(async {
        // the listener reads with read_line: embedded newlines would split the request
        let one = line.replace('\n', " ").replace('\r', " ");
        if rd.get_mut().write_all(format!("{}\n", one).as_bytes()).await.is_err() {
            return "IOERR".to_string();
        }
        let _ = rd.get_mut().flush().await;
        let mut buf = String::new();
        loop {
            buf.clear();
            let r = tokio::time::timeout(std::time::Duration::from_secs(20), rd.read_line(&mut buf)).await;
            match r {
                Ok(Ok(0)) => return "EOF".to_string(),
                Ok(Ok(_)) => {
                    if let Some(c) = classify_unix_head(&buf) {
                        if c == "TOKEN" {
                            let tok = buf.trim_end()["OK TOKEN ".len()..].to_string();
                            gl.slots.lock().unwrap().insert(format!("auth:{}", conn), tok);
                        }
                        return c;
                    }
                }
                Ok(Err(_)) => return "IOERR".to_string(),
                Err(_) => return "TIMEOUT".to_string(),
            }
        }
    })
}

fn unix_line(line: &str) -> String {
    let gl = g();
    let one = line.replace('\n', " ").replace('\r', " ");
    gl.rt.block_on(async {
        let (client, server) = tokio::io::duplex(1 << 20);
        let (srd, swr) = tokio::io::split(server);
        let mut c = snel_db::frontend::unix::connection::Connection {
            pid: 0,
            reader: BufReader::new(srd),
            writer: swr,
            shard_manager: gl.ctx.shard_manager.clone(),
            registry: gl.ctx.registry.clone(),
            renderer: Arc::new(UnixRenderer),
            auth_manager: gl.ctx.auth_manager.clone(),
        };
        let (mut crd, mut cwr) = tokio::io::split(client);
        let _ = cwr.write_all(format!("{}\n", one).as_bytes()).await;
        let _ = cwr.shutdown().await;
        let h = tokio::spawn(async move {
            let _ = c.run().await;
            drop(c);
        });
        let mut out = Vec::new();
        let _ = tokio::time::timeout(std::time::Duration::from_secs(20), crd.read_to_end(&mut out)).await;
        let _ = h.await;
        let s = String::from_utf8_lossy(&out).to_string();
        let first = s.lines().next().unwrap_or("");
        if first.trim().is_empty() {
            return "EMPTY".to_string();
        }
        // the unix connection reports a gate failure as "400 Authentication failed"
        if first.starts_with("400 Authentication failed") {
            return "AUTHFAIL".to_string();
        }
        classify_unix_head(first).unwrap_or_else(|| format!("RAW {}", hexs(first.as_bytes())))
    })
}

fn http_post(uid: Option<String>, sig: Option<String>, body: &str) -> String {
    ensure_http();
    let gl = g();
    let addr = snel_db::shared::config::CONFIG.server.http_addr.clone();
    let token = snel_db::shared::config::CONFIG.server.auth_token.clone();
    gl.rt.block_on(async {
        let mut s = match connect(&addr).await {
            Some(s) => s,
            None => return "NOCONN".to_string(),
        };
        let mut req = format!(
            "POST /command HTTP/1.1\r\nHost: vharn\r\nAuthorization: Bearer {}\r\nConnection: close\r\nContent-Length: {}\r\n",
            token,
            body.as_bytes().len()
        );
        if let Some(u) = uid {
            req += &format!("X-Auth-User: {}\r\n", u);
        }
        if let Some(sg) = sig {
            req += &format!("X-Auth-Signature: {}\r\n", sg);
        }
        req += "\r\n";
        let mut bytes = req.into_bytes();
        bytes.extend_from_slice(body.as_bytes());
        if s.write_all(&bytes).await.is_err() {
            return "IOERR".to_string();
        }
        let mut out = Vec::new();
        let _ = tokio::time::timeout(std::time::Duration::from_secs(20), s.read_to_end(&mut out)).await;
        let txt = String::from_utf8_lossy(&out).to_string();
        let status = txt.split_whitespace().nth(1).unwrap_or("?").to_string();
        let bodytxt = txt.split("\r\n\r\n").nth(1).unwrap_or("");
        if status == "401" && bodytxt.contains("Authentication failed") {
            return "AUTHFAIL".to_string();
        }
        if status == "400" && !bodytxt.contains("\"status\":400,\"message\":\"No schema")
            && (bodytxt.contains("Unknown command") || bodytxt.contains("Unexpected") || bodytxt.contains("Expected") || bodytxt.contains("Missing") || bodytxt.contains("parse") || bodytxt.contains("Parse"))
        {
            return "PARSEERR".to_string();
        }
        status
    })
}

fn opt_text(h: &str) -> Option<String> {
    if h == "-" { None } else { Some(text(h)) }
}

pub fn run(t: &[String]) -> String {
    let gl = g();
    match t[0].as_str() {
        "auth_mk" => {
            let uid = text(&t[1]);
            let key = opt_text(&t[2]);
            let roles: Vec<String> = if t[3] == "-" { vec![] } else { t[3].split(',').map(|r| text(r)).collect() };
            match gl.rt.block_on(am().create_user_with_roles(uid, key, roles)) {
                Ok(_) => "OK".into(),
                Err(e) => format!("E {}", err_kind(&e)),
            }
        }
        "auth_grant" => {
            let ps = PermissionSet::new(t[3] == "1", t[4] == "1");
            match gl.rt.block_on(am().grant_permission(&text(&t[1]), &text(&t[2]), ps)) {
                Ok(_) => "OK".into(),
                Err(e) => format!("E {}", err_kind(&e)),
            }
        }
        "auth_revoke" => match gl.rt.block_on(am().revoke_permission(&text(&t[1]), &text(&t[2]))) {
            Ok(_) => "OK".into(),
            Err(e) => format!("E {}", err_kind(&e)),
        },
        "auth_revkey" => match gl.rt.block_on(am().revoke_key(&text(&t[1]))) {
            Ok(_) => "OK".into(),
            Err(e) => format!("E {}", err_kind(&e)),
        },
        "auth_can" => {
            let (u, e) = (text(&t[1]), text(&t[2]));
            let a = am();
            let (r, w, ad) = gl.rt.block_on(async { (a.can_read(&u, &e).await, a.can_write(&u, &e).await, a.is_admin(&u).await) });
            format!("r={} w={} a={}", r as u8, w as u8, ad as u8)
        }
        "auth_active" => {
            // the account's `active` flag as AuthManager::list_users reports it
            let uid = text(&t[1]);
            match gl.rt.block_on(am().list_users()).iter().find(|u| u.user_id == uid) {
                Some(u) => format!("A {}", u.active as u8),
                None => "A -".into(),
            }
        }
        "auth_perms" => match gl.rt.block_on(am().get_permissions(&text(&t[1]))) {
            Ok(m) => {
                let mut v: Vec<String> = m.iter().map(|(t, p)| perm_entry(t, p.read, p.write)).collect();
                v.sort();
                format!("PT {}", if v.is_empty() { "-".to_string() } else { v.join(",") })
            }
            Err(e) => format!("E {}", err_kind(&e)),
        },
        "auth_parse" => {
            let line = text(&t[1]);
            match am().parse_auth(&line) {
                Ok((u, s, c)) => format!("P {} {} {}", hexs(u.as_bytes()), hexs(s.as_bytes()), hexs(c.as_bytes())),
                Err(_) => "N".into(),
            }
        }
        "auth_verify" => {
            let (m, u, s) = (text(&t[1]), text(&t[2]), text(&t[3]));
            match gl.rt.block_on(am().verify_signature(&m, &u, &s, None)) {
                Ok(_) => "OK".into(),
                Err(_) => "N".into(),
            }
        }
        "auth_tok_new" => {
            let tok = gl.rt.block_on(am().generate_session_token(&text(&t[2])));
            gl.slots.lock().unwrap().insert(t[1].clone(), tok);
            "T".into()
        }
        "auth_tok_check" => match gl.rt.block_on(am().validate_session_token(&text(&t[1]))) {
            Some(u) => format!("U {}", hexs(u.as_bytes())),
            None => "N".into(),
        },
        "auth_tok_revoke" => {
            if gl.rt.block_on(am().revoke_session_token(&text(&t[1]))) { "1".into() } else { "0".into() }
        }
        "auth_sess_revoke" => format!("{}", gl.rt.block_on(am().revoke_user_sessions(&text(&t[1])))),
        "auth_sleep" => {
            let s: u64 = t[1].parse().unwrap_or(0);
            std::thread::sleep(std::time::Duration::from_millis(s * 1000 + 150));
            "Z".into()
        }
        "auth_cmd" => {
            let uid = opt_text(&t[1]);
            let line = text(&t[3]);
            let cmd = match parse_command(&line) {
                Ok(c) => c,
                Err(_) => return "PARSE".into(),
            };
            let a = am();
            let mut out: Vec<u8> = Vec::new();
            let r = gl.rt.block_on(dispatch_command(
                &cmd,
                &mut out,
                &gl.ctx.shard_manager,
                &gl.ctx.registry,
                Some(&a),
                uid.as_deref(),
                &JsonRenderer,
            ));
            match r {
                Ok(()) => classify_json(&out),
                Err(_) => "IOERR".into(),
            }
        }
        "auth_tcp" => tcp_line(&t[1], &text(&t[4])),
        "auth_tcpclose" => {
            gl.conns.lock().unwrap().remove(&t[1]);
            "C".into()
        }
        "auth_unix" => unix_line(&text(&t[3])),
        "auth_http" => http_post(opt_text(&t[1]), opt_text(&t[2]), &text(&t[5])),
        "auth_cfg" => "CFG".into(),
        _ => "UNKNOWN_PROBE".into(),
    }
}
