mod probes;
mod engine;
fn main() {
    let args: Vec<String> = std::env::args().collect();
    if args.len() < 2 {
        eprintln!("usage: vharn fn | engine ...");
        std::process::exit(2);
    }
    match args[1].as_str() {
        "fn" => probes::run_fn(),
        "life" => engine::run_life(),
        _ => {
            eprintln!("unknown mode");
            std::process::exit(2);
        }
    }
}
