"""C16, PER buckets under a configured (fixed-offset) time zone: the real CalendarTimeBucketer against
Model/BucketTz.v, oracle = independent local-calendar arithmetic in Python."""
import datetime

# zones without daylight saving and with a constant offset since 1990
ZONES = [("UTC", 0), ("Asia/Kolkata", 19800), ("Asia/Kathmandu", 20700), ("Asia/Tokyo", 32400), ("Asia/Dubai", 14400),
         ("Etc/GMT+5", -18000), ("Etc/GMT-14", 50400), ("Asia/Kabul", 16200), ("America/Phoenix", -25200)]
GRANS = ["h", "d", "w", "m", "y"]
EPOCH = datetime.datetime(1970, 1, 1)
THEOREMS = ["C16_bucket_tz_contains", "C16_bucket_tz_on_local_boundary"]


def ref_bucket(ts, off, g, ws):
    loc = ts + off
    if g == "h":
        b = loc - loc % 3600
    elif g == "d":
        b = loc - loc % 86400
    elif g == "w":
        day = loc // 86400
        wd = (day + 3) % 7          # 0 = Monday
        back = (wd + 7 - ws) % 7
        b = (day - back) * 86400
    else:
        d = EPOCH + datetime.timedelta(seconds=loc - loc % 86400)
        d2 = d.replace(day=1) if g == "m" else d.replace(month=1, day=1)
        b = int((d2 - EPOCH).total_seconds())
    return b - off


def cases(rng, tier):
    out = []
    n = 300 if tier == "quick" else 30000
    for _ in range(n):
        tz, off = rng.choice(ZONES)
        g = rng.choice(GRANS)
        ws = rng.below(7)
        r = rng.below(6)
        if r == 0:
            ts = rng.range(631152000, 4102444800)
        elif r == 1:   # around local hour / day boundaries
            ts = rng.range(7000, 25000) * 86400 - off + rng.choice([-1, 0, 1, 1799, 1800, 1801, 3599, 3600])
        elif r == 2:   # around UTC hour boundaries
            ts = rng.range(631152000 // 3600, 4102444800 // 3600) * 3600 + rng.choice([-1, 0, 1, 1800, 2700])
        elif r == 3:   # month / year ends
            y = rng.range(1991, 2090)
            m = rng.range(1, 12)
            ts = int((datetime.datetime(y, m, 1) - EPOCH).total_seconds()) - off + rng.choice([-1, 0, 1, 86399])
        else:
            ts = rng.range(631152000, 2000000000)
        ts = max(631152000, ts)
        out.append({"kind": "bucket_tz_" + g, "line": f"agg_buckettz {g} {ws} {ts} {tz} {off}",
                    "expect_bucket": ref_bucket(ts, off, g, ws), "show": f"PER {g} week_start={ws} tz={tz} ts={ts}"})
    return out


def is_mine(c):
    return c.get("line", "").startswith("agg_buckettz")


def same(c, impl, model):
    return impl == model


def oracle(c, impl):
    exp = c.get("expect_bucket")
    if exp is None:
        return None
    if impl != f"B {exp}":
        return f"{c['show']}: bucket start {impl}, the configured calendar gives {exp}"
    return None


def nontrivial_key(c, impl):
    return (c["kind"], c["line"].split()[4], impl) if impl and impl.startswith("B ") else None
