"""C02 — a query returns exactly the matching events, wherever they are stored."""
import concurrent.futures, datetime, json, os, re, struct, subprocess
from fractions import Fraction
import vlib, engine
from vlib import hx
from props import base

PROP = "C02"
PROPS_V = "theories/Props/C02.v"
THEOREMS = ["C02_collect_zones_sound_notfree", "C02_collect_zones_not_refuted", "C02_exact_refuted",
            "C02_known_classes_witnessed", "C02_repaired_findings_exact", "C02_mixed_provenance_gone",
            "C02_exact_outside_known", "C02_layout_independent", "C02_outside_known_example",
            "C02_layout_independent_example"]
RULE = ("engine level: generated schemas over int/u64/float/string/bool/enum/datetime/optional fields, generated event "
        "multisets (3 batches, contexts c1..c3) and generated predicates (all six operators, IN, AND/OR/NOT nesting, negative "
        "numbers, decimal literals, unknown enum variants, absent values, numeric-looking strings, FOR); every query is asked "
        "in five layouts (memory; one flushed segment; two segments + memory; after compaction; after restart; zones of 1..4 "
        "rows); a case = (history, query); function level: the real condition evaluator on single rows (in-memory event and "
        "hydrated typed zone). A case is non-trivial when its reference answer in the mixed layout is neither empty nor "
        "everything, or the implementation deviates; distinct by (field kinds, query text)")
ASSUMPTIONS = [
    "what a pruning structure answers when it is consulted is an input of the model (the real pruner's answer on the real segment directory); the theorems assume only that it is a superset of the zones holding a satisfying row (C08)",
    "one event type per history; SINCE and the core fields (timestamp, context_id, event_type) inside WHERE are not modelled",
    "float cells are spelled with a decimal point in the payload and have at most three fraction digits (Rust Display / serde_json text of a double is supplied with the case, not modelled)",
    "datetime cells are non-negative epoch seconds (negative literals are generated); a flow whose row filter panics is modelled as delivering nothing",
    "the layout of a segment (which rows are in which zone) is read back from the segment directory with the real column reader",
]
TRUSTED = [
    "Coq 8.16.1 kernel + coqc; vm_compute for closed witnesses",
    "extraction: ExtrOcamlBasic only; ocaml/p_query.ml (parsing/printing)",
    "engine harness vharn life + tools/engine.py; function probes harness/src/probes/cond.rs (cond_eval, cond_zones, cond_prune)",
    "python oracle: reference evaluation of the predicate with exact rationals (fractions.Fraction) and CPython datetime",
    "Model/Time.v (C16) for the denotation of a time literal",
]
CLAIMED = True
MANIFEST = {
    "level_text": "Theorems over Model/{Value,Expr,Sem,Cond,Prune,Layout,Known}.v (all schemas, layouts, zone sizes, event multisets): zone collection over a NOT-free filter tree returns a superset of the zones holding a satisfying row whenever every consulted leaf does (induction on the tree); the zone complement used for NOT does not (two-row zone); exactness of QUERY is refuted with one closed witness per remaining mechanism and proved for every query outside the known classes (NOT, decimal literals, IN on float fields, integer thresholds of 2^53 or more on float fields, negative thresholds on u64, u64 above i64::MAX, numeric-looking strings, string ordering, null spellings, != on optional string/enum/bool fields) over sound leaves, for every layout; hence layout independence there. After the fix round float and bool fields, != on every field kind, unknown enum variants, negative instants and mixed candidate-zone provenance are inside the exact fragment (closed regression instances C02_repaired_findings_exact). The models are run against the real engine in five layouts per query and against the real condition evaluator row by row; the pruning structures' answers are taken from the real pruners.",
    "design_ref": "DESIGN.md §6 C02",
    "level_note": "Trusted: Coq kernel; ExtrOcamlBasic extraction + ocaml/p_query.ml; the engine harness and the cond probes; CPython (oracle). Assumed, not proved here: leaf soundness of the pruning structures (C08). Not modelled: SINCE, core fields in WHERE, several event types, reads during a flush (C03), float printing/parsing."
}

STAGES = ["mem", "flush", "mixed", "compact", "restart"]
OPS = ["eq", "ne", "lt", "le", "gt", "ge"]
OPTXT = {"eq": "=", "ne": "!=", "lt": "<", "le": "<=", "gt": ">", "ge": ">="}
I64MAX, I64MIN = 2 ** 63 - 1, -2 ** 63


# ---------------------------------------------------------------- encodings
def fbits(x):
    return struct.unpack("<Q", struct.pack("<d", x))[0]


def fdisp(x):
    """Rust Display of a double (domain: |x| < 1e6, <= 3 fraction digits)."""
    r = repr(float(x))
    return r[:-2] if r.endswith(".0") else r


def fjson(x):
    return repr(float(x))


def kind_tok(f):
    k = f["kind"]
    return "e=" + "+".join(hx(v) for v in f["variants"]) if k == "e" else k


def schema_tok(schema):
    return ",".join(f"{hx(f['name'])}:{kind_tok(f)}:{1 if f['opt'] else 0}" for f in schema)


def val_tok(v):
    t = v[0]
    if t in ("i", "u", "t"):
        return f"{t}{v[1]}"
    if t == "f":
        return f"f{fbits(v[1])}~{hx(fdisp(v[1]))}"
    if t in ("s", "e"):
        return t + hx(v[1])
    if t == "b":
        return "b1" if v[1] else "b0"
    return t  # n / a


def event_tok(ev):
    return hx(ev[0]) + "/" + ";".join(val_tok(v) for v in ev[1])


def lit_tok(l):
    t = l[0]
    if t == "i":
        return f"i{l[1]}"
    if t == "f":
        return f"f{fbits(l[1])}~{hx(fjson(l[1]))}"
    if t == "s":
        return "s" + hx(l[1])
    return "b1" if l[1] else "b0"


def expr_toks(e):
    t = e[0]
    if t == "C":
        return [f"C:{hx(e[1])}:{e[2]}:{lit_tok(e[3])}"]
    if t == "I":
        return [f"I:{hx(e[1])}:" + "+".join(lit_tok(l) for l in e[2])]
    if t == "N":
        return ["N"] + expr_toks(e[1])
    return [t] + expr_toks(e[1]) + expr_toks(e[2])


def query_tok(q):
    return ",".join([hx(q["ctx"]) if q.get("ctx") else "*"] + (expr_toks(q["where"]) if q.get("where") else ["W"]))


def lit_text(l):
    if l[0] == "i":
        return str(l[1])
    if l[0] == "f":
        return fjson(l[1])
    return '"' + l[1] + '"'


def expr_text(e):
    t = e[0]
    if t == "C":
        if e[3][0] == "b":
            return e[1]
        return f"{e[1]} {OPTXT[e[2]]} {lit_text(e[3])}"
    if t == "I":
        return f"{e[1]} IN ({', '.join(lit_text(l) for l in e[2])})"
    if t == "N":
        return f"NOT ({expr_text(e[1])})"
    return f"({expr_text(e[1])} {'AND' if t == 'A' else 'OR'} {expr_text(e[2])})"


def query_text(q):
    s = "QUERY t"
    if q.get("ctx"):
        s += f' FOR "{q["ctx"]}"'
    if q.get("where"):
        s += " WHERE " + expr_text(q["where"])
    return s + " RETURN [k]"


def leaves_of(e):
    t = e[0]
    if t == "C":
        return [(e[1], e[2], e[3])]
    if t == "I":
        return [(e[1], "eq", l) for l in e[2]]
    if t == "N":
        return leaves_of(e[1])
    return leaves_of(e[1]) + leaves_of(e[2])


def leaf_key(lf):
    return f"{hx(lf[0])}:{lf[1]}:{lit_tok(lf[2])}"


# ---------------------------------------------------------------- reference semantics (oracle)
ISO_A = {"1970-01-02": 86400, "1970-01-01T00:16:40Z": 1000, "1970-01-01T01:00:00+01:00": 0}
ISO_B = {"2024-01-01T00:00:00Z": 1704067200, "2024-01-01": 1704067200, "2024-01-01T00:00:01+00:00": 1704067201,
         "2024-01-02": 1704153600}


def ref_time(s):
    """Epoch seconds of a time literal, by CPython (None = not a time)."""
    s = s.strip()
    if re.fullmatch(r"[+-]?\d{1,11}", s):
        return int(s)
    try:
        if re.fullmatch(r"\d{4}-\d{2}-\d{2}", s):
            d = datetime.datetime.strptime(s, "%Y-%m-%d").replace(tzinfo=datetime.timezone.utc)
        else:
            d = datetime.datetime.fromisoformat(s.replace("Z", "+00:00"))
            if d.tzinfo is None:
                return None
        return int((d - datetime.datetime(1970, 1, 1, tzinfo=datetime.timezone.utc)).total_seconds())
    except Exception:
        return None


def ref_wt_atom(f, op, l):
    k = f["kind"]
    if k in ("i", "u", "f"):
        return l[0] in ("i", "f")
    if k == "t":
        return l[0] in ("i", "f") or (l[0] == "s" and ref_time(l[1]) is not None)
    if k == "s":
        return l[0] == "s"
    if k == "e":
        return l[0] == "s" and op in ("eq", "ne")
    if k == "b":
        return op in ("eq", "ne") and (l[0] == "b" or (l[0] == "s" and l[1] in ("true", "false")))
    return False


def ref_well_typed(schema, e):
    byname = {f["name"]: f for f in schema}
    t = e[0]
    if t == "C":
        return e[1] in byname and ref_wt_atom(byname[e[1]], e[2], e[3])
    if t == "I":
        return e[1] in byname and len(e[2]) > 0 and all(ref_wt_atom(byname[e[1]], "eq", l) for l in e[2])
    if t == "N":
        return ref_well_typed(schema, e[1])
    return ref_well_typed(schema, e[1]) and ref_well_typed(schema, e[2])


def cmp_holds(op, a, b):
    return {"eq": a == b, "ne": a != b, "lt": a < b, "le": a <= b, "gt": a > b, "ge": a >= b}[op]


def ref_atom(f, v, op, l):
    if v[0] in ("n", "a"):
        return False
    k = f["kind"]
    if k in ("i", "u", "t", "f"):
        if l[0] in ("i", "f"):
            c = Fraction(l[1])
        elif l[0] == "s" and k == "t":
            c = Fraction(ref_time(l[1]))
        else:
            return False
        return cmp_holds(op, Fraction(v[1]), c)
    if k in ("s", "e"):
        return l[0] == "s" and cmp_holds(op, v[1].encode(), l[1].encode())
    if k == "b":
        c = l[1] if l[0] == "b" else (l[1] == "true")
        return cmp_holds(op, v[1], c)
    return False


def ref_sat(schema, e, row):
    t = e[0]
    if t == "C":
        i = [f["name"] for f in schema].index(e[1])
        return ref_atom(schema[i], row[i], e[2], e[3])
    if t == "I":
        i = [f["name"] for f in schema].index(e[1])
        return any(ref_atom(schema[i], row[i], "eq", l) for l in e[2])
    if t == "N":
        return not ref_sat(schema, e[1], row)
    if t == "A":
        return ref_sat(schema, e[1], row) and ref_sat(schema, e[2], row)
    return ref_sat(schema, e[1], row) or ref_sat(schema, e[2], row)


def ref_select(hist, q, present):
    out = []
    for i in present:
        ctx, row = hist["events"][i]
        if q.get("ctx") and ctx != q["ctx"]:
            continue
        if q.get("where") and not ref_sat(hist["schema"], q["where"], row):
            continue
        out.append(i)
    return out


def present_at(hist, stage):
    na = hist["split"][0]
    return list(range(na)) if stage in ("mem", "flush") else list(range(len(hist["events"])))


# ---------------------------------------------------------------- generators
KIND_POOL = ["i", "u", "f", "s", "b", "e", "t", "i", "s", "oi", "os", "of", "ot", "ob", "ou"]
NAMES = {"i": "a", "u": "u", "f": "f", "s": "s", "b": "b", "e": "e", "t": "d", "oi": "oi", "os": "os", "of": "of",
         "ot": "od", "ob": "ob", "ou": "ou"}
INTS = [-7, -3, -1, 0, 1, 2, 3, 5, 8, 2 ** 40, -2 ** 40, I64MAX, I64MIN]
U64S = [0, 1, 2, 3, 5, 8, 2 ** 63 - 1]
FLOATS = [-2.5, -1.25, -0.5, 0.0, 0.5, 1.5, 2.0, 2.5, 3.0, 7.75, 100.0]
STRS = ["x", "y", "zz", "abc", "Ab", "lo", "x y"]
ODD_STRS = ["12", "007", "-5", "true", "null", "", "2024-01-01", "1.5"]
# datetime cells of one history stay inside one band: the per-field calendar of a zone enumerates
# every hour bucket between the zone's minimum and maximum, so a zone spanning 1970..2024 makes
# flush and every temporal probe take seconds (a cost finding, not a correctness one)
TIMES_A = [0, 5, 1000, 2000, 86400, 90000]
TIMES_B = [1704067200, 1704067201, 1704067205, 1704070800, 1704153600]
VARIANTS = [["lo", "mid", "hi"], ["red", "green"], ["a1", "b2", "c3", "d4"]]


def gen_schema(rng):
    kinds = []
    n = rng.range(2, 4)
    while len(kinds) < n:
        k = rng.choice(KIND_POOL)
        if k not in kinds:
            kinds.append(k)
    schema = [{"name": "k", "kind": "i", "opt": False, "variants": []}]
    for k in kinds:
        opt = k.startswith("o")
        base_k = k[1:] if opt else k
        schema.append({"name": NAMES[k], "kind": base_k, "opt": opt, "variants": rng.choice(VARIANTS) if base_k == "e" else []})
    return schema


def gen_pool(rng, f):
    k = f["kind"]
    if k == "i":
        return [rng.choice(INTS[:9]) for _ in range(rng.range(2, 4))] + ([rng.choice(INTS[9:])] if rng.chance(1, 4) else [])
    if k == "u":
        return [rng.choice(U64S) for _ in range(rng.range(2, 4))] + ([rng.choice([2 ** 63, 2 ** 64 - 1])] if rng.chance(1, 8) else [])
    if k == "f":
        return [rng.choice(FLOATS) for _ in range(rng.range(2, 4))] + ([9007199254740992.0] if rng.chance(1, 10) else [])
    if k == "s":
        return [rng.choice(STRS) for _ in range(rng.range(2, 3))] + ([rng.choice(ODD_STRS)] if rng.chance(1, 3) else [])
    if k == "b":
        return [True, False]
    if k == "e":
        return list(f["variants"])
    band = TIMES_A if rng.chance(1, 2) else TIMES_B
    return [rng.choice(band) for _ in range(rng.range(2, 4))]


def gen_value(rng, f, pool):
    if f["opt"] and rng.chance(1, 4):
        return ("n",) if rng.chance(1, 2) else ("a",)
    return (f["kind"], rng.choice(pool))


def gen_lit(rng, f, pool):
    k = f["kind"]
    r = rng.below(100)
    if k in ("i", "u", "t"):
        basev = rng.choice(pool)
        if k == "t" and r < 12:
            iso = ISO_A if basev < 10 ** 6 else ISO_B
            return ("s", rng.choice(list(iso)))
        if r < 55:
            return ("i", min(I64MAX, basev))
        if r < 70:
            return ("i", max(I64MIN, min(I64MAX, basev + rng.choice([-1, 1]))))
        if r < 80:
            if k == "t":
                return ("i", rng.choice([-1, -5, basev + 3600, basev - 7] if basev > 10 ** 6 else [-1, -5, 0, 4, 99]))
            return ("i", rng.choice([-1, -5, 0, 4, 99, I64MAX, I64MIN]))
        if r < 92 and abs(basev) < 10 ** 6:
            return ("f", basev + rng.choice([0.5, -0.5, 0.0, 0.25]))
        return ("i", -rng.range(1, 3))
    if k == "f":
        basev = rng.choice(pool)
        if r < 40:
            return ("f", basev)
        if r < 60:
            return ("f", basev + rng.choice([0.25, -0.25, 0.2]))
        if r < 85:
            return ("i", int(basev) + rng.choice([0, 0, 1, -1]))
        if r < 88:
            return ("i", rng.choice([2 ** 53 + 1, -(2 ** 53) - 1, 2 ** 53, I64MAX]))
        return ("i", rng.choice([-1, 0, 2, 3]))
    if k == "s":
        if r < 55:
            return ("s", rng.choice(pool))
        if r < 80:
            return ("s", rng.choice(STRS + ["nope"]))
        return ("s", rng.choice(ODD_STRS))
    if k == "b":
        return ("s", rng.choice(["true", "false"]))
    if k == "e":
        if r < 70:
            return ("s", rng.choice(f["variants"]))
        return ("s", rng.choice(["zzz", "lo", "12", "null"]))
    return ("i", 0)


def gen_atom(rng, schema, pools, illtyped=False):
    i = rng.range(1, len(schema) - 1) if rng.chance(9, 10) else 0
    f = schema[i]
    pool = pools[i]
    if illtyped:
        # a literal of the wrong sort for the field (correspondence only, the oracle skips these)
        if f["kind"] in ("i", "u", "f", "t", "b"):
            return ("C", f["name"], rng.choice(["eq", "gt"]), ("s", rng.choice(["x", "12"])))
        if f["kind"] == "s":
            return ("C", f["name"], "eq", ("i", 12))
        return ("C", f["name"], rng.choice(["lt", "ge"]), ("s", rng.choice(f["variants"])))
    if f["kind"] == "b" and rng.chance(1, 5):
        return ("C", f["name"], "eq", ("b", True))
    if rng.chance(1, 7):
        n = rng.range(1, 3)
        return ("I", f["name"], [gen_lit(rng, f, pool) for _ in range(n)])
    if f["kind"] in ("b", "e"):
        op = rng.choice(["eq", "eq", "ne"])
    elif f["kind"] == "s":
        op = rng.choice(["eq", "eq", "eq", "ne", "lt", "ge"])
    else:
        op = rng.choice(OPS + ["eq", "gt", "le"])
    return ("C", f["name"], op, gen_lit(rng, f, pool))


def gen_expr(rng, schema, pools, depth, p_not=11):
    r = rng.below(100)
    if depth <= 0 or r < 50:
        return gen_atom(rng, schema, pools, illtyped=rng.chance(1, 25))
    if r < 50 + p_not:
        return ("N", gen_expr(rng, schema, pools, depth - 1, p_not))
    return (rng.choice(["A", "O"]), gen_expr(rng, schema, pools, depth - 1, p_not), gen_expr(rng, schema, pools, depth - 1, p_not))


def gen_history(rng, hid):
    schema = gen_schema(rng)
    pools = [None] + [gen_pool(rng, f) for f in schema[1:]]
    pools[0] = list(range(0, 20))
    n = rng.range(6, 14)
    na = rng.range(2, max(2, n - 3))
    nb = rng.range(1, max(1, n - na - 1))
    events = []
    for i in range(n):
        row = [("i", i)] + [gen_value(rng, f, pools[j + 1]) for j, f in enumerate(schema[1:])]
        events.append([rng.choice(["c1", "c1", "c2", "c3"]), row])
    cfg = {"fill_factor": 64, "event_per_zone": rng.range(1, 4), "segments_per_merge": rng.choice([2, 2, 3])}
    return {"hid": hid, "cfg": cfg, "schema": schema, "events": events, "split": [na, na + nb], "pools": pools}


def gen_queries(rng, hist, nq):
    schema, pools = hist["schema"], hist["pools"]
    qs = [{"ctx": None, "where": None}]
    if rng.chance(1, 2):
        qs.append({"ctx": rng.choice(["c1", "c2"]), "where": None})
    while len(qs) < nq:
        r = rng.below(10)
        depth = 0 if r < 4 else 1 if r < 7 else 2 if r < 9 else 3
        # half of the compound predicates are NOT-free so the exact fragment is exercised in depth
        e = gen_expr(rng, schema, pools, depth, p_not=0 if rng.chance(1, 2) else 14)
        qs.append({"ctx": rng.choice(["c1", "c2"]) if rng.chance(1, 8) else None, "where": e})
    return qs


def show_case(hist, q):
    kinds = ",".join(f"{f['name']}:{f['kind']}{'?' if f['opt'] else ''}" for f in hist["schema"])
    return f"[{kinds} z={hist['cfg']['event_per_zone']} n={len(hist['events'])}] {query_text(q)}"


def value_json(v):
    t = v[0]
    if t == "n":
        return None
    if t == "t" and v[1] in (1704067200, 1000):
        # the same instant, spelled as RFC 3339 in the payload
        return "2024-01-01T00:00:00Z" if v[1] == 1704067200 else "1970-01-01T00:16:40Z"
    return v[1]


def payload_of(hist, i):
    ctx, row = hist["events"][i]
    p = {}
    for f, v in zip(hist["schema"], row):
        if v[0] == "a":
            continue
        p[f["name"]] = value_json(v)
    return ctx, p


def define_text(schema):
    spec = {}
    for f in schema:
        k = f["kind"]
        base_t = {"i": "int", "u": "u64", "f": "float", "s": "string", "b": "bool", "t": "datetime"}.get(k)
        if k == "e":
            spec[f["name"]] = f["variants"]
        else:
            spec[f["name"]] = base_t + (" | null" if f["opt"] else "")
    return "DEFINE t FIELDS " + json.dumps(spec)


def corpus():
    return base.corpus_for(PROP)


def cases(rng, tier):
    out = []
    nh = int(os.environ.get("C02_NH", 60 if tier == "quick" else 1500))
    nq = 12
    for h in range(nh):
        hist = gen_history(rng.fork(f"h{h}"), f"h{h}")
        for qi, q in enumerate(gen_queries(rng.fork(f"q{h}"), hist, nq)):
            out.append({"kind": "engine", "hist": hist, "q": q, "show": show_case(hist, q)})
    nf = int(os.environ.get("C02_NF", 3000 if tier == "quick" else 200000))
    r2 = rng.fork("fn")
    for i in range(nf):
        hist = gen_history(r2, "f")
        q = {"ctx": "c1" if r2.chance(1, 10) else None, "where": gen_expr(r2, hist["schema"], hist["pools"], r2.choice([0, 0, 1, 1, 2, 3]))}
        ev = hist["events"][0]
        out.append({"kind": "fn", "schema": hist["schema"], "event": ev, "q": q,
                    "line": f"cond_eval {schema_tok(hist['schema'])} {event_tok(ev)} {query_tok(q)}",
                    "show": f"row {json.dumps(ev)} under {show_case(hist, q)}"})
    return out


# ---------------------------------------------------------------- running the engine
def fn_lines(lines, cfg_path):
    if not lines:
        return []
    p = subprocess.run([vlib.VHARN, "fn"], input="\n".join(lines) + "\n", capture_output=True, text=True,
                       env=dict(os.environ, SNELDB_CONFIG=cfg_path, RUST_LOG="off"), timeout=300)
    out = p.stdout.split("\n")
    if out and out[-1] == "":
        out.pop()
    return out + ["ABORT"] * (len(lines) - len(out))


def run_history(hist, queries):
    """Runs one history on the real engine; returns per stage: layout token, answers token, per query ks."""
    res = {"stages": [], "notes": []}
    eng = engine.Engine(**hist["cfg"])
    try:
        eng.start()
        r = eng.cmd(define_text(hist["schema"]))
        if '"status":200' not in r.get("out", ""):
            res["notes"].append(f"DEFINE failed: {r}")
            return res
        uid = eng.cmd("!uid t").get("uid")
        base_dir = os.path.join(eng.root, "cols", "shard-0")
        na, nab = hist["split"]
        n = len(hist["events"])
        mem = []

        def store(lo, hi):
            for i in range(lo, hi):
                ctx, p = payload_of(hist, i)
                r = eng.cmd(f"STORE t FOR {ctx} PAYLOAD " + json.dumps(p))
                if '"status":200' not in r.get("out", ""):
                    res["notes"].append(f"STORE {i} rejected: {str(r)[:200]}")
                else:
                    mem.append(i)

        def flush():
            eng.cmd("FLUSH")
            eng.cmd("!flushwait")
            eng.cmd("!wal_drained 3000")
            eng.cmd("!sleep 5")
            mem.clear()

        def observe(name):
            st = {"name": name, "ks": []}
            for q in queries:
                r = eng.rows(query_text(q))
                if r["status"] == 200 and not r.get("error"):
                    try:
                        st["ks"].append(sorted(int(x["k"]) for x in r["rows"]))
                    except Exception:
                        st["ks"].append(f"BADROWS {str(r['rows'])[:120]}")
                else:
                    st["ks"].append(f"ERR status={r['status']} error={r.get('error')} msg={str(r.get('message'))[:80]}")
            segs = sorted(d for d in os.listdir(base_dir) if d.isdigit()) if os.path.isdir(base_dir) else []
            lines = []
            if segs:
                # a numeric directory without zone metadata of the type holds no rows of it (e.g. the
                # emptied directory of a segment that compaction is about to reclaim)
                zl0 = fn_lines([f"cond_zones {hx(base_dir)} {uid} {','.join(segs)}"], eng.cfg_path)[0]
                empty = [p.split(":", 1)[0] for p in zl0.split("|") if p.endswith(":NOZONES")]
                if empty:
                    st["empty_dirs"] = empty
                segs = [g for g in segs if g not in empty]
            if segs:
                lines.append(f"cond_zones {hx(base_dir)} {uid} {','.join(segs)}")
            leafset = []
            for q in queries:
                for lf in (leaves_of(q["where"]) if q.get("where") else []):
                    if lf not in leafset:
                        leafset.append(lf)
            for si, seg in enumerate(segs):
                for lf in leafset:
                    lines.append(f"cond_prune {hx(base_dir)} {uid} {seg} {hx(lf[0])} {lf[1]} {lit_tok(lf[2])}")
            out = fn_lines(lines, eng.cfg_path)
            lay = "M:" + ".".join(str(i) for i in mem)
            if segs:
                zl = out[0]
                for part in zl.split("|"):
                    seg, zs = part.split(":", 1)
                    lay += "/S:" + zs
            ans = []
            pos = 1
            for si, seg in enumerate(segs):
                for lf in leafset:
                    ans.append(f"{si}:{leaf_key(lf)}={out[pos]}")
                    pos += 1
            st["layout"] = lay
            st["answers"] = ",".join(ans) if ans else "-"
            st["segs"] = segs
            res["stages"].append(st)

        store(0, na)
        observe("mem")
        flush()
        observe("flush")
        store(na, nab)
        flush()
        store(nab, n)
        observe("mixed")
        flush()
        res["compact"] = eng.cmd("!compact 0")
        eng.cmd("!sleep 30")
        observe("compact")
        eng.restart(clean=True)
        observe("restart")
    except engine.Crashed as ex:
        res["notes"].append(f"engine crashed: {ex}")
    except Exception as ex:  # harness trouble is reported, not hidden
        res["notes"].append(f"harness exception: {type(ex).__name__}: {ex}")
    finally:
        eng.destroy()
    return res


def stage_events_tok(hist, stage, ev_tok):
    """What the segments of a stage HOLD, as far as the model's row data goes.  A flush writes no column block for
    a field that is absent from every row of a zone (Model/Cond.v: hollow).  Compaction reads its input rows back
    through ZoneCursor, which gives every schema field of such a zone an explicit Null (zone_cursor.rs: `v.get(idx)
    .cloned().unwrap_or(ScalarValue::Null)`), and writes them out again: in the zones of a compaction output
    (segment id >= 10000) a cell that was absent in a whole zone is a stored null from then on, and the zone has a
    block for the field.  The model is given those rows; the reference oracle does not care (null and absent both
    fail every comparison)."""
    segs = stage.get("segs") or []
    parts = stage["layout"].split("/")[1:]
    if not any(g.isdigit() and int(g) >= 10000 for g in segs) or len(parts) != len(segs):
        return ev_tok
    events = [[e[0], [list(v) for v in e[1]]] for e in hist["events"]]
    changed = False
    for seg, part in zip(segs, parts):
        if not (seg.isdigit() and int(seg) >= 10000) or not part.startswith("S:"):
            continue
        for z in part[2:].split(";"):
            if "=" not in z:
                continue
            rows = [int(x) for x in z.split("=", 1)[1].split(".") if x != ""]
            for fi, f in enumerate(hist["schema"]):
                if f.get("opt") and rows and all(events[r][1][fi][0] == "a" for r in rows):
                    for r in rows:
                        events[r][1][fi] = ["n"]
                    changed = True
    return ",".join(event_tok(e) for e in events) if changed else ev_tok


def hist_key(h):
    return json.dumps([h["cfg"], h["schema"], h["events"], h["split"]], sort_keys=True)


def run_sides(cases_, model_ok):
    impl = [None] * len(cases_)
    model = [None] * len(cases_)
    # ---- engine-level: group the cases by history
    groups = {}
    for n, c in enumerate(cases_):
        if c.get("kind") != "fn":
            groups.setdefault(hist_key(c["hist"]), []).append(n)
    def work(idx):
        hist = cases_[idx[0]]["hist"]
        return idx, run_history(hist, [cases_[n]["q"] for n in idx])
    mlines, mwhere = [], []
    with concurrent.futures.ThreadPoolExecutor(max_workers=int(os.environ.get("C02_WORKERS", "8"))) as ex:
        for idx, res in ex.map(work, list(groups.values())):
            hist = cases_[idx[0]]["hist"]
            st_tok = schema_tok(hist["schema"])
            ev_tok = ",".join(event_tok(e) for e in hist["events"])
            for j, n in enumerate(idx):
                q = cases_[n]["q"]
                impl[n] = {"notes": res["notes"], "stages": [{"name": s["name"], "ks": s["ks"][j], "layout": s["layout"], "segs": s["segs"],
                                                             "answers": ",".join(a for a in s["answers"].split(",") if any(":" + leaf_key(lf) + "=" in a for lf in (leaves_of(q["where"]) if q.get("where") else [])))}
                                                            for s in res["stages"]]}
                model[n] = {"stages": [], "class": None}
                for s in res["stages"]:
                    mlines.append(f"query_run {st_tok} {stage_events_tok(hist, s, ev_tok)} {s['layout']} {query_tok(q)} {s['answers']}")
                    mwhere.append((n, "stage"))
                mlines.append(f"query_class {st_tok} {ev_tok} {query_tok(q)}")
                mwhere.append((n, "class"))
    # ---- function-level
    fn_idx = [n for n, c in enumerate(cases_) if c.get("kind") == "fn"]
    if fn_idx:
        out = vlib.run_lines(vlib.VHARN, ["fn"], [cases_[n]["line"] for n in fn_idx], timeout=900,
                             env={"RUST_LOG": "off"})
        for n, o in zip(fn_idx, out):
            impl[n] = o
            c = cases_[n]
            model[n] = {"eval": None, "class": None}
            mlines.append("query_eval" + c["line"][len("cond_eval"):])
            mwhere.append((n, "eval"))
            mlines.append(f"query_class {schema_tok(c['schema'])} {event_tok(c['event'])} {query_tok(c['q'])}")
            mwhere.append((n, "class"))
    if model_ok:
        mout = vlib.run_lines(vlib.MODEL_RUN, [], mlines, timeout=900)
        for (n, what), o in zip(mwhere, mout):
            if what == "stage":
                model[n]["stages"].append(o)
            elif what == "class":
                model[n]["class"] = None if o == "-" else o
            else:
                model[n]["eval"] = o
    else:
        model = [None] * len(cases_)
    return impl, model


def parse_r(s):
    if not isinstance(s, str) or not s.startswith("R"):
        return s
    body = s[1:].split(" M")[0].strip()
    return [int(x) for x in body.split(".")] if body else []


def diffs(c, impl, model):
    if model is None:
        return []
    if c.get("kind") == "fn":
        a, b = str(impl).split(), str(model["eval"]).split()
        return [] if a[2:] == b[2:] and len(a) == 4 else [f"row filter: implementation mem/seg = {a[2:]}, model = {b[2:]}"]
    out = []
    if impl.get("notes"):
        out.append("harness: " + "; ".join(impl["notes"]))
    if len(impl["stages"]) != len(STAGES):
        out.append(f"only {len(impl['stages'])} of {len(STAGES)} layouts were observed")
    for s, m in zip(impl["stages"], model["stages"]):
        pm = parse_r(m)
        if s["ks"] != pm:
            out.append(f"{s['name']}: implementation returned {s['ks']}, model predicts {pm} (layout {s['layout']})")
    return out


def same(c, impl, model):
    return not diffs(c, impl, model)


def oracle(c, impl):
    """Direct property oracle: reference evaluation of the predicate on the stored typed values, in every layout."""
    q = c["q"]
    if c.get("kind") == "fn":
        if q.get("where") and not ref_well_typed(c["schema"], q["where"]):
            return None
        ctx, row = c["event"]
        exp = (not q.get("ctx") or ctx == q["ctx"]) and (not q.get("where") or ref_sat(c["schema"], q["where"], row))
        p = str(impl).split()
        if len(p) != 4:
            return f"probe failed: {impl}"
        want = "1" if exp else "0"
        bad = [n for n, got in (("in memory", p[2]), ("in a hydrated zone", p[3])) if got != want]
        if bad:
            return f"row filter {' and '.join(bad)} answers {p[2]}/{p[3]} (mem/zone), the predicate is {want} on the row"
        return None
    hist = c["hist"]
    if q.get("where") and not ref_well_typed(hist["schema"], q["where"]):
        return None
    if impl.get("notes") and not impl["stages"]:
        return None
    for s in impl["stages"]:
        exp = ref_select(hist, q, present_at(hist, s["name"]))
        if s["ks"] != exp:
            got = s["ks"]
            if isinstance(got, list):
                miss = sorted(set(exp) - set(got))
                extra = sorted(set(got) - set(exp)) + [k for k in set(got) if got.count(k) > 1]
                return f"layout {s['name']}: returned k={got}, matching events k={exp} (skipped {miss}, wrongly returned {extra})"
            return f"layout {s['name']}: {got}, matching events k={exp}"
    return None


def classify(c, impl, model=None):
    # the class is computed by the extracted Known.known_class — and only trusted when the model
    # reproduces the implementation's answers on this case (otherwise the deviation is not one the
    # model explains and stays a new violation)
    if model is None or not same(c, impl, model):
        return None
    cls = model.get("class")
    if cls is None and c.get("kind") != "fn":
        # layout-dependent classes: judged on the first layout in which the answer is wrong
        hist = c["hist"]
        for s, m in zip(impl["stages"], model.get("stages", [])):
            if s["ks"] != ref_select(hist, c["q"], present_at(hist, s["name"])):
                if " M1" in str(m):
                    return "MixedZoneProvenance"
                if " U1" in str(m):
                    # a consulted structure's answer is not a superset (C08).  The one such defect
                    # that is still open: ZoneSuRF keeps integral doubles in the i64 lane and the
                    # others in the f64 lane, so a range probe on a float field misses zones.
                    byname = {f["name"]: f for f in hist["schema"]}
                    if any(lf[1] in ("lt", "le", "gt", "ge") and byname.get(lf[0], {}).get("kind") == "f"
                           for lf in leaves_of(c["q"]["where"])):
                        return "SurfFloatLanes"
                    return "UnsoundLeaf"
                return None
    return None if cls in (None, "IllTyped") else cls


def nontrivial_key(c, impl):
    q = c["q"]
    if c.get("kind") == "fn":
        return ("fn", c["line"]) if q.get("where") else None
    hist = c["hist"]
    if not impl or len(impl.get("stages", [])) < 3:
        return None
    pres = present_at(hist, "mixed")
    exp = ref_select(hist, q, pres) if not q.get("where") or ref_well_typed(hist["schema"], q["where"]) else None
    if exp is None:
        return None
    if 0 < len(exp) < len(pres) or any(s["ks"] != ref_select(hist, q, present_at(hist, s["name"])) for s in impl["stages"]):
        return (",".join(f["kind"] for f in hist["schema"]), query_text(q))
    return None
