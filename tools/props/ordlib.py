"""Shared helpers of the C10 / C09 property modules: runtime values, Rust-like parsing
and formatting done independently in Python (used by generators, oracles, classifiers)."""
import decimal, math, re, struct

I64_MIN, I64_MAX, U64_MAX = -2 ** 63, 2 ** 63 - 1, 2 ** 64 - 1


# ---- values: ('n',) ('b',bool) ('i',int) ('t',int) ('f',bits) ('s',bytes) ('x',bytes)
def hexb(b):
    return b.hex() if b else "-"


def f64_from_bits(bits):
    return struct.unpack("<d", struct.pack("<Q", bits))[0]


def bits_from_f64(f):
    return struct.unpack("<Q", struct.pack("<d", f))[0]


def rust_f64_display(bits):
    """Rust's `f64::to_string()`: shortest round-trip digits, never an exponent."""
    f = f64_from_bits(bits)
    if math.isnan(f):
        return "NaN"
    if math.isinf(f):
        return "inf" if f > 0 else "-inf"
    if f == 0:
        return "-0" if bits >> 63 else "0"
    # shortest round-trip digits; when two candidates of that length are equally close Rust
    # (Grisu with Dragon fallback) rounds the tie up in magnitude, CPython's repr to even
    d = decimal.Decimal(repr(f))
    n = len(d.as_tuple().digits)
    up = decimal.Context(prec=n, rounding=decimal.ROUND_HALF_UP).create_decimal(decimal.Decimal(f))
    if up != d and float(str(up)) == f:
        d = up
    s = format(d, "f")
    if "." in s:
        s = s.rstrip("0").rstrip(".")
    return s


def tok(v):
    t = v[0]
    if t == "n":
        return "n"
    if t == "b":
        return "b1" if v[1] else "b0"
    if t in ("i", "t"):
        return f"{t}{v[1]}"
    if t == "f":
        return f"f{v[1]:016x}.{hexb(rust_f64_display(v[1]).encode())}"
    if t in ("s", "x"):
        return t + hexb(v[1])
    raise ValueError(v)


def show(v):
    t = v[0]
    if t == "n":
        return "null"
    if t == "b":
        return "true" if v[1] else "false"
    if t == "i":
        return str(v[1])
    if t == "t":
        return f"ts:{v[1]}"
    if t == "f":
        return f"{rust_f64_display(v[1])}f"
    if t == "s":
        return repr(v[1].decode("utf-8", "replace"))
    return "bin:" + v[1].hex()


# ---- Rust's str::parse, independently of the Coq model
INT_RE = re.compile(rb"[+-]?[0-9]+\Z")
FLOAT_RE = re.compile(rb"[+-]?(?:(?:[0-9]+\.?[0-9]*|\.[0-9]+)(?:[eE][+-]?[0-9]+)?|(?i:inf|infinity|nan))\Z")


def parse_i64(s):
    if not INT_RE.match(s):
        return None
    z = int(s)
    return z if I64_MIN <= z <= I64_MAX else None


def parse_u64(s):
    if not INT_RE.match(s) or s[:1] == b"-":
        return None
    z = int(s)
    return z if 0 <= z <= U64_MAX else None


def parse_f64(s):
    if not FLOAT_RE.match(s):
        return None
    try:
        return float(s.decode("ascii"))
    except (ValueError, OverflowError):
        return None


def as_bool_str(s):
    l = s.lower() if all(c < 128 for c in s) else bytes(c + 32 if 65 <= c <= 90 else c for c in s)
    if l in (b"true", b"1"):
        return True
    if l in (b"false", b"0"):
        return False
    return None


def plain_string(s):
    return parse_u64(s) is None and parse_i64(s) is None and parse_f64(s) is None and as_bool_str(s) is None


# ---- column kinds (mirror of Model/Order.v in_kind / classify_column)
def in_kind(k, v):
    t = v[0]
    if t == "n":
        return True
    if k == "KInt":
        return t in ("i", "t")
    if k == "KU64":
        return (t in ("i", "t") and v[1] >= 0) or (t == "s" and (parse_u64(v[1]) or 0) > I64_MAX)
    if k == "KFloat":
        return t == "f" and not math.isnan(f64_from_bits(v[1]))
    if k == "KNum":
        return (t == "f" and not math.isnan(f64_from_bits(v[1]))) or (t in ("i", "t") and abs(v[1]) <= 2 ** 53)
    if k == "KBool":
        return t == "b"
    if k == "KStr":
        return t == "s" and plain_string(v[1])
    return False


KINDS = ["KInt", "KU64", "KFloat", "KNum", "KBool", "KStr"]


def kind_of(vs):
    for k in KINDS:
        if all(in_kind(k, v) for v in vs):
            return k
    return None


def classify_column(vs):
    if kind_of(vs) is not None:
        return None
    if all(v[0] in ("n", "s") for v in vs):
        return "NumericLookingStrings"
    if all(v[0] in ("n", "i", "t", "f") for v in vs):
        return "NumericMixed"
    return "MixedKinds"


# ---- the typed order (reference), independent of the implementation's comparator
def typed_key(v):
    """Sort key under the typed order of the value's own runtime type; None first.
    Only meaningful within columns whose non-null values share a type family."""
    t = v[0]
    if t == "n":
        return (0, 0)
    if t in ("i", "t"):
        return (1, v[1])
    if t == "f":
        f = f64_from_bits(v[1])
        return (1, 0.0 if f == 0 else f)
    if t == "b":
        return (1, int(v[1]))
    if t == "s":
        return (1, v[1])
    return (1, v[1])


def column_family(vs):
    """'int' | 'u64' | 'num' | 'bool' | 'str' | None: the schema type a column of these runtime values can have."""
    nn = [v for v in vs if v[0] != "n"]
    ts = set(v[0] for v in nn)
    if ts <= {"i", "t"}:
        return "int"
    if ts <= {"i", "t", "s"} and all(v[0] != "s" or parse_u64(v[1]) is not None for v in nn) and all(v[0] == "s" or v[1] >= 0 for v in nn) \
            and all(v[0] != "s" or parse_u64(v[1]) > I64_MAX for v in nn):
        return "u64"   # u64 column: values above i64::MAX are held as strings
    if ts <= {"i", "t", "f"}:
        return "num"
    if ts <= {"b"}:
        return "bool"
    if ts <= {"s"}:
        return "str"
    return None


def ref_key(family, v):
    """reference key of a value in a column of the given family (exact: fractions for floats)"""
    from fractions import Fraction
    t = v[0]
    if t == "n":
        # missing keys sort first; in a string column a missing key and the empty string are the same key
        return (1, b"") if family == "str" else (0, 0)
    if family in ("int", "u64"):
        return (1, v[1] if t != "s" else int(v[1]))
    if family == "num":
        if t == "f":
            f = f64_from_bits(v[1])
            if math.isinf(f):
                return (1, Fraction(10) ** 400 * (1 if f > 0 else -1))
            return (1, Fraction(f))
        return (1, Fraction(v[1]))
    if family == "bool":
        return (1, int(v[1]))
    return (1, v[1])


def cmp3(a, b):
    return "L" if a < b else "G" if a > b else "E"
