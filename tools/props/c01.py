"""C01 — applied writes survive any process crash and restart, exactly once."""
import re
from props import base, shardprop
import shardlib

PROP = "C01"
PROPS_V = "theories/Props/C01.v"
THEOREMS = ["C01_survives_unless_pruned", "C01_durable_exactly_once_outside_known", "C01_no_phantom",
            "C01_no_phantom_after_crash", "C01_never_duplicated", "C01_lockstep_no_loss",
            "C01_lockstep_wlost_in_dirs", "C01_lockstep_wlost_empty", "C01_lockstep_wlost_empty_refuted",
            "C01_lockstep_needs_wal_order_refuted", "C01_exactly_once_after_first_crash", "C01_manual_flush_refuted",
            "C01_id_drift_refuted", "C01_id_drift_short_refuted", "C01_durable_exactly_once_refuted",
            "C01_count_is_scan", "C01_count_exact_when_ids_distinct", "C01_count_two_types_exact", "C01_count_double_refuted", "C01_count_after_restart",
            "C01_count_ge_select", "C01_count_covers_durable",
            "C01_quiescent_restart_keeps_lockstep", "C01_quiescent_restart_preserves_inv", "C01_lockstep_q_no_prune",
            "C01_quiet_state_lockstep", "C01_exactly_once_across_quiescent_restarts",
            "C01_nonquiescent_restart_refuted", "C01_alloc0_outside_band_refuted"]
RULE = ("engine histories on one shard with WAL flush_each_write: STORE/FLUSH, process kills between commands and "
        "abort() injected at every hook step point (WAL write/rotation, rotation, dir creation, per-type file write, "
        "index tmp/rename, publish, passive clear, WAL delete, done), then restart and observe; non-trivial = the "
        "history reached at least one restart with events on disk; distinct by (configuration, op sequence)")
ASSUMPTIONS = ["process crash only: power loss / fsync ordering is outside the model",
               "after every command the harness waits until the WAL thread drained (the 'applied' cut of the property)",
               "one shard"]
TRUSTED = ["Coq 8.16.1 kernel + coqc", "extraction (ExtrOcamlBasic) + ocaml/p_shard.ml",
           "engine harness vharn life + tools/engine.py + tools/shardlib.py (trace -> label mapping)",
           "hooks in /repo under cfg(sneldb_verif): labelled step points, abort injection"]
CLAIMED = True
MANIFEST = {
 "level_text": "Theorems over the trace-validated shard model, for ALL label lists (stores, manual flushes, WAL writes/rotations, flush-worker stages, crashes and restarts in any order, no bound): every durable event (WAL entry written) that is not in the model's ghost list of pruned WAL entries is returned exactly once after crash+restart and after a clean restart; nothing is read that was not stored; no selection ever contains a key twice. For one lifetime without manual FLUSH (WAL thread in program order) no durable event is lost, so every durable event is read exactly once after the first crash. A kill of the quiescent process (no flush job, WAL queue drained) followed by a restart preserves the lockstep invariant (same next segment id, same WAL file id, writer's entry counter = fill level of the recovered memtable), so every durable event is read exactly once after any number of quiescent kill/restart cycles interleaved with stores and background flushes, with nothing pruned or unlinked. The unconditional property is refuted by machine-checked witnesses of the known class OpenWalFilePruned (manual FLUSH; segment/WAL id drift after a crash during rotation), COUNT is proved to be the length of the scan (after fix dc170f4 the in-memory rows are filtered by type like the segment rows; the model reads this from the regenerated flag agg_mem_filters_type) and hence equal to the selection whenever no event id occurs twice in the scan; the remaining known class CountAfterRecovery (rows in a leftover directory and in the WAL counted twice) is refuted by a witness, next to the exact value after a restart and the lower bounds that hold. The model is tied to the engine by trace validation: generated histories with abort() injected at every hook step point, every observation compared.",
 "design_ref": "DESIGN.md \u00a76 C01",
 "level_note": "Trusted: Coq kernel; hand-written model Model/Shard.v (differentially validated, not proved against the Rust); ExtrOcamlBasic extraction + ocaml/p_shard.ml; engine harness and trace-to-label mapping; hooks under cfg(sneldb_verif). Process crash only (no power loss / fsync ordering); one shard; flush_each_write. The lockstep theorems assume the WAL thread's program order (no write while a rotation is due), which label lists of the engine satisfy; without it the model loses an event (witness proved)."
}

CRASH_POINTS = ["st_wal_sent", "st_inserted", "wal_written", "wal_rotating", "wal_file_started", "st_rotated", "fw_begin", "fl_dir_created",
                "fl_type_written", "idx_tmp_written", "idx_renamed", "fl_index_entry_added", "fw_flushed", "fw_verified",
                "fw_published", "fw_passive_cleared", "walc_deleted", "fw_wal_cleaned", "fw_done"]


def corpus():
    return base.corpus_for(PROP)


def cases(rng, tier):
    out = []
    n = 40 if tier == "quick" else 1500
    for i in range(n):
        cfg = rng.choice(shardprop.CFGS)
        ntypes, nctx = rng.range(1, 2), rng.range(1, 2)
        cap = cfg["fill_factor"] * cfg["event_per_zone"]
        if i % 8 == 7:
            # kill with a partly filled memtable/WAL file, restart, cross one or two flush boundaries, kill again
            ops = [("S", rng.below(ntypes), rng.below(nctx)) for _ in range(rng.range(1, max(1, cap - 1)))]
            ops += [("R",), ("O",)]
            ops += [("S", rng.below(ntypes), rng.below(nctx)) for _ in range(rng.range(cap, 2 * cap + 1))]
            ops += [("O",), ("R",), ("O",)]
            out.append(shardprop.mk_case("partial-wal-restart", cfg, ntypes, nctx, ops))
        elif i % 2 == 0:
            pre = shardprop.gen_history(rng, rng.range(0, 2 * cap + 2), ntypes, nctx, p_flush=8, p_restart=8, p_obs=0)[:-1]
            point = CRASH_POINTS[(i // 2) % len(CRASH_POINTS)] if tier == "quick" else rng.choice(CRASH_POINTS)
            ops = pre + [("X", point, rng.range(1, 2))]
            ops += [("S", rng.below(ntypes), rng.below(nctx)) for _ in range(2 * cap + 1)] + [("O",), ("R",), ("O",)]
            out.append(shardprop.mk_case("crash@" + point, cfg, ntypes, nctx, ops))
        else:
            ops = shardprop.gen_history(rng, rng.range(5, 20), ntypes, nctx, p_flush=10, p_restart=15, p_obs=5, final_restart=True)
            kind = "kill"
            if i % 4 == 1:
                # payloads with long texts of multi-byte characters at varying byte alignments (WAL lines of several
                # hundred bytes): what is acknowledged must be in the log whatever its text looks like
                cfg = dict(cfg); cfg["notes"] = True
                kind = "kill+notes"
            out.append(shardprop.mk_case(kind, cfg, ntypes, nctx, ops))
    return out + define_fault_cases(rng.fork("define-fault"), tier)


def define_fault_cases(rng, tier):
    """Oracle-only: a DEFINE that cannot be persisted (another process holds the shared lock of schemas.bin, as a
    schema reader does), optionally retried after the lock is gone, then STOREs, kill, restart: whatever STORE was
    acknowledged is readable after the restart (an event type that exists only in memory loses its events)."""
    out = []
    for j in range(2 if tier == "quick" else 12):
        out.append({"kind": "define-fault", "cfg": dict(rng.choice(shardprop.CFGS)), "retry": j % 2 == 0, "nstores": rng.range(1, 5),
                    "ntypes": 1, "nctx": 1, "ops": [],
                    "show": f"define-fault: DEFINE under a foreign shared lock of schemas.bin, {'retry, ' if j % 2 == 0 else ''}STOREs, kill, restart, QUERY"})
    return out


def _run_define_fault(c):
    import fcntl, glob, os
    import engine
    e = engine.Engine(shards=1, **{k: v for k, v in c["cfg"].items() if k in ("fill_factor", "event_per_zone")})
    res = {"ok": False, "line": "define-fault", "obs": [], "acked": [], "steps": []}
    try:
        e.start()
        e.cmd('DEFINE pre FIELDS { k: "int" }')        # creates schemas.bin
        f = glob.glob(os.path.join(e.root, "schema", "*"))[0]
        fd = os.open(f, os.O_RDONLY)
        fcntl.flock(fd, fcntl.LOCK_SH)
        d1 = e.cmd('DEFINE pay FIELDS { k: "int" }').get("out", "")
        fcntl.flock(fd, fcntl.LOCK_UN); os.close(fd)
        res["steps"].append("define-under-lock:" + ("200" if '"status":200' in d1 else "err"))
        if c["retry"]:
            d2 = e.cmd('DEFINE pay FIELDS { k: "int" }').get("out", "")
            res["steps"].append("retry:" + ("200" if '"status":200' in d2 else "err"))
        for k in range(1, c["nstores"] + 1):
            r = e.cmd(f'STORE pay FOR c1 PAYLOAD {{"k": {k}}}').get("out", "")
            if '"status":200' in r:
                res["acked"].append(k)
        q1 = e.rows("QUERY pay")
        res["before"] = sorted(x["k"] for x in q1["rows"]) if q1["status"] == 200 else f"status {q1['status']}"
        e.cmd("!wal_drained 3000")
        e.restart()
        q2 = e.rows("QUERY pay")
        res["after"] = sorted(x["k"] for x in q2["rows"]) if q2["status"] == 200 else f"status {q2['status']} {q2.get('message')}"
        res["ok"] = True
    except Exception as ex:
        res["err"] = f"{type(ex).__name__}: {ex}"
    finally:
        e.destroy()
    return res


def run_sides(cases_, model_ok):
    sh = [c for c in cases_ if c.get("kind") != "define-fault"]
    si, sm = shardprop.run_sides(sh, model_ok) if sh else ([], [])
    it_s, it_m = iter(si), iter(sm)
    impl, model = [], []
    for c in cases_:
        if c.get("kind") == "define-fault":
            impl.append(_run_define_fault(c)); model.append(None)
        else:
            impl.append(next(it_s)); model.append(next(it_m))
    return impl, model


def same(c, impl, model):
    return True if c.get("kind") == "define-fault" else shardprop.same(c, impl, model)


def diffs(c, impl, model):
    return [] if c.get("kind") == "define-fault" else shardprop.diffs(c, impl, model)


def oracle(c, impl):
    """After any crash/restart every acknowledged+applied event is read exactly once (QUERY, REPLAY, COUNT);
    un-acknowledged ones may be present or absent, never duplicated."""
    if c.get("kind") == "define-fault":
        if not impl.get("ok"):
            return "engine harness: " + str(impl.get("err"))
        if impl["acked"] and impl.get("after") != sorted(impl["acked"]):
            return (f"STOREs {impl['acked']} of event type pay were acknowledged ({', '.join(impl['steps'])}; read before the kill: "
                    f"{impl.get('before')}), after kill + restart QUERY pay returns {impl.get('after')}")
        return None
    if impl.get("line") is None:
        return None
    for n, o in enumerate(impl["obs"]):
        acked = o["acked"]
        maybe = {k for (k, u, cc) in o["maybe"]}
        for u in range(c["ntypes"]):
            exp = sorted(k for (k, uu, cc) in acked if uu == u)
            got = [k for k in o[f"sel{u}"] if k not in maybe] if isinstance(o[f"sel{u}"], list) else o[f"sel{u}"]
            if got != exp:
                lost = sorted(set(exp) - set(got if isinstance(got, list) else []))
                return f"obs#{n} sel{u}: read {o[f'sel{u}']}, acknowledged {exp}" + (f" LOST {lost}" if lost else " DUPLICATED/EXTRA")
            extra = len([k for k in o[f"sel{u}"] if k in maybe])
            if o[f"cnt{u}"] not in (len(exp), len(exp) + extra):
                return f"obs#{n} cnt{u}: COUNT {o[f'cnt{u}']}, acknowledged {len(exp)}"
            for cc in range(c["nctx"]):
                e2 = [k for (k, uu, c2) in acked if uu == u and c2 == cc]
                g2 = [k for k in o[f"rp{u}_{cc}"] if k not in maybe]
                if sorted(g2) != sorted(e2):
                    return f"obs#{n} rp{u}_{cc}: REPLAY {o[f'rp{u}_{cc}']}, acknowledged {e2}"
    return None


def classify(c, impl, model=None):
    """Known classes are decided with the model's own account of the history: the loss is 'known' only
    when the model (whose theorems name the class) predicts exactly this read and says the WAL writer's
    open file had been pruned (wunlinked)."""
    why = oracle(c, impl) or ""
    # known only as the double count the model itself predicts (rows in a leftover directory and in the WAL);
    # a COUNT the model does not predict - e.g. in-memory rows of other types counted again - is a violation
    if " cnt" in why and model and not shardprop.diffs(c, impl, model):
        return "CountAfterRecovery"
    if "LOST" in why and model and not shardprop.diffs(c, impl, model) and re.search(r"incomplete=[0-9]", model):
        return "CrashLeftoverDirectoryBreaksReads"
    if "LOST" in why and model and not shardprop.diffs(c, impl, model):
        lost = set(int(x) for x in re.search(r"LOST \[([0-9, ]*)\]", why).group(1).split(",") if x.strip())
        ghost = set()
        for ob in model.split(" | "):
            mm = re.search(r"wlost=([0-9,]*)", ob)
            if mm:
                ghost |= set(int(x) for x in mm.group(1).split(",") if x)
        # the known triggers that break the WAL-id / segment-id lockstep: a manual FLUSH, or a crash injected
        # at a step point inside a rotation / flush. A loss in a history with neither (only kills of the
        # quiescent process) is NOT known, even if the mechanism is again a pruned open log file.
        ops = [tuple(o) for o in c["ops"]]
        if lost and lost <= ghost and any(o[0] in ("F", "X") for o in ops):
            return "OpenWalFilePruned"
    return None


def nontrivial_key(c, impl):
    if c.get("kind") == "define-fault":
        return c["show"] if impl.get("ok") and impl.get("acked") else None
    if impl.get("obs") and any(o["dirs"] for o in impl["obs"]) and ("R" in [o[0] for o in c["ops"]] or impl.get("crashed")):
        return c["show"]
    return None
