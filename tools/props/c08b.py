"""C08 part B — enum bitmaps, temporal calendar + per-zone index, xor-filter keys never rule out a zone
that holds a matching row (to be merged into C08 by the maintainer)."""
import json, os, re
from decimal import Decimal
from fractions import Fraction
import datetime
import struct
import vlib
from vlib import hx
from props import base

PROP = "C08B"
PROPS_V = "theories/Props/C08.v"
THEOREMS = [
    "C08b_enum_eq_sound", "C08b_enum_neq_sound", "C08b_enum_neq_undeclared_sound", "C08b_enum_unserved_op_all_zones",
    "C08b_enum_rows_per_zone_wrap_refuted", "C08b_enum_build_ok", "C08b_enum_sound_all_operators",
    "C08b_temporal_sound", "C08b_temporal_index_contains_every_instant", "C08b_temporal_eq_sound_any_magnitude", "C08b_temporal_neq_all_zones",
    "C08b_temporal_u32_wrap_refuted", "C08b_temporal_float_literal_refuted", "C08b_temporal_outside_known",
    "C08b_xor_key_agree", "C08b_xor_zone_sound", "C08b_xor_field_sound", "C08b_xor_non_eq_all_zones",
    "C08b_xor_presence_non_eq_all_zones", "C08b_xor_sound_all_operators", "C08b_xor_failed_construction_loses_zone",
]
RULE = ("per structure: a flush of 1..12 zones with generated per-zone value lists (enum: all variant subsets, duplicates, "
        "undeclared/missing values, later zones longer than the first; temporal: values on/around hour and day boundaries, "
        "negative, beyond 2^32, numeric strings and skipped kinds, fixed timestamp column and payload datetime field; xor: "
        "ints, strings, floats, booleans, nulls, missing keys; SIZE FAMILIES crossing the thresholds of the structures: temporal zones of "
        "65..300 distinct instants routinely and 1000..8001 a few per run (counts around multiples of 64 and powers of two, "
        "dense / sparse / runs, duplicates, = probes on every stored instant or on the rows around every fence plus absent "
        "instants, every stored instant also checked against the zone's own reloaded index), 65..4097 zones per segment, "
        "30..400-day ranges; enum zones of 63..8191 rows around byte/word edges and 2^16(+1) rows; xor zones of 1..5000 distinct values) x one probe (all six operators; literal present/absent/"
        "off-by-one/boundary, ISO string, numeric string, float, negative, > u32, > i64::MAX, undeclared variant, "
        "cross-kind literal); plus FxHasher inputs of every tail length.  A case is non-trivial when at least one zone "
        "holds a matching row; distinct by (structure, operator, literal kind, zones required, zones returned)")
ASSUMPTIONS = [
    "xorf::BinaryFuse8 is abstract in the model; the only contract assumed (a Section hypothesis of XorKeyProofs, never an Axiom) is: a filter built from key list S contains every key of S",
    "a failed BinaryFuse8 construction skips the zone (modelled; not deterministically reachable, so not exercised by the generator)",
    "Rust's f64 Display is not modelled: a float cell/literal is identified by its display string, which the Rust probe checks against f64::to_string on every float case",
    "ZoneTemporalIndex::contains_ts's binary search is modelled as membership in the key list (keys are proved strictly increasing when max - min < 2^63; zones spanning more are outside the generator)",
    "the field selector's treatment of a pruner answer (bypass for operators the index does not serve, fallback to all zones, no zones) is taken from the Rust text by the translator (also read by the oracle), not probed; IndexPlanner::choose is not modelled",
    "RoaringBitmap, bincode and the file formats are exercised by the probes (build -> file -> load -> prune) but modelled as identity",
    "enum columns hold only declared variants (guaranteed by STORE validation, property C06); undeclared values are generated for the correspondence only",
]
TRUSTED = [
    "Coq 8.16.1 kernel + coqc; vm_compute for closed witnesses; no native_compute",
    "translator tools/gen_params.py + tools/params/p31_zoneidx.py (bucket sizes and loop steps, u32 bucket-id and u16 rows_per_zone widths, stride, calendar non-negative guard, signed probe instant / clamped calendar lookup, calendar range mode per builder branch, operator gates of the three pruners, None-handling of the field selector)",
    "extraction: ExtrOcamlBasic only; ocaml/driver.ml, conv.ml, p_zoneidx.ml (parsing/printing; exact rational of a double's bit pattern for float literals)",
    "correspondence harness /verif/harness (vharn fn zidx_*) calling the real builders, loaders and pruners of /repo through temp segment directories, built with --cfg sneldb_verif",
    "python oracle: brute-force scan of the zone values against the probe with int/Fraction arithmetic; an independent FxHasher in Python for zidx_hash",
]

CLAIMED = False   # part of C08; tools/props/c08.py carries the manifest entry
MANIFEST = {
 "level_text": "C08 part B. Theorems over the executable models of the enum bitmap index, the temporal calendar + per-zone index and the xor-filter key derivation: for ALL zone counts, value lists and probes, a zone holding a matching row is scanned (enum: every operator, any literal; temporal =,>,>=,<,<= for data and probes of any sign below the u32 day-bucket wrap, != and IN always; xor: every operator, = given only the fuse-filter contract as a Section hypothesis). Where the faithful model still violates the property (u16 rows_per_zone, u32 day buckets, float literal on a datetime field) a vm_compute witness (_refuted), a narrow KnownClass and an _outside_known theorem are proved, and the witness is replayed on the real pruners. Models run against the real builders/loaders/pruners on generated flushes.",
 "design_ref": "DESIGN.md §6 C08",
 "level_note": "Trusted: Coq kernel; translator plug-in p31_zoneidx; ExtrOcamlBasic extraction + OCaml probe; Rust harness; Python brute-force oracle. BinaryFuse8 membership is an assumed contract (Section hypothesis); f64 Display not modelled; selector None-handling and strategy choice read from the text only."
}

# Until the maintainer has run tools/gen_manifest.py on the merged tree, known_findings.json does not yet contain the
# entries of known/C08B.json; read them from there (same content, same format).
_orig_load_known = vlib.load_known


def _load_known(prop):
    ks = _orig_load_known(prop)
    if prop == PROP and not ks:
        p = os.path.join(vlib.VERIF, "known", f"{PROP}.json")
        if os.path.exists(p):
            ks = [k for k in json.load(open(p)) if k.get("property") == prop]
    return ks


vlib.load_known = _load_known

M64 = (1 << 64) - 1
U32 = 1 << 32
OPS = ["eq", "neq", "gt", "gte", "lt", "lte"]


def corpus():
    return base.corpus_for(PROP)


# ------------------------------------------------------------------ reference FxHasher (rustc-hash 1.1, 64-bit)
def fx_hash_str(b):
    K = 0x517cc1b727220a95
    h = 0

    def add(h, i):
        h = ((h << 5) | (h >> 59)) & M64
        return ((h ^ i) * K) & M64
    i = 0
    while len(b) - i >= 8:
        h = add(h, int.from_bytes(b[i:i + 8], "little")); i += 8
    if len(b) - i >= 4:
        h = add(h, int.from_bytes(b[i:i + 4], "little")); i += 4
    if len(b) - i >= 2:
        h = add(h, int.from_bytes(b[i:i + 2], "little")); i += 2
    if len(b) - i >= 1:
        h = add(h, b[i])
    return add(h, 0xff)


def rust_f64_display(x):
    if x != x:
        return "NaN"
    if x in (float("inf"), float("-inf")):
        return "inf" if x > 0 else "-inf"
    s = format(Decimal(repr(x)), "f")
    if "." in s:
        s = s.rstrip("0").rstrip(".")
    return s


def f64_bits(x):
    return struct.unpack("<Q", struct.pack("<d", x))[0]


def cmp_holds(op, a, b):
    return {"eq": a == b, "neq": a != b, "gt": a > b, "gte": a >= b, "lt": a < b, "lte": a <= b, "in": a == b}[op]


# ------------------------------------------------------------------ generators
def gen_enum(rng, out, n):
    pool = ["a", "b", "c", "pro", "free", "ab", "é", "trial", "A"]
    for _ in range(n):
        nv = rng.range(1, 5)
        vs = []
        while len(vs) < nv:
            v = rng.choice(pool)
            if v not in vs or rng.chance(1, 25):
                vs.append(v)
        nz = rng.choice([1, 2, 2, 3, 3, 4, 6, 12])
        first = rng.choice([1, 2, 3, 4, 7, 8, 9, 12, 16, 17])
        zones = []
        undeclared_data = rng.chance(1, 12)
        for z in range(nz):
            ln = first if z < nz - 1 or rng.chance(1, 2) else rng.range(1, first)
            if z > 0 and rng.chance(1, 40):
                ln = first + rng.range(1, 9)          # a later zone longer than the first one
            sub = [v for v in vs if rng.chance(1, 2)] or [rng.choice(vs)]
            if rng.chance(1, 6):
                sub = [rng.choice(vs)]
            vals = []
            for _r in range(ln):
                if undeclared_data and rng.chance(1, 4):
                    vals.append(rng.choice(["zzz", "", None, "aa"]))
                else:
                    vals.append(rng.choice(sub))
            zid = z if not rng.chance(1, 60) else rng.range(0, 3)
            zones.append((zid, vals))
        r = rng.below(20)
        op = "eq" if r < 8 else "neq" if r < 16 else rng.choice(["gt", "gte", "lt", "lte"])
        r = rng.below(20)
        if r < 14:
            lit = ("s", rng.choice(vs))
        elif r < 19:
            lit = ("s", rng.choice(["zzz", "", "aa", "B"]))
        else:
            lit = ("i", 5)
        add_enum(out, vs, zones, op, lit)


def add_enum(out, vs, zones, op, lit, kind=None):
    zs = ";".join(f"{z}:" + ",".join("~" if v is None else "s" + hx(v) for v in vals) for z, vals in zones)
    ls = "s" + hx(lit[1]) if lit[0] == "s" else f"i{lit[1]}"
    line = f"zidx_enum {','.join(hx(v) for v in vs)} {zs} {op} {ls}"
    declared = lit[0] == "s" and lit[1] in vs
    k = kind or ("enum_" + op + ("" if declared else "_undeclared" if lit[0] == "s" else "_nonstring"))
    out.append({"kind": k, "line": line, "st": "enum", "variants": vs, "zones": [[z, v] for z, v in zones], "op": op,
                "lit": list(lit), "show": f"enum variants={vs} zones={zones} probe: k {op} {lit[1]!r}"})


def iso_of(t, rng):
    d = datetime.datetime(1970, 1, 1) + datetime.timedelta(seconds=t)
    s = d.strftime("%Y-%m-%dT%H:%M:%S")
    return s + rng.choice(["Z", "+00:00"])


def gen_temporal(rng, out, n):
    for _ in range(n):
        r = rng.below(40)
        if r < 6:
            t0 = rng.range(0, 200000)
        elif r < 18:
            t0 = rng.range(1600000000, 1800000000)
        elif r < 24:
            t0 = rng.range(1, 60000) * 3600 * rng.choice([1, 24]) + rng.choice([-1, 0, 0, 1])
        elif r < 28:
            t0 = U32 + rng.range(-3 * 86400, 3 * 86400)
        elif r < 30:
            t0 = rng.range(U32, 10 ** 11 - 10 ** 7)
        elif r < 34:
            t0 = -rng.choice([rng.range(0, 200000), rng.range(0, 200000), rng.range(10 ** 8, 2 * 10 ** 9)])
        else:
            t0 = rng.range(0, 5 * 10 ** 9)
        col = "ts" if (t0 > 10 ** 6 and rng.chance(1, 4)) else "f"
        nz = rng.choice([1, 2, 2, 3, 3, 4, 5, 12])
        zones = []
        cur = t0
        allv = []
        for z in range(nz):
            k = rng.range(1, 6)
            span = rng.choice([0, 1, 59, 3599, 3600, 3601, 7200, 86399, 86400, 86401, 90000, 3 * 86400, 20 * 86400])
            vals = []
            for _i in range(k):
                v = cur + (rng.range(0, span) if span else 0)
                if rng.chance(1, 10):
                    v = v - v % rng.choice([3600, 86400]) + rng.choice([0, 0, -1, 3599, 86399])
                vals.append(v)
            if rng.chance(1, 3):
                vals.append(cur + span)
            if rng.chance(1, 30) and col == "f" and max(vals) < 10 ** 6:
                # a pre-1970 value next to post-1970 ones (the zone is then filed from bucket 0 on: one hour
                # bucket per hour up to its maximum, so only near the epoch)
                vals.append(-rng.range(1, 100000))
            cur += rng.choice([0, 1, 3600, 86400, span + 1, span + rng.range(0, 2 * 86400)])
            cells = []
            for v in vals:
                if col == "ts":
                    v = max(0, v)
                    cells.append(("i", v))
                else:
                    q = rng.below(30)
                    if q == 0:
                        cells.append(("s", str(v)))
                    elif q == 1:
                        cells.append(rng.choice([("n",), ("~",), ("b", 1), ("fl", float(v) + 0.5), ("s", "abc")]))
                        cells.append(("i", v))
                    else:
                        cells.append(("i", v))
            zid = z if not rng.chance(1, 80) else rng.range(0, 2)
            zones.append((zid, cells))
            allv += [c[1] for c in cells if c[0] == "i"]
        op = rng.choice(OPS)
        basev = rng.choice(allv) if allv else t0
        r = rng.below(40)
        if r < 14:
            v = basev
        elif r < 22:
            v = basev + rng.choice([-1, 1, -3600, 3600, -86400, 86400])
        elif r < 27:
            g = rng.choice([3600, 86400])
            v = basev - basev % g + rng.choice([0, -1, g, g - 1])
        elif r < 30:
            v = -rng.range(1, 10 ** 6)
        elif r < 33:
            v = rng.choice([U32 - 1, U32, U32 + 86400, 4294944000, 4295030400, 4295030399, 10 ** 10, 2 ** 62])
        elif r < 35:
            v = 0
        else:
            v = rng.range(min(allv + [0]) - 100000, max(allv + [0]) + 100000) if allv else 0
        r = rng.below(30)
        if r < 18:
            lit = ("i", v)
        elif r < 20:
            lit = ("t", v)
        elif r < 23 and -62135596800 < v < 253402300799:
            lit = ("s", iso_of(v, rng), v)
        elif r < 25:
            lit = ("s", str(v), v if len(str(abs(v))) <= 11 else None)
        elif r < 26:
            u = rng.choice([2 ** 63, 2 ** 64 - 1, 10 ** 19, 2 ** 63 + 12345])
            lit = ("s", str(u), None)     # 19 digits: nanoseconds for TimeParser; 20 digits: not a time literal
        elif r < 28:
            lit = ("fl", float(v) + rng.choice([0.0, 0.5, -0.25]))
        elif r < 29:
            lit = rng.choice([("b", 1), ("n",), ("s", "yesterday", None)])
        else:
            lit = ("i", v)
        add_temporal(out, col, zones, op, lit)


def cell_tok(c):
    k = c[0]
    if k in ("i", "t"):
        return f"{k}{c[1]}"
    if k == "s":
        return "s" + hx(c[1])
    if k == "fl":
        return f"f{f64_bits(c[1])}/{hx(rust_f64_display(c[1]))}"
    if k == "b":
        return f"b{c[1]}"
    if k == "n":
        return "n"
    return "~"


def add_temporal(out, col, zones, op, lit, kind=None):
    zs = ";".join(f"{z}:" + ",".join(cell_tok(c) for c in cells) for z, cells in zones)
    line = f"zidx_temp {col} {zs} {op} {cell_tok(lit)}"
    # meaning of the literal as an exact rational (None: no numeric meaning)
    if lit[0] in ("i", "t"):
        lv = [lit[1], 1]
    elif lit[0] == "s":
        lv = [lit[2], 1] if len(lit) > 2 and lit[2] is not None else None
    elif lit[0] == "fl":
        fr = Fraction(lit[1])
        lv = [fr.numerator, fr.denominator]
    else:
        lv = None
    # meaning of the rows: integers and integer strings; other kinds hold no instant
    zv = []
    for z, cells in zones:
        vals = []
        for c in cells:
            if c[0] in ("i", "t"):
                vals.append(c[1])
            elif c[0] == "s":
                try:
                    vals.append(int(c[1]))
                except ValueError:
                    pass
        zv.append([z, vals])
    k = kind or f"temp_{col}_{op}_{lit[0]}"
    out.append({"kind": k, "line": line, "st": "temp", "zones": zv, "op": op, "lv": lv, "litkind": lit[0],
                "show": f"temporal {col} zones={zv} probe: {op} {lit[1] if len(lit) > 1 else lit[0]!r}"})


def gen_xor(rng, out, n):
    spool = ["a", "b", "5", "-3", "true", "", "é", "1.5", "2", "abcdefgh", "abcdefghi", "null"]
    fpool = [2.0, 1.5, -0.0, 0.1, 1e21, 1e-7, 123456.789, 3.0, -7.25]

    def rnd_cell(kind):
        if kind == "i":
            return ("i", rng.choice([0, 1, 2, 5, -3, 42, 10 ** 12, -2 ** 63, 2 ** 63 - 1, rng.range(-50, 50)]))
        if kind == "s":
            return ("s", rng.choice(spool))
        if kind == "fl":
            return ("fl", rng.choice(fpool))
        if kind == "b":
            return ("b", rng.below(2))
        if kind == "t":
            return ("t", rng.range(0, 100))
        return (kind,)
    for _ in range(n):
        nz = rng.choice([1, 2, 3, 3, 4, 5, 12])
        colkind = rng.choice(["i", "i", "s", "s", "fl", "b", "mixed"])
        zones = []
        for z in range(nz):
            k = rng.range(1, 6)
            cells = []
            for _i in range(k):
                q = rng.below(12)
                if q == 0:
                    cells.append(("n",))
                elif q == 1:
                    cells.append(("~",))
                else:
                    cells.append(rnd_cell(colkind if colkind != "mixed" else rng.choice(["i", "s", "fl", "b", "t"])))
            if rng.chance(1, 15):
                cells = [rng.choice([("n",), ("~",)]) for _i in range(k)]
            zones.append((z, cells))
        flat = [c for _, cs in zones for c in cs if c[0] not in ("n", "~")]
        r = rng.below(20)
        if r < 11 and flat:
            lit = rng.choice(flat)
        elif r < 14 and flat:
            c = rng.choice(flat)   # the same canonical string through another kind
            if c[0] == "i":
                lit = ("s", str(c[1]))
            elif c[0] == "fl":
                lit = ("s", rust_f64_display(c[1]))
            elif c[0] == "b":
                lit = ("s", "true" if c[1] else "false")
            else:
                lit = c
        elif r < 19:
            lit = rnd_cell(colkind if colkind != "mixed" else rng.choice(["i", "s", "fl", "b"]))
        else:
            lit = ("n",)
        r = rng.below(20)
        op = "eq" if r < 14 else "neq" if r < 18 else rng.choice(["gt", "lte"])
        add_xor(out, zones, op, lit)


def add_xor(out, zones, op, lit, kind=None):
    zs = ";".join(f"{z}:" + ",".join(cell_tok(c) for c in cells) for z, cells in zones)
    line = f"zidx_xor {zs} {op} {cell_tok(lit)}"
    k = kind or f"xor_{op}_{lit[0]}"
    out.append({"kind": k, "line": line, "st": "xor", "zones": [[z, [list(c) for c in cs]] for z, cs in zones], "op": op,
                "lit": list(lit), "show": f"xor zones={zones} probe: v {op} {lit!r}"})


def gen_hash(rng, out, n):
    alphabet = "abcxyz019-_ é€𝄞"
    for i in range(n):
        ln = i % 20 if i < 40 else rng.range(0, 48)
        s = "".join(rng.choice(alphabet) for _ in range(ln))
        out.append({"kind": "hash", "line": f"zidx_hash {hx(s)}", "st": "hash", "s": s, "show": f"stable_hash64({s!r})"})


# ------------------------------------------------------------------ size families
# Every structure of this part has size thresholds the small generators above never reach:
#   ZoneTemporalIndex: 64 fences over the sorted distinct instants (a zone with > 64 instants has more than one row
#     per fence), keys as offsets from the minimum;
#   calendar: one hour bucket per hour and one day bucket per day of the zone's range, RoaringBitmap per bucket
#     (array container up to 4096 zone ids, bitmap container above);
#   enum bitmaps: packed bytes (8 rows), machine words (64 rows), rows_per_zone as u16;
#   BinaryFuse8: segment length / segment count tables indexed by the number of keys (tiny sets are special).
# Each family below crosses one of them.  Big zones are written in ascending order: the model's sort-dedup is an
# insertion that is linear on ascending input, so the model stays cheap.

FENCES = 64


def sized_instants(rng, n, shape, base):
    """n DISTINCT instants (ascending) of the given shape."""
    out, t = [], base
    for i in range(n):
        out.append(t)
        if shape == "dense":
            t += 1
        elif shape == "sparse":
            t += rng.range(1, 600)
        else:   # runs: dense stretches separated by jumps
            t += 1 if rng.below(8) else rng.range(2, 4000)
    return out


def fence_rows(n):
    """row indexes around every fence, for both the fractional placement (build_fences: floor(k*n/64)) and the
    integer window width (n // 64) a reader of the fences is tempted to use"""
    idx = set([0, 1, n - 2, n - 1])
    if n > FENCES:
        w = n // FENCES
        for k in range(FENCES + 2):
            for b in (k * n // FENCES, k * w, (k + 1) * w - 1):
                for d in (-1, 0, 1):
                    if 0 <= b + d < n:
                        idx.add(b + d)
    return sorted(idx)


def gen_temporal_sized(rng, out, tier):
    q = tier == "quick"
    routine = [65, 66, 100, 127, 128, 129, 191, 192, 193, 200, 255, 256, 257, 299, 300]
    sizes = routine + [rng.range(65, 300) for _ in range(25 if q else 400)]
    big_all = [1000, 1023, 1024, 1025, 2047, 2049, 4095, 4097, 5000, 7999, 8000, 8001]
    big = [rng.choice(big_all) for _ in range(4)] if q else big_all * 5
    for n in sizes + big:
        shape = rng.choice(["dense", "sparse", "runs"])
        r = rng.below(10)
        base = rng.range(1600000000, 1800000000) if r < 6 else rng.range(0, 100000) if r < 8 else -rng.range(1, 200000) \
            if n <= 300 else rng.range(1600000000, 1800000000)
        if n > 300 and shape != "dense":
            shape = "runs" if rng.below(2) else "sparse"
        col = "ts" if base > 0 and rng.chance(1, 3) else "f"
        inst = sized_instants(rng, n, shape, base)
        rows = []
        for t in inst:                       # duplicates stay adjacent (ascending order kept)
            rows += [t] * (2 if rng.chance(1, 5) else 1)
        if n <= 300 and rng.chance(1, 2):    # small enough for the quadratic insertion: any order
            rows = sorted(rows, key=lambda _t: rng.next())
        zones = [(0, [("i", t) for t in rows])]
        if rng.chance(1, 2):                 # a second, small zone inside the same range
            k = rng.range(1, 5)
            zones.append((1, [("i", rng.choice(inst) + rng.choice([0, 0, 1])) for _ in range(k)]))
        stored = set(inst)
        if n <= 300:
            probes = list(inst)
        else:
            probes = [inst[i] for i in fence_rows(n)] + [rng.choice(inst) for _ in range(40)]
        absent = [t + d for t in rng_sample(rng, inst, 30) for d in (-1, 1) if t + d not in stored]
        absent += [inst[0] - 1, inst[0] - 3600, inst[-1] + 1, inst[-1] + 86400]
        lits = probes + absent
        add_temporal_multi(out, col, zones, lits, kind=f"temp_sized_{'le300' if n <= 300 else 'big'}_{shape}")
    # many zones: Roaring containers per bucket, slab directory of the per-zone indexes
    for nz in ([65, 130, 257] if q else [65, 130, 257, 300, 1000, 4097]):
        base = rng.range(1600000000, 1800000000)
        zones = [(z, [("i", base + 7 * z + j) for j in range(rng.range(1, 2))]) for z in range(nz)]
        lits = [base + 7 * z for z in (0, 1, nz // 2, nz - 2, nz - 1)] + [base - 1, base + 7 * nz + 5]
        add_temporal_multi(out, "f", zones, lits, kind="temp_many_zones")
    # wide ranges: many hour / day buckets for one zone
    for days in ([30, 90] if q else [30, 90, 200, 400]):     # the model's bucket map is a sorted list: quadratic in the bucket count
        base = rng.range(1500000000, 1600000000)
        zones = [(0, [("i", base), ("i", base + days * 86400 + 3599)]), (1, [("i", base + 86400 * (days // 2))])]
        lits = [base, base + days * 86400 + 3599, base + 86400 * (days // 2), base + 5]
        add_temporal_multi(out, "f", zones, lits, kind="temp_wide_range")


def rng_sample(rng, xs, k):
    return [rng.choice(xs) for _ in range(min(k, len(xs)))]


def add_temporal_multi(out, col, zones, lits, kind):
    zs = ";".join(f"{z}:" + ",".join(cell_tok(c) for c in cells) for z, cells in zones)
    line = f"zidx_temp {col} {zs} eq " + ",".join(f"i{v}" for v in lits)
    zv = [[z, [c[1] for c in cells]] for z, cells in zones]
    nrows = sum(len(v) for _, v in zv)
    out.append({"kind": kind, "line": line, "st": "tempm", "zones": zv, "op": "eq", "lits": list(lits),
                "show": f"temporal {col}: {len(zv)} zones, {nrows} rows (first zone {len(set(zv[0][1]))} distinct instants "
                        f"{zv[0][1][0]}..), = probes on {len(lits)} instants"})


def gen_enum_sized(rng, out, tier):
    q = tier == "quick"
    sizes = [63, 64, 65, 127, 128, 129, 255, 256, 257, 1000] + ([] if q else [511, 513, 2048, 4097, 8191])
    for first in sizes:
        vs = ["a", "b", "c"][:rng.range(2, 3)]
        nz = rng.range(1, 3)
        zones = []
        for z in range(nz):
            ln = first if z == 0 or rng.chance(1, 2) else rng.range(1, first)
            mode = rng.below(3)
            if mode == 0:      # one variant only, the other bitsets stay empty
                vals = [vs[0]] * ln
            elif mode == 1:    # a single row of the other variant, at a word / byte edge
                vals = [vs[0]] * ln
                vals[rng.choice([0, ln - 1, min(ln - 1, 63), min(ln - 1, 64), min(ln - 1, 7), min(ln - 1, 8)])] = vs[1]
            else:
                vals = [rng.choice(vs) for _ in range(ln)]
            zones.append((z, vals))
        for op, lit in (("eq", vs[1]), ("neq", vs[0])):
            add_enum(out, vs, zones, op, ("s", lit), kind=f"enum_sized_{op}")
    # many zones
    for nz in ([70, 300] if q else [70, 300, 1000, 4097]):
        vs = ["a", "b"]
        zones = [(z, [rng.choice(vs) for _ in range(2)]) for z in range(nz)]
        add_enum(out, vs, zones, "eq", ("s", "b"), kind="enum_many_zones")
    if not q:                  # rows_per_zone as u16: 2^16 rows wrap to 0, 2^16 + 1 to 1 (known class; the builder panics)
        for first in (65536, 65537):
            add_enum(out, ["a", "b"], [(0, ["a"] * first)], "eq", ("s", "a"), kind="enum_u16_rows")
            out[-1]["show"] = f"enum: one zone of {first} rows (rows_per_zone as u16)"


def gen_xor_sized(rng, out, tier):
    q = tier == "quick"
    sizes = [1, 2, 3, 4, 5, 8, 16, 32, 33, 64, 65, 100, 256, 1000] + ([] if q else [2, 3, 7, 500, 2000, 5000])
    for n in sizes:
        kind = rng.choice(["i", "i", "s"])
        base = rng.range(-1000, 10 ** 6)
        vals = [base + 3 * i for i in range(n)]
        cells = [("i", v) if kind == "i" else ("s", f"k{v}") for v in vals]
        cells = cells + [rng.choice(cells) for _ in range(rng.range(0, 3))]     # duplicates
        zones = [(0, cells)]
        if rng.chance(1, 2):
            zones.append((1, [cells[0], ("i", base - 1) if kind == "i" else ("s", "other")]))
        probes = (cells[0], cells[n - 1], ("i", base + 1) if kind == "i" else ("s", "absent"))
        if n >= 1000 and q:
            probes = probes[1:2]      # the model's key dedup is quadratic: one probe of the big set in the quick tier
        for lit in probes:
            add_xor(out, zones, "eq", lit, kind="xor_sized")
            out[-1]["show"] = f"xor: zone 0 with {n} distinct values, probe v eq {lit!r}"
    for nz in ([70, 300] if q else [70, 300, 1000, 4097]):
        zones = [(z, [("i", z), ("i", z + 1)]) for z in range(nz)]
        add_xor(out, zones, "eq", ("i", nz // 2), kind="xor_many_zones")
        out[-1]["show"] = f"xor: {nz} zones of 2 values, probe v eq {nz // 2}"


def cases(rng, tier):
    out = []
    q = tier == "quick"
    gen_hash(rng.fork("hash"), out, 120 if q else 5000)
    gen_enum(rng.fork("enum"), out, 1500 if q else 50000)
    gen_temporal(rng.fork("temp"), out, 2500 if q else 90000)
    gen_xor(rng.fork("xor"), out, 1500 if q else 50000)
    gen_temporal_sized(rng.fork("temp_sized"), out, tier)
    gen_enum_sized(rng.fork("enum_sized"), out, tier)
    gen_xor_sized(rng.fork("xor_sized"), out, tier)
    return out


def run_sides(cases_, model_ok):
    return base.run_sides_fn(cases_, model_ok, tmo=2400)


# ------------------------------------------------------------------ result parsing
def fields(s):
    d = {}
    for tok in (s or "").split(" "):
        if "=" in tok:
            k, v = tok.split("=", 1)
            d[k] = v
    return d


def zset(s):
    """'N' -> None ; 'S:1,2' -> {1,2}"""
    if s is None or s == "N":
        return None
    body = s[2:] if s.startswith("S:") else s
    return set(int(x) for x in body.split(",") if x != "")


def same(c, impl, model):
    if c.get("st") in ("temp", "tempm"):
        # own=<n> (stored instants the zone's own reloaded index does not contain) is printed by the Rust probe only;
        # the oracle judges it
        return re.sub(r" own=\d+$", "", impl or "") == model
    if c.get("st") != "xor":
        return impl == model
    if impl == model:
        return True
    if impl in ("PANIC", "ABORT") or not model or model.startswith("MODEL_EXN"):
        return False
    fi, fm = fields(impl), fields(model)
    for k in ("lk", "ck", "have", "own"):
        if fi.get(k) != fm.get(k):
            return False
    if fi.get("disp") != "ok":
        return False
    # membership: the model's filter is exact; the real one may add false positives among the zones that have a filter
    for k, universe in (("zres", zset("S:" + fi["have"]) if fi.get("have") not in (None, "N") else set()), ("fres", None)):
        a, m = zset(fi.get(k)), zset(fm.get(k))
        if (a is None) != (m is None):
            return False
        if a is None:
            continue
        if not m <= a:
            return False
        if universe is not None and not a <= universe:
            return False
    return True


# ------------------------------------------------------------------ direct property oracle (brute-force scan)
def required_zones(c):
    """Zone ids that hold at least one row satisfying the probe, by scanning the values; None = the probe has no meaning."""
    st, op = c["st"], c["op"]
    req = set()
    if st == "enum":
        if c["lit"][0] != "s":
            return None
        lit = c["lit"][1].encode()
        last = {}
        for z, vals in c["zones"]:
            last[z] = vals            # a repeated zone id replaces the earlier plan
        for z, vals in last.items():
            for v in vals:
                if v is None or v not in c["variants"]:
                    continue      # STORE admits declared variants only (C06); such rows exist for the correspondence only
                b = v.encode()
                if cmp_holds(op, b, lit):
                    req.add(z)
        return req
    if st == "temp":
        if c["lv"] is None:
            return None
        num, den = c["lv"]
        last = {}
        for z, vals in c["zones"]:
            last[z] = vals
        for z, vals in last.items():
            for t in vals:
                if cmp_holds(op, t * den, num):
                    req.add(z)
        return req
    if st == "xor":
        lit = c["lit"]
        if lit[0] in ("n", "~"):
            return None
        for z, cells in c["zones"]:
            for cell in cells:
                if cell[0] != lit[0] or cell[0] in ("n", "~"):
                    continue        # only rows holding a value of the literal's own kind are judged
                a, b = cell[1], lit[1]
                if cell[0] == "fl" and (a != a or b != b):
                    continue
                if cell[0] == "s":
                    a, b = a.encode(), b.encode()
                if cmp_holds(op, a, b):
                    req.add(z)
        return req
    return None


_SEL = {}


def selector_flags():
    """The field selector's treatment of a pruner answer, as the translator read it from field_selector.rs
    (Gen/Params.v, zidx_sel_*): the oracle needs it to know what a query scans after the pruner answered."""
    if not _SEL:
        try:
            txt = open(os.path.join(vlib.COQ, "theories", "Gen", "Params.v")).read()
        except OSError:
            txt = ""
        for name, val in re.findall(r"Definition (zidx_sel_\w+) : (?:bool|N) := (\w+)", txt):
            _SEL[name] = {"true": True, "false": False}.get(val, val)
    return _SEL


def selected_zones(c, impl):
    """What the query would scan (FieldSelector::select_for_segment): all zones of the segment when the strategy is
    bypassed for the operator; else the pruner's answer; else, for a None, all zones for the operators the selector
    lists, and otherwise no zones (ZoneXorIndex: all zones only while the segment is in flight)."""
    f = fields(impl)
    st, op = c["st"], c["op"]
    fl = selector_flags()
    key = {"enum": "zidx_sel_enum", "temp": "zidx_sel_temporal", "xor": "zidx_sel_zxf"}[st]
    allz = set(z for z, _ in c["zones"])
    if op != "eq" and fl.get(key + "_noneq_bypass"):
        return allz
    z = zset(f.get("zres") if st == "xor" else f.get("res"))
    if z is not None:
        return z
    if (op == "neq" and fl.get(key + "_none_neq_all")) or (op == "in" and fl.get(key + "_none_in_all")) \
            or (op != "eq" and fl.get(key + "_none_noneq_all")):
        return allz
    return allz if fl.get(key + "_none") == "1" else set()


def oracle(c, impl):
    st = c.get("st")
    if st == "hash":
        exp = str(fx_hash_str(c["s"].encode()))
        return None if impl == exp else f"stable_hash64({c['s']!r}) = {impl}, reference FxHasher gives {exp}"
    if impl in ("PANIC", "ABORT"):
        return f"the builder/pruner {impl}ed on {c.get('show')}"
    if st in ("temp", "tempm"):
        f = fields(impl)
        if f.get("own") not in (None, "0"):
            return (f"{f.get('own')} stored instants are not found by contains_ts of their own zone's index "
                    f"(built by the real builder, saved, reloaded): {c.get('show')}")
    if st == "tempm":
        res = (f.get("res") or "").split("|")
        if len(res) != len(c["lits"]):
            return f"{len(res)} answers for {len(c['lits'])} probes: {c.get('show')}"
        last = {}
        for z, vals in c["zones"]:
            last[z] = set(vals)
        for v, r in zip(c["lits"], res):
            req = set(z for z, vals in last.items() if v in vals)
            zz = zset(r)
            sel = set() if zz is None else zz
            if req - sel:
                return (f"= {v}: zones {sorted(req - sel)} hold that instant but are not candidates (returned {sorted(sel)}): "
                        f"{c.get('show')}")
        return None
    if st == "xor":
        f = fields(impl)
        if f.get("own") != "1":
            return f"a zone's own filter does not contain a value of the zone: {c.get('show')}"
        if f.get("disp") != "ok":
            return f"generator's float display differs from f64::to_string: {c.get('show')}"
    req = required_zones(c)
    if req is None:
        return None
    sel = selected_zones(c, impl)
    miss = sorted(req - sel)
    if miss:
        return f"zones {miss} hold a row satisfying the probe but are not candidates (returned {sorted(sel)}): {c.get('show')}"
    return None


def day_bucket(t):
    return (t // 86400) * 86400


def classify(c, impl):
    """Known classes still present after the fix round (f801704, db7c428): EnumZoneLongerThanBitmap,
    TemporalNonIntegerLiteral, TemporalBeyondU32 (EnumRangeOp went with 01eee7e)."""
    st, op = c.get("st"), c.get("op")
    if st == "enum":
        if impl == "PANIC":
            first = len(c["zones"][0][1])
            if any(len(v) > first for _, v in c["zones"]) or first >= 65536:
                return "EnumZoneLongerThanBitmap"
            return None
        return None
    if st == "temp":
        if impl in ("PANIC", "ABORT") or c.get("lv") is None or op in ("neq", "in"):
            return None
        if c["litkind"] in ("fl", "b", "n"):
            return "TemporalNonIntegerLiteral"
        if op == "eq":
            return None
        num, den = c["lv"]
        if day_bucket(max(num, 0)) >= U32:
            return "TemporalBeyondU32"
        req = required_zones(c) or set()
        miss = req - selected_zones(c, impl)
        last = {}
        for z, vals in c["zones"]:
            last[z] = vals
        # a missed zone is excused only if EVERY row of it that satisfies the probe lies beyond the u32 day buckets
        for z in miss:
            rows = [t for t in last[z] if cmp_holds(op, t * den, num)]
            if any(day_bucket(max(t, 0)) < U32 for t in rows):
                return None
        return "TemporalBeyondU32"
    return None


def nontrivial_key(c, impl):
    st = c.get("st")
    if st == "hash":
        return ("hash", len(c["s"].encode()) % 8, impl)
    if impl in (None, "PANIC", "ABORT"):
        return None
    if st == "tempm":
        return (c["kind"], len(c["zones"]), len(set(c["zones"][0][1])), c["zones"][0][1][0])
    req = required_zones(c)
    if not req:
        return None
    return (c["kind"], tuple(sorted(req)), tuple(sorted(selected_zones(c, impl))))
