"""C17 — parsing and dispatch are total; the parser preserves structure."""
import json, math, os, re, struct
import vlib
from vlib import hx, unhx
from props import base

PROP = "C17"
PROPS_V = "theories/Props/C17.v"
THEOREMS = [
    "C17_parse_print_expr", "C17_parse_print_expr_refuted", "C17_precedence", "C17_keywords_ci",
    "C17_plot_parse_print_expr", "C17_plot_precedence", "C17_parse_print_query", "C17_parse_print_command", "C17_fuel_enough", "C17_parse_total", "C17_numeric_limits",
    "C17_store_string_braces", "C17_no_exponential_witness",
    "C17_json_join_keeps_operands", "C17_json_logical_keeps_operands",
    "C17_dispatch_refuted", "C17_dispatch_outside_known",
]
RULE = ("command texts from seven generators: (rt) print of a random well-formed Query AST by the extracted Coq printer "
        "with a random keyword casing, (grammar) grammar-derived QUERY/FIND/REPLAY/STORE/REMEMBER/user-management texts "
        "with free clause order, repeated clauses, odd spacing and keyword-like identifiers, (mut) character-level "
        "mutations of those, (num) numeric terminals around the u32/i64/f64 limits, (nest) nested parentheses/NOT/braces, "
        "(rand) random printable/UTF-8 strings and keyword soup, (disp) engine-level dispatch of parsed commands, "
        "(json*) HTTP JSON bodies through the endpoint's deserialiser and conversion: where trees with and/or lists of every "
        "length 0..17, nested and under not, all command kinds, wrong shapes; plus PLOT, DEFINE, BATCH, REMEMBER generators; a case is non-trivial when the implementation returned a command, distinct by generator and "
        "by the structure of the canonical rendering (strings and numbers abstracted)")
ASSUMPTIONS = [
    "outside string literals the model covers ASCII only (Unicode alphanumeric/numeric tables of the tokenizer are not modelled): such inputs are run for totality only",
    "JSON validity of a STORE payload is decided by CPython's json in the comparison, not by the model; DEFINE/BATCH inputs outside the modelled JSON/number subset are run for totality only (UNMODELLED)",
    "HTTP JSON commands: the JSON text is decoded by ocaml/p_parse.ml (RFC 8259) and Model/JsonCommand.v models serde's derived deserialisation of JsonCommand/JsonExpr by hand (internally tagged enum, untagged Compare/In/Logical, aliases, optional fields); bodies with duplicate keys, sequence forms of structs, -0 or exponent numbers are undecided by the model (run for totality and the direct oracle only)",
    "decimal-to-binary64 rounding of float literals is done by CPython in the comparison; the model keeps the literal text and decides only whether it overflows",
    "the peg crate's semantics (ordered choice, possessive repetition, actions run inline, no memoisation) are modelled by hand; the tie is the differential run",
    "resource exhaustion (stack overflow, exponential re-parsing) cannot be exhibited by the model; it is observed on the implementation only (child process, 2 MiB thread stack = tokio's default worker stack, wall-clock limit)",
]
TRUSTED = [
    "Coq 8.16.1 kernel + coqc; vm_compute for closed witnesses; no native_compute",
    "translator tools/params/p30_dispatch.py (variants of enum Command, arms of dispatch_command, catch-all macro) and p31_query_numeric.py (unwrap vs fallible action in limit_clause/offset_clause/number), p32_tokenizer_symbols.py (Token::Symbol characters), p33_store_braces.py (json_string alternative in balanced_braces, '{' among its plain characters), p34_expr_reparse.py (single-parse vs re-parsing form of or_expr/and_expr in query.rs and plotql.rs)",
    "extraction: ExtrOcamlBasic only; ocaml/driver.ml, conv.ml, p_parse.ml (rendering, AST decoding)",
    "correspondence harness /verif/harness (vharn fn parse_cmd/parse_disp/parse_kind/parse_json; parse_json = sonic_rs::from_slice::<JsonCommand> + Into<Command>, as in the HTTP handler) built against /repo with --cfg sneldb_verif",
    "python oracle: canonical rendering of the generated AST / JSON tree, operand-leaf comparison, JSON-vs-text-query comparison on the implementation, CPython float()/json (independent of model and implementation)",
]

CLAIMED = True
MANIFEST = {
 "level_text": "Theorems (all inputs / all ASTs, no bound) on a byte-level model of parse_command and of the QUERY/FIND peg grammar: parsing is total (never a panic, never out of fuel, for every input — the numeric conversions are fallible since 57cd0c4, which the translator reads from query.rs); print-then-parse is the identity for every well-formed WHERE expression and every well-formed Query command (all clause kinds), at the grammar entry point and through parse_command (trim, token validation, head switch), under every letter-casing of the keywords; NOT > AND > OR, parentheses and right-nesting follow; out-of-range numerals are parse errors and their in-range neighbours parse; STORE matches a block whose string literals contain braces; Batch is the only Command variant without a dispatch arm; the JSON endpoint's join of and/or operand lists keeps every operand once and in order for every list length. The dispatch table, the tokenizer's symbol set, the form of the numeric conversions and of STORE's brace rule are regenerated from the Rust text on every run. The model is run against the real parse_command on printed, grammar-derived, mutated, numeric-limit, nesting, whitespace and random inputs; panics, aborts (stack overflow) and timeouts of the implementation are caught in a child process and reported by a direct oracle, as is parse(print c) != c on the real parser.",
 "design_ref": "DESIGN.md §6 C17",
 "level_note": "Trusted: Coq kernel; tools/params/p30_dispatch.py; ExtrOcamlBasic extraction + OCaml driver; the Rust harness; CPython (expected renderings, float and JSON comparison). The peg semantics are hand-modelled; Non-ASCII outside string literals is covered for totality only; serde's derived deserialisation of the JSON command is modelled by hand."
}

# known findings of this property live in known/C17.json; until the maintainer has merged them into
# known_findings.json the check reads them from there as well (no entry is ever dropped).
_orig_load_known = vlib.load_known


def _load_known(prop):
    out = list(_orig_load_known(prop))
    if prop == PROP:
        p = os.path.join(vlib.VERIF, "known", "C17.json")
        if os.path.exists(p):
            seen = {k.get("class") for k in out}
            out += [k for k in json.load(open(p)) if k.get("class") not in seen]
    return out


vlib.load_known = _load_known

KEYWORDS = ["QUERY", "FIND", "FOLLOWED", "PRECEDED", "BY", "PER", "USING", "SINCE", "LIMIT", "OFFSET", "ORDER", "RETURN",
            "LINKED", "WHERE", "FOR", "TIME", "COUNT", "UNIQUE", "TOTAL", "AVG", "MIN", "MAX", "HOUR", "DAY", "WEEK",
            "MONTH", "YEAR", "ASC", "DESC", "OR", "AND", "NOT", "IN"]
OTHER_WORDS = ["REPLAY", "STORE", "PAYLOAD", "REMEMBER", "AS", "SHOW", "PERMISSIONS", "PING", "FLUSH", "LIST", "USERS",
               "GRANT", "REVOKE", "READ", "WRITE", "ON", "TO", "FROM", "CREATE", "USER", "WITH", "KEY", "ROLES",
               "DEFINE", "FIELDS", "BATCH", "PLOT", "OF", "VS", "TOP", "FILTER", "BREAKDOWN", "OVER"]
KINDS16 = ["Define", "Store", "Query", "RememberQuery", "ShowMaterialized", "Replay", "Ping", "Flush", "Batch", "Compare",
           "CreateUser", "RevokeKey", "ListUsers", "GrantPermission", "RevokePermission", "ShowPermissions"]


# ------------------------------------------------------------------ AST helpers
def hb(b):
    return b.hex() if b else "-"


def ho(o):
    return "~" if o is None else hb(o)


def hl(l):
    return "[" + ",".join(hb(x) for x in l) + "]"


def hol(o):
    return "~" if o is None else hl(o)


def fbits(text):
    return struct.pack(">d", float(text)).hex()


def canon_val(v):
    if v[0] == "s":
        return "s" + hb(v[1])
    if v[0] == "i":
        return "i%d" % v[1]
    if v[0] == "f":
        return "F" + fbits(("-" if v[1] else "") + v[2] + "." + v[3])
    return "bT" if v[1] else "bF"


def canon_expr(e):
    t = e[0]
    if t == "C":
        return "C(%s,%s,%s)" % (hb(e[1]), e[2], canon_val(e[3]))
    if t == "I":
        return "I(" + hb(e[1]) + "".join(";" + canon_val(v) for v in e[2]) + ")"
    if t == "N":
        return "N(" + canon_expr(e[1]) + ")"
    return ("A(" if t == "A" else "O(") + canon_expr(e[1]) + "," + canon_expr(e[2]) + ")"


def canon_agg(a):
    return a[0] if a[0] == "count" else a[0] + ":" + hb(a[1])


def canon_query(q):
    seq = "~"
    if q["seq"]:
        seq = hb(q["ev"]) + "".join((">" if d == "F" else "<") + hb(e) for d, e in q["seq"])
    return "Q %s ctx=%s since=%s tf=%s stf=%s where=%s limit=%s offset=%s order=%s ret=%s link=%s aggs=%s tb=%s gb=%s seq=%s" % (
        hb(q["ev"]), ho(q["ctx"]), ho(q["since"]), ho(q["tf"]), ho(q["stf"]),
        "~" if q["where"] is None else canon_expr(q["where"]),
        "~" if q["limit"] is None else str(q["limit"]), "~" if q["offset"] is None else str(q["offset"]),
        "~" if q["order"] is None else hb(q["order"][0]) + ":" + ("d" if q["order"][1] else "a"),
        hol(q["ret"]), ho(q["link"]),
        "~" if q["aggs"] is None else "[" + ",".join(canon_agg(a) for a in q["aggs"]) + "]",
        q["tb"] or "~", hol(q["gb"]), seq)


def enc_val(v):
    if v[0] == "s":
        return "s" + hb(v[1])
    if v[0] == "i":
        return "i%d" % v[1]
    if v[0] == "f":
        return "f%d:%s:%s" % (1 if v[1] else 0, v[2], v[3])
    return "bT" if v[1] else "bF"


def enc_expr(e):
    t = e[0]
    if t == "C":
        return ["C", hb(e[1]), e[2], enc_val(e[3])]
    if t == "I":
        return ["I", hb(e[1]), str(len(e[2]))] + [enc_val(v) for v in e[2]]
    if t == "N":
        return ["N"] + enc_expr(e[1])
    return [t] + enc_expr(e[1]) + enc_expr(e[2])


def enc_list(o, f=hb):
    return ["~"] if o is None else [str(len(o))] + [f(x) for x in o]


def enc_query(q):
    t = ["Q", hb(q["ev"]), str(len(q["seq"]))]
    for d, e in q["seq"]:
        t += [d, hb(e)]
    t += ["ctx", ho(q["ctx"]), "since", ho(q["since"]), "tf", ho(q["tf"]), "stf", ho(q["stf"]), "where"]
    t += ["~"] if q["where"] is None else enc_expr(q["where"])
    t += ["ret"] + enc_list(q["ret"]) + ["link", ho(q["link"]), "aggs"] + enc_list(q["aggs"], canon_agg)
    t += ["tb", q["tb"] or "~", "gb"] + enc_list(q["gb"]) + ["order"]
    t += ["~"] if q["order"] is None else [hb(q["order"][0]), "d" if q["order"][1] else "a"]
    t += ["limit", "~" if q["limit"] is None else str(q["limit"]), "offset", "~" if q["offset"] is None else str(q["offset"])]
    return t


# ------------------------------------------------------------------ generators
IDC = "abcdefghijklmnopqrstuvwxyzABCDEFGHIJKLMNOPQRSTUVWXYZ"


def lead_run(s):
    m = re.match(r"[A-Za-z]*", s)
    return m.group(0).upper()


def g_ident(rng, kwlike=False):
    if kwlike:
        k = rng.choice(KEYWORDS)
        k = rng.choice([k, k.lower(), k.capitalize()])
        return (k + rng.choice(["_", "_x", "-a", "1", "_" + g_ident(rng).decode(), ""])).encode()
    while True:
        n = rng.range(1, 8)
        s = rng.choice(IDC + "_")
        for _ in range(n - 1):
            s += rng.choice(IDC + "0123456789_-" if rng.chance(1, 3) else IDC[:26])
        if lead_run(s) not in KEYWORDS:
            return s.encode()


def g_field(rng, kwlike=False):
    a = g_ident(rng, kwlike)
    if rng.chance(1, 5):
        return a + b"." + g_ident(rng, kwlike and rng.chance(1, 2))
    return a


# characters whose upper/lower-casing changes the UTF-8 length or the number of chars (ı ſ ﬁ ﬂ ﬀ ﬃ ŉ ǰ ΐ ΰ ɑ ɐ ɫ ɽ և ß İ K Å ẞ),
# 2-, 3- and 4-byte characters, combining marks, non-ASCII spaces
UNI = ["\u0131", "\u017f", "\ufb01", "\ufb02", "\ufb00", "\ufb03", "\u0149", "\u01f0", "\u0390", "\u03b0", "\u0251", "\u0250", "\u026b", "\u027d",
       "\u0587", "\u00df", "\u0130", "\u212a", "\u212b", "\u1e9e", "\u00e9", "\u00f1", "\u0301", "\u0308", "\u200d", "\u65e5", "\u672c", "\U0001f680",
       "\U00010400", "\u2003", "\u00a0", "\u0416", "\u03c2"]


ESCAPES = ["\\n", "\\t", "\\r", "\\\\", "\\u0041", "\\u00e9", "\\u007d", "\\u0000", "\\ud800", "\\udfff", "\\uDBFF", "\\ud83d\\ude00",
           "\\ude00\\ud83d", "\\uFFFF", "\\ufffe", "\\u12", "\\u", "\\uzzzz", "\\u00zz", "\\U0001F600", "\\x41", "\\0", "\\/", "\\b", "\\f", "\\'", "\\ "]


def g_string(rng, ascii_only=False, noback=False):
    n = rng.range(0, 10)
    out = ""
    for _ in range(n):
        r = rng.below(20)
        if r < 14:
            c = chr(rng.range(32, 126))
        elif r < 16:
            c = rng.choice(" \t(),=<>![]{};:.'-_")
        elif r < 17:
            c = "\\"
            if not noback and rng.chance(1, 2):
                # a whole escape sequence, as a client that JSON-encodes its strings would send it (\uXXXX incl.
                # lone and paired surrogates, short and non-hex forms), and the other usual ones
                c = rng.choice(ESCAPES)
        elif ascii_only:
            c = "x"
        else:
            c = rng.choice("éß  🚀日本ñ́")
        if c == '"' or (noback and c == "\\"):
            c = "q"
        out += c
    return out.encode("utf-8")


def g_value(rng):
    r = rng.below(10)
    if r < 4:
        return ("s", g_string(rng, noback=True))
    if r < 8:
        z = rng.choice([0, 1, -1, 42, 2 ** 31, 2 ** 32, -2 ** 63, 2 ** 63 - 1, rng.range(-10 ** 6, 10 ** 6), rng.range(-2 ** 63, 2 ** 63 - 1)])
        return ("i", z)
    d = str(rng.choice([0, 1, 7, 12, 100, rng.below(10 ** 6), rng.below(10 ** 15)]))
    if rng.chance(1, 6):
        d = "0" * rng.range(1, 3) + d
    fd = rng.choice(["0", "5", "25", "50", "125", "000", str(rng.below(10 ** 6)), "1" * rng.range(1, 17)])
    return ("f", rng.chance(1, 4), d, fd)


OPS = ["eq", "neq", "gt", "gte", "lt", "lte"]


def g_expr(rng, depth):
    r = rng.below(10)
    if depth <= 0 or r < 3:
        k = rng.below(10)
        if k < 6:
            return ("C", g_field(rng), rng.choice(OPS), g_value(rng))
        if k < 8:
            return ("I", g_field(rng), [g_value(rng) for _ in range(rng.range(0, 4))])
        return ("C", g_field(rng), "eq", ("b", True))
    if r < 5:
        return ("N", g_expr(rng, depth - 1))
    if r < 8:
        return ("A", g_expr(rng, depth - 1), g_expr(rng, depth - 1))
    return ("O", g_expr(rng, depth - 1), g_expr(rng, depth - 1))


AGGK = ["count", "countu", "countf", "total", "avg", "min", "max"]
GRANS = ["hour", "day", "week", "month", "year"]


def g_query(rng, depth=None):
    def opt(f, num=1, den=3):
        return f() if rng.chance(num, den) else None
    q = {"ev": g_ident(rng),
         "seq": [(rng.choice("FP"), g_ident(rng)) for _ in range(rng.choice([0, 0, 0, 1, 2]))],
         "ctx": opt(lambda: g_string(rng, noback=True)), "since": opt(lambda: g_string(rng, noback=True), 1, 5),
         "tf": opt(lambda: g_field(rng), 1, 5), "stf": opt(lambda: g_field(rng), 1, 8),
         "where": opt(lambda: g_expr(rng, rng.range(0, 4) if depth is None else depth), 2, 3),
         "ret": opt(lambda: [g_string(rng, noback=True) for _ in range(rng.range(0, 3))], 1, 4),
         "link": opt(lambda: g_ident(rng), 1, 8),
         "aggs": opt(lambda: [(lambda k: (k,) if k == "count" else (k, g_field(rng)))(rng.choice(AGGK)) for _ in range(rng.range(1, 3))], 1, 4),
         "tb": opt(lambda: rng.choice(GRANS), 1, 6),
         "gb": opt(lambda: [g_field(rng) for _ in range(rng.range(1, 3))], 1, 5),
         "order": opt(lambda: (g_field(rng), rng.chance(1, 2)), 1, 4),
         "limit": opt(lambda: rng.choice([0, 1, 10, 2 ** 32 - 1, rng.below(2 ** 32)]), 1, 3),
         "offset": opt(lambda: rng.choice([0, 5, 2 ** 32 - 1, rng.below(2 ** 32)]), 1, 5)}
    return q


# ---- free-form grammar-derived text (no expected AST)
def kwc(rng, k):
    r = rng.below(4)
    return k if r < 2 else k.lower() if r == 2 else "".join(c.upper() if rng.chance(1, 2) else c.lower() for c in k)


def sp(rng, must=True):
    r = rng.below(12)
    if r < 8:
        return " "
    if r < 9:
        return "  "
    if r < 10:
        return rng.choice(["\t", "\n", " \r\n "])
    return " " if must else ""


def t_value(rng):
    r = rng.below(12)
    if r < 3:
        return '"' + g_string(rng).decode("utf-8") + '"'
    if r < 6:
        return str(rng.choice([0, 1, -1, 5, 2 ** 63 - 1, -2 ** 63, rng.range(-1000, 1000)]))
    if r < 8:
        return rng.choice(["1.5", "-0.25", "3.0", "10.125", "0.1", "00.5"])
    if r < 10:
        return g_ident(rng, rng.chance(1, 3)).decode()
    return rng.choice(["true", "null", "-", "1.", ".5", "1e5", "+3", "''", "1.2.3", "--1"])


def t_expr(rng, depth):
    r = rng.below(12)
    if depth <= 0 or r < 3:
        f = g_field(rng, rng.chance(1, 4)).decode()
        k = rng.below(10)
        if k < 5:
            return f + sp(rng, False) + rng.choice(["=", "!=", ">", ">=", "<", "<=", "==", "<>", "=<"]) + sp(rng, False) + t_value(rng)
        if k < 8:
            n = rng.range(0, 3)
            inner = ("," + sp(rng, False)).join(t_value(rng) for _ in range(n))
            return f + sp(rng) + kwc(rng, "IN") + sp(rng, False) + "(" + sp(rng, False) + inner + rng.choice(["", "", ","]) * (1 if rng.chance(1, 10) else 0) + ")"
        return f
    if r < 5:
        return kwc(rng, "NOT") + sp(rng) + t_expr(rng, depth - 1)
    if r < 7:
        return "(" + sp(rng, False) + t_expr(rng, depth - 1) + sp(rng, False) + ")"
    return t_expr(rng, depth - 1) + sp(rng) + kwc(rng, rng.choice(["AND", "OR"])) + sp(rng) + t_expr(rng, depth - 1)


def t_clause(rng):
    r = rng.below(16)
    kl = rng.chance(1, 5)
    fld = lambda: g_field(rng, kl).decode()
    if r == 0:
        return kwc(rng, "FOR") + sp(rng) + rng.choice([g_ident(rng, kl).decode(), '"' + g_string(rng).decode("utf-8") + '"'])
    if r == 1:
        return kwc(rng, "SINCE") + sp(rng) + '"' + rng.choice(["2024-01-01", "1700000000", g_string(rng, True).decode()]) + '"'
    if r == 2:
        items = [rng.choice([fld(), '"' + g_string(rng, True).decode() + '"']) for _ in range(rng.range(0, 3))]
        return kwc(rng, "RETURN") + sp(rng, False) + "[" + sp(rng, False) + ("," + sp(rng, False)).join(items) + sp(rng, False) + "]"
    if r == 3:
        return kwc(rng, "LINKED") + sp(rng) + kwc(rng, "BY") + sp(rng) + g_ident(rng, kl).decode()
    if r in (4, 5, 6):
        return kwc(rng, "WHERE") + sp(rng) + t_expr(rng, rng.range(0, 3))
    if r == 7:
        return kwc(rng, "USING") + sp(rng) + kwc(rng, "TIME") + sp(rng) + fld()
    if r == 8:
        return kwc(rng, "USING") + sp(rng) + fld()
    if r == 9:
        specs = []
        for _ in range(rng.range(1, 3)):
            k = rng.choice(["COUNT", "COUNT UNIQUE", "COUNT", "TOTAL", "AVG", "MIN", "MAX"])
            specs.append(" ".join(kwc(rng, w) for w in k.split()) + ("" if k == "COUNT" and rng.chance(1, 2) else sp(rng) + fld()))
        return ("," + sp(rng, False)).join(specs)
    if r == 10:
        return kwc(rng, "PER") + sp(rng) + kwc(rng, rng.choice(["HOUR", "DAY", "WEEK", "MONTH", "YEAR", "MINUTE"])) + (sp(rng) + kwc(rng, "USING") + sp(rng) + fld() if rng.chance(1, 3) else "")
    if r == 11:
        return kwc(rng, "BY") + sp(rng) + ("," + sp(rng, False)).join(fld() for _ in range(rng.range(1, 3))) + (sp(rng) + kwc(rng, "USING") + sp(rng) + fld() if rng.chance(1, 4) else "")
    if r == 12:
        return kwc(rng, "LIMIT") + sp(rng) + str(rng.choice([0, 1, 100, 2 ** 32 - 1, rng.below(10 ** 6)]))
    if r == 13:
        return kwc(rng, "OFFSET") + sp(rng) + str(rng.choice([0, 1, 100, 2 ** 32 - 1, rng.below(10 ** 6)]))
    return kwc(rng, "ORDER") + sp(rng) + kwc(rng, "BY") + sp(rng) + fld() + rng.choice(["", sp(rng) + kwc(rng, "ASC"), sp(rng) + kwc(rng, "DESC"), " DESCENDING"])


def t_query(rng):
    s = rng.choice(["", "", " ", "\n"]) + kwc(rng, rng.choice(["QUERY", "QUERY", "FIND"])) + sp(rng) + g_ident(rng, rng.chance(1, 8)).decode()
    for _ in range(rng.choice([0, 0, 0, 1, 2])):
        s += sp(rng) + kwc(rng, rng.choice(["FOLLOWED", "PRECEDED"])) + sp(rng) + kwc(rng, "BY") + sp(rng) + g_ident(rng).decode()
    for _ in range(rng.range(0, 5)):
        s += sp(rng) + t_clause(rng)
    return s + rng.choice(["", "", " ", "\n", ";"])


def t_json(rng, depth=2):
    r = rng.below(10)
    if depth <= 0 or r < 5:
        return rng.choice(["1", "-5", "0", "true", "false", "null", "1.5", "2.5e3", "1e+16", "-2E+3", "1e-7", '"a\\"}"', '"{{"', '"\\\\"', '"x"', '"a b"', '"é"', '"q\\"r"', '"{"', '"}"',
                           str(rng.range(-10 ** 12, 10 ** 12)), '"' + g_string(rng, True, True).decode() + '"',
                           '"' + rng.choice(UNI) + rng.choice(UNI) + '"', '"x' + rng.choice(UNI) + ' AS y"'])
    if r < 8:
        return "{" + ",".join('"%s":%s' % (g_ident(rng).decode(), t_json(rng, depth - 1)) for _ in range(rng.range(0, 3))) + "}"
    return "[" + ",".join(t_json(rng, depth - 1) for _ in range(rng.range(0, 3))) + "]"


def t_other(rng):
    r = rng.below(14)
    idn = lambda: g_ident(rng, rng.chance(1, 6)).decode()
    name = lambda: rng.choice([idn(), '"' + g_string(rng, True).decode() + '"', '"' + g_string(rng).decode("utf-8") + '"',
                               '"' + rng.choice(UNI) + g_ident(rng).decode() + rng.choice(UNI) + '"', idn() + ":" + idn(), "user-1"])
    if r < 2:
        s = kwc(rng, "REPLAY") + sp(rng) + (idn() + sp(rng) if rng.chance(1, 2) else "") + kwc(rng, "FOR") + sp(rng) + name()
        for _ in range(rng.range(0, 3)):
            k = rng.below(3)
            if k == 0:
                s += sp(rng) + kwc(rng, "SINCE") + sp(rng) + '"2024-01-01T00:00:00Z"'
            elif k == 1:
                s += sp(rng) + kwc(rng, "RETURN") + sp(rng, False) + "[" + ",".join(rng.choice([idn(), '"x"']) for _ in range(rng.range(0, 3))) + "]"
            else:
                s += sp(rng) + kwc(rng, "USING") + sp(rng) + idn()
        return s
    if r < 4:
        body = "{" + ",".join('"%s":%s' % (g_ident(rng).decode(), t_json(rng)) for _ in range(rng.range(0, 3))) + "}"
        return kwc(rng, "STORE") + sp(rng) + idn() + sp(rng) + kwc(rng, "FOR") + sp(rng) + name() + sp(rng) + kwc(rng, "PAYLOAD") + sp(rng, False) + body + rng.choice(["", " ", "}", " x"]) * (1 if rng.chance(1, 8) else 0)
    if r < 6:
        return kwc(rng, "REMEMBER") + sp(rng) + t_query(rng).strip() + sp(rng) + kwc(rng, "AS") + sp(rng) + rng.choice([idn(), "m-1", "a b", '"q"', ""])
    if r == 6:
        return kwc(rng, rng.choice(["PING", "FLUSH"])) + rng.choice(["", "", " ", " x", " 1", ";"])
    if r == 7:
        return kwc(rng, "SHOW") + sp(rng) + rng.choice([name(), kwc(rng, "PERMISSIONS") + sp(rng) + kwc(rng, "FOR") + sp(rng) + name(), kwc(rng, "PERMISSIONS"), ""])
    if r == 8:
        return kwc(rng, "LIST") + sp(rng) + rng.choice([kwc(rng, "USERS"), "USER", "USERS x", ""])
    if r in (9, 10):
        g = rng.chance(1, 2)
        perms = ("," + sp(rng, False)).join(kwc(rng, rng.choice(["READ", "WRITE", "READ", "ADMIN"])) for _ in range(rng.range(0, 3)))
        evs = ("," + sp(rng, False)).join(name() for _ in range(rng.range(0, 3)))
        return (kwc(rng, "GRANT" if g else "REVOKE") + sp(rng) + perms + sp(rng) + kwc(rng, "ON") + sp(rng) + evs + sp(rng)
                + kwc(rng, rng.choice(["TO", "FROM"]) if rng.chance(1, 4) else ("TO" if g else "FROM")) + sp(rng) + name() + rng.choice(["", "", " extra"]))
    if r == 11:
        s = kwc(rng, "CREATE") + sp(rng) + kwc(rng, "USER") + sp(rng) + name()
        for _ in range(rng.range(0, 2)):
            if rng.chance(1, 2):
                s += sp(rng) + kwc(rng, "WITH") + sp(rng) + kwc(rng, "KEY") + sp(rng) + name()
            else:
                s += sp(rng) + kwc(rng, "WITH") + sp(rng) + kwc(rng, "ROLES") + sp(rng, False) + "[" + rng.choice([",", ", ", " "]).join(name() for _ in range(rng.range(0, 3))) + rng.choice(["]", "]", ""])
        return s
    if r == 12:
        return kwc(rng, "REVOKE") + sp(rng) + kwc(rng, "KEY") + sp(rng) + rng.choice([name(), "", name() + " x"])
    # unmodelled heads: totality only
    k = rng.below(3)
    if k == 0:
        fields = ",".join('%s: %s' % (rng.choice(['"a"', "b", '"c d"']), rng.choice(['"int"', '"string"', '["x","y"]', "int", "[]", "1", '{"n":1}'])) for _ in range(rng.range(0, 3)))
        return kwc(rng, "DEFINE") + sp(rng) + idn() + (sp(rng) + kwc(rng, "AS") + sp(rng) + rng.choice(["1", "2", "-1", "x", "4294967296", "1.5"]) if rng.chance(1, 3) else "") + sp(rng) + kwc(rng, "FIELDS") + sp(rng, False) + "{" + fields + "}"
    if k == 1:
        return kwc(rng, "BATCH") + sp(rng, False) + "[" + ";".join(rng.choice(["PING", "FLUSH", t_query(rng), t_other(rng) if rng.chance(1, 3) else "PING"]) for _ in range(rng.range(0, 3))) + rng.choice(["]", "]", ""])
    m = rng.choice(["COUNT", "COUNT(x)", "TOTAL(amount)", "AVG(a.b)", "UNIQUE(u)", "SUM(x)", "MAX x"])
    s = kwc(rng, "PLOT") + sp(rng) + m + sp(rng) + kwc(rng, "OF") + sp(rng) + idn()
    for _ in range(rng.range(0, 3)):
        s += sp(rng) + rng.choice(["FILTER " + t_expr(rng, 2), "TOP " + str(rng.choice([5, -1, 4294967296, 99999999999999999999])), "VS " + m + " OF " + idn(),
                                   "BREAKDOWN BY a, b", "OVER DAY(created_at)", "-> " + idn(), "FILTER x = 99999999999999999999", "FILTER x = " + "9" * 320 + ".0"])
    return s


# ---- PLOT: AST, printer and expected rendering (independent of the model)
PMETRICS = ["count", "countf", "countu", "total", "sum", "avg", "min", "max"]


def p_ident(rng, hyphen=True):
    while True:
        s = rng.choice(IDC + "_")
        for _ in range(rng.range(0, 6)):
            s += rng.choice(IDC[:26] + "0123456789_")
        if hyphen and rng.chance(1, 8):
            s += "-" + rng.choice(IDC[:26] + "0123456789") + rng.choice(["", "x", "_1"])
        if lead_run(s) not in KEYWORDS + ["EXISTS", "TOP", "VS", "OF", "OVER", "FILTER", "BREAKDOWN", "THEN", "SUM", "PLOT"]:
            return s.encode()


def p_field(rng):
    a = p_ident(rng)
    return a + b"." + p_ident(rng) if rng.chance(1, 6) else a


def p_metric(rng):
    k = rng.choice(PMETRICS)
    return (k,) if k == "count" else (k, p_field(rng))


def p_value(rng):
    v = g_value(rng)
    return v


def p_expr(rng, depth):
    r = rng.below(10)
    if depth <= 0 or r < 3:
        if rng.chance(2, 3):
            return ("C", p_field(rng), rng.choice(OPS), p_value(rng))
        return ("I", p_field(rng), [p_value(rng) for _ in range(rng.range(1, 3))])
    if r < 5:
        return ("N", p_expr(rng, depth - 1))
    if r < 8:
        return ("A", p_expr(rng, depth - 1), p_expr(rng, depth - 1))
    return ("O", p_expr(rng, depth - 1), p_expr(rng, depth - 1))


def pr_val(v):
    if v[0] == "s":
        return '"' + v[1].decode("utf-8") + '"'
    if v[0] == "i":
        return str(v[1])
    return ("-" if v[1] else "") + v[2] + "." + v[3]


OPTXT = {"eq": "=", "neq": "!=", "gt": ">", "gte": ">=", "lt": "<", "lte": "<="}


def pr_expr(rng, e, lvl=0):
    """minimal parentheses for the right-nested grammar; keyword casing and spacing vary"""
    t = e[0]
    if t == "C":
        return e[1].decode() + sp(rng, False) + OPTXT[e[2]] + sp(rng, False) + pr_val(e[3])
    if t == "I":
        return e[1].decode() + sp(rng) + kwc(rng, "IN") + sp(rng, False) + "(" + ("," + sp(rng, False)).join(pr_val(v) for v in e[2]) + ")"
    if t == "N":
        return kwc(rng, "NOT") + sp(rng) + pr_expr(rng, e[1], 2)
    if t == "A":
        x = pr_expr(rng, e[1], 2) + sp(rng) + kwc(rng, "AND") + sp(rng) + pr_expr(rng, e[2], 1)
        return "(" + x + ")" if lvl > 1 else x
    x = pr_expr(rng, e[1], 1) + sp(rng) + kwc(rng, "OR") + sp(rng) + pr_expr(rng, e[2], 0)
    return "(" + x + ")" if lvl > 0 else x


def pr_metric(rng, m):
    if m[0] == "count":
        return kwc(rng, "COUNT")
    name = {"countf": "COUNT", "countu": "UNIQUE", "total": "TOTAL", "sum": "SUM", "avg": "AVG", "min": "MIN", "max": "MAX"}[m[0]]
    return kwc(rng, name) + sp(rng, False) + "(" + sp(rng, False) + m[1].decode() + sp(rng, False) + ")"


def m_norm(m):
    return ("total", m[1]) if m[0] == "sum" else m


def m_agg(m):
    m = m_norm(m)
    return ("count",) if m[0] == "count" else (m[0], m[1])


def m_name(m):
    m = m_norm(m)
    if m[0] == "count":
        return b"count"
    return {"countf": b"count_", "countu": b"count_unique_", "total": b"total_", "avg": b"avg_", "min": b"min_", "max": b"max_"}[m[0]] + m[1]


def g_plot_side(rng):
    cl = []
    for _ in range(rng.choice([0, 1, 1, 2, 3])):
        if rng.chance(3, 4):
            cl.append(("F", p_expr(rng, rng.range(0, 3))))
        else:
            cl.append(g_top(rng))
    return {"metric": p_metric(rng), "events": [p_ident(rng) for _ in range(rng.choice([1, 1, 1, 2, 3]))], "clauses": cl}


def g_top(rng):
    by = None
    if rng.chance(1, 2):
        by = ("m", p_metric(rng)) if rng.chance(1, 2) else ("f", p_field(rng))
    return ("T", rng.choice([0, 1, 5, 100, 2 ** 32 - 1, 2 ** 32 + 7]), by)


def g_plot(rng):
    main = g_plot_side(rng)
    sides = []
    for _ in range(rng.choice([0, 0, 1, 1, 2])):
        sd = g_plot_side(rng)
        if rng.chance(9, 10):
            sd["metric"] = main["metric"] if rng.chance(3, 4) else (("sum", main["metric"][1]) if main["metric"][0] == "total" else main["metric"])
        sides.append(sd)
    after = []
    for _ in range(rng.choice([0, 1, 1, 2, 3])):
        k = rng.below(3)
        if k == 0:
            after.append(("B", [p_field(rng) for _ in range(rng.range(1, 3))]))
        elif k == 1:
            after.append(("O", rng.choice(GRANS), p_field(rng)))
        else:
            after.append(g_top(rng))
    # a TOP directly after the last side's clauses is read as that side's clause (the before-VS clause loop is
    # greedy), so the AST keeps such TOPs there
    last = sides[-1] if sides else main
    while after and after[0][0] == "T":
        last["clauses"].append(after.pop(0))
    return {"main": main, "sides": sides, "after": after}


def pr_top(rng, c):
    s = kwc(rng, "TOP") + sp(rng) + str(c[1])
    if c[2] is not None:
        s += sp(rng) + kwc(rng, "BY") + sp(rng) + (pr_metric(rng, c[2][1]) if c[2][0] == "m" else c[2][1].decode())
    return s


def pr_plot_side(rng, sd):
    s = pr_metric(rng, sd["metric"]) + sp(rng) + kwc(rng, "OF") + sp(rng)
    s += (rng.choice([" -> ", "->", " THEN ", " then "])).join(e.decode() for e in sd["events"])
    for c in sd["clauses"]:
        s += sp(rng) + (kwc(rng, "FILTER") + sp(rng) + pr_expr(rng, c[1]) if c[0] == "F" else pr_top(rng, c))
    return s


def pr_plot(rng, p):
    s = kwc(rng, "PLOT") + sp(rng) + pr_plot_side(rng, p["main"])
    for sd in p["sides"]:
        s += sp(rng) + kwc(rng, "VS") + sp(rng) + pr_plot_side(rng, sd)
    for c in p["after"]:
        if c[0] == "B":
            s += sp(rng) + kwc(rng, "BREAKDOWN") + sp(rng) + kwc(rng, "BY") + sp(rng) + ("," + sp(rng, False)).join(f.decode() for f in c[1])
        elif c[0] == "O":
            s += sp(rng) + kwc(rng, "OVER") + sp(rng) + kwc(rng, c[1].upper()) + sp(rng, False) + "(" + c[2].decode() + ")"
        else:
            s += sp(rng) + pr_top(rng, c)
    return s


def canon_plot(p):
    """what PlotQueryParts::into_command builds, written down from the documentation of PLOT"""
    for sd in p["sides"]:
        if m_norm(sd["metric"]) != m_norm(p["main"]["metric"]):
            return "ERR"
    tm = bd = stop = None
    stby = None
    for c in p["after"]:
        if c[0] == "B":
            bd = c[1]
        elif c[0] == "O":
            tm = (c[1], c[2])
        else:
            stop, stby = c[1] % 2 ** 32, c[2]

    def one(sd):
        flt = top = tby = None
        for c in sd["clauses"]:
            if c[0] == "F":
                flt = c[1] if flt is None else ("A", flt, c[1])
            else:
                top, tby = c[1] % 2 ** 32, c[2]
        t = stop if stop is not None else top
        b = stby if stby is not None else tby
        aggs = [m_agg(sd["metric"])]
        order = None
        if t is not None:
            if b is None:
                order = (m_name(sd["metric"]), True)
            elif b[0] == "f":
                order = (b[1], True)
            else:
                if m_norm(b[1]) != m_norm(sd["metric"]):
                    aggs.append(m_agg(b[1]))
                order = (m_name(b[1]), True)
        q = {"ev": sd["events"][0], "seq": [("F", e) for e in sd["events"][1:]], "ctx": None, "since": None,
             "tf": tm[1] if tm else None, "stf": None, "where": flt, "ret": None, "link": None, "aggs": aggs,
             "tb": tm[0] if tm else None, "gb": bd, "order": order, "limit": t, "offset": None}
        return canon_query(q)
    qs = [one(p["main"])] + [one(sd) for sd in p["sides"]]
    return "OK " + qs[0] if len(qs) == 1 else "OK CMP " + " | ".join(qs)


# ---- DEFINE / BATCH / REMEMBER families with an expected result
def g_define(rng):
    """(text, expected)"""
    et = rng.choice(IDC[:26]) + "".join(rng.choice(IDC[:26] + "0123456789_") for _ in range(rng.range(0, 8)))
    ver = rng.choice([None, None, 0, 1, 7, 4294967295, 4294967296, 10 ** 12])
    fields = {}
    parts = []
    for _ in range(rng.range(1, 4)):
        k = rng.choice([g_ident(rng).decode(), g_ident(rng).decode(), "a b", "k" + rng.choice(UNI)])
        if rng.chance(2, 3):
            v = rng.choice(["int", "string", "u64", "datetime | null", "x" + rng.choice(UNI)])
            fields[k] = hb(v.encode())
            vt = rng.choice(['"%s"' % v, v if re.fullmatch(r"[A-Za-z_][A-Za-z0-9_-]*", v) else '"%s"' % v])
        else:
            vs = [rng.choice(["a", "b-c", "pro", "x y", "z" + rng.choice(UNI)]) for _ in range(rng.range(1, 3))]
            fields[k] = hl([x.encode() for x in vs])
            vt = "[" + ("," + sp(rng, False)).join('"%s"' % x for x in vs) + "]"
        kt = '"%s"' % k if (" " in k or not k.isascii() or rng.chance(1, 2)) else k
        parts.append(kt + sp(rng, False) + ":" + sp(rng, False) + vt)
    txt = kwc(rng, "DEFINE") + sp(rng) + et
    if ver is not None:
        txt += sp(rng) + kwc(rng, "AS") + sp(rng) + str(ver)
    txt += sp(rng) + kwc(rng, "FIELDS") + sp(rng, False) + "{" + sp(rng, False) + ("," + sp(rng, False)).join(parts) + sp(rng, False) + "}"
    exp = "OK D %s v=%s %s" % (hb(et.encode()), "~" if ver is None else str(min(ver, 2 ** 32 - 1)),
                               ",".join(sorted(hb(k.encode()) + ":" + v for k, v in fields.items())))
    return txt, exp


def t_define(rng):
    fields = ("," + sp(rng, False)).join('%s%s:%s%s' % (
        rng.choice(['"a"', "b", '"c d"', "a", '"a"', "1", '"k' + rng.choice(UNI) + '"', '"q\\"r"', '"x\\\\n"']), sp(rng, False), sp(rng, False),
        rng.choice(['"int"', '"string"', '["x","y"]', "int", "[]", "1", "12", "1 2", "-5", "1.5", '{"n":1}', '[["a"]]', '["a",1]', '[a, b]', '"a" "b"', "a;", "(int)", "= x", "+1"]))
        for _ in range(rng.range(0, 4)))
    return (kwc(rng, "DEFINE") + sp(rng) + rng.choice([g_ident(rng).decode(), "9x", "a-b", '"q"', "x" * 101, "x" * 100, ""])
            + (sp(rng) + kwc(rng, "AS") + sp(rng) + rng.choice(["1", "2", "-1", "-0", "x", "4294967296", "1.5", "1.", "007", "0.999999999999999", "1-2", '"3"', ""]) if rng.chance(1, 2) else "")
            + sp(rng) + kwc(rng, rng.choice(["FIELDS", "FIELDS", "FIELD"])) + sp(rng, False) + "{" + fields + rng.choice(["}", "}", "", "} x", "}}"]))


def t_batch(rng, depth=1):
    parts = []
    junk = rng.chance(1, 4)
    for _ in range(rng.range(0, 4) if junk else rng.range(1, 3)):
        r = rng.below(10)
        if r == 0:
            parts.append(rng.choice(["PING", "FLUSH", "ping", "LIST USERS"] + (["", " "] if junk else [])))
        elif r < 3:
            parts.append(t_query(rng).strip().rstrip(";") if junk else "QUERY " + g_ident(rng).decode() + rng.choice(
                ["", " LIMIT 5", " WHERE a = 1 AND b = \"x y\"", " FOR \"c" + rng.choice(UNI) + "\"", " WHERE a IN (1, 2) OR NOT b = 3", " RETURN [a, \"b;c\"]",
                 " WHERE x = 1.50", " WHERE x = 12345678901234567", " COUNT BY f", " WHERE s = \"a\\\\b\""]))
        elif r == 3:
            parts.append(g_define(rng)[0])
        elif r == 4:
            parts.append(pr_plot(rng, g_plot(rng)))
        elif r == 5:
            parts.append("STORE e FOR c PAYLOAD {" + ",".join('"%s":%s' % (g_ident(rng).decode(), rng.choice(["1", '"x"', '"a;b"', "007", "1.5", "true", '{"n":2}', "-3", '"' + rng.choice(UNI) + '"'])) for _ in range(rng.range(0, 3))) + "}")
        elif r == 6:
            parts.append(rng.choice(["REPLAY FOR c1", "REPLAY ev FOR \"c 1\" SINCE \"2024-01-01\"", "SHOW m1", "CREATE USER u1 WITH KEY \"k\"", "GRANT READ, WRITE ON e1, e2 TO u",
                                     "REVOKE KEY u", "SHOW PERMISSIONS FOR u", "REMEMBER QUERY e LIMIT 3 AS m", "REVOKE WRITE ON e FROM \"u" + rng.choice(UNI) + "\""]))
        else:
            parts.append(t_other(rng) if (depth > 0 and junk) else "PING")
    close = rng.choice(["]", " ]", "", "] trailing"]) if junk else rng.choice(["]", " ]", " ] "])
    return kwc(rng, "BATCH") + sp(rng, False) + "[" + sp(rng, False) + (sp(rng, False) + ";" + sp(rng, False)).join(parts) + close


def g_remember(rng):
    """(ast, name): REMEMBER QUERY <printed query> AS <name>, strings with non-ASCII text and ' AS ' inside"""
    q = g_query(rng, depth=rng.range(0, 2))
    tricky = lambda: ("x" + rng.choice(UNI) * rng.range(1, 4) + rng.choice(["", " AS y", " as " + rng.choice(UNI), " AS "]) + rng.choice(UNI)).encode("utf-8")
    which = rng.below(4)
    if which == 0:
        q["ctx"] = tricky()
    elif which == 1:
        q["where"] = ("C", g_field(rng), "eq", ("s", tricky()))
    elif which == 2:
        q["ret"] = [tricky(), b"plain"]
    else:
        q["since"] = tricky()
    if rng.chance(1, 2):
        q["limit"] = rng.choice([10, 100, 12345])
    name = rng.choice(["m1", "saved-q", "A_b", "x"])
    return q, name


# ---- HTTP JSON commands (src/frontend/http/json_command.rs): bodies, expected conversion, operand check
JOPS = {"eq": "eq", "==": "eq", "=": "eq", "neq": "neq", "!=": "neq", "<>": "neq", "gt": "gt", ">": "gt", "gte": "gte", ">=": "gte",
        "lt": "lt", "<": "lt", "lte": "lte", "<=": "lte"}


def j_leaf(rng, textable=True):
    f = g_field(rng).decode()
    if rng.chance(1, 5):
        vals = [j_val(rng, textable) for _ in range(rng.range(1, 3))]
        return {"field": f, "in": vals}
    op = rng.choice(["eq", "neq", "gt", "gte", "lt", "lte"]) if textable else rng.choice(list(JOPS))
    return {"field": f, "op": op, "value": j_val(rng, textable)}


def j_val(rng, textable=True):
    r = rng.below(10)
    if r < 4:
        return rng.choice([0, 1, -7, 42, 2 ** 31, -2 ** 63, 2 ** 63 - 1, rng.range(-10 ** 6, 10 ** 6)])
    if r < 8:
        return "".join(rng.choice("abcxyz 019_-.:;é" + rng.choice(UNI)) for _ in range(rng.range(0, 6)))
    if r < 9 or textable:
        return rng.choice([1.5, -0.25, 3.0, 10.125, 2.5])
    return rng.choice([True, False])


def j_tree(rng, depth, lens, textable=True):
    """a where tree: and/or lists with lengths drawn from `lens`, not, leaves"""
    r = rng.below(10)
    if depth <= 0 or r < 3:
        return j_leaf(rng, textable)
    if r < 5:
        return {"not": j_tree(rng, depth - 1, lens, textable)}
    key = rng.choice(["and", "or"])
    n = rng.choice(lens)
    return {key: [j_tree(rng, depth - 1, lens, textable) if rng.chance(1, 3) else j_leaf(rng, textable) for _ in range(n)]}


def j_canon_val(v):
    if isinstance(v, bool):
        return "bT" if v else "bF"
    if isinstance(v, int):
        return "i%d" % v if -2 ** 63 <= v < 2 ** 64 else None
    if isinstance(v, float):
        return "F" + struct.pack(">d", v).hex()
    if isinstance(v, str):
        return "s" + hb(v.encode("utf-8"))
    if v is None:
        return "jnull"
    return "jarr" if isinstance(v, list) else "jobj"


def j_conv(e):
    """From<JsonExpr> for Expr as documented: untagged Compare / In / Logical; and, then or, then not; a list is
    joined left to right.  Returns a canonical string, "ERR", or None (not decided here)."""
    if isinstance(e, list):
        return None
    if not isinstance(e, dict):
        return "ERR"
    if isinstance(e.get("field"), str) and isinstance(e.get("op"), str) and "value" in e:
        v = j_canon_val(e["value"])
        return None if v is None else "C(%s,%s,%s)" % (hb(e["field"].encode("utf-8")), JOPS.get(e["op"], "eq"), v)
    if isinstance(e.get("field"), str) and isinstance(e.get("in"), list):
        vs = [j_canon_val(v) for v in e["in"]]
        return None if None in vs else "I(" + hb(e["field"].encode("utf-8")) + "".join(";" + v for v in vs) + ")"
    parts = {}
    for k in ("and", "or"):
        x = e.get(k, [])
        if not isinstance(x, list):
            return "ERR"
        parts[k] = [j_conv(y) for y in x]
    nt = None
    if e.get("not") is not None:
        nt = j_conv(e["not"])
    allr = parts["and"] + parts["or"] + ([nt] if e.get("not") is not None else [])
    if "ERR" in allr:
        return "ERR"
    if None in allr:
        return None
    for k, c in (("and", "A"), ("or", "O")):
        if parts[k]:
            acc = parts[k][0]
            for y in parts[k][1:]:
                acc = "%s(%s,%s)" % (c, acc, y)
            return acc
    if nt is not None:
        return "N(" + nt + ")"
    return "C(-,eq,bF)"


def j_is_leaf(e):
    return isinstance(e.get("field"), str) and ((isinstance(e.get("op"), str) and "value" in e) or isinstance(e.get("in"), list))


def j_leaves(e, empties=False):
    """the operand leaves of a where tree, in order, as canonical strings (None: not a clean tree).  A logical object
    without any operand has no leaf; with `empties` it counts as the always-false comparison the conversion puts there."""
    if not isinstance(e, dict):
        return None
    if j_is_leaf(e):
        c = j_conv(e)
        return [c] if c and c != "ERR" else None
    out = []
    for k in ("and", "or"):
        for y in e.get(k, []) if isinstance(e.get(k, []), list) else []:
            l = j_leaves(y, empties)
            if l is None:
                return None
            out += l
    if e.get("not") is not None:
        l = j_leaves(e["not"], empties)
        if l is None:
            return None
        out += l
    if empties and not out and not any(e.get(k) for k in ("and", "or")) and e.get("not") is None:
        return ["C(-,eq,bF)"]
    return out


def canon_leaves(s):
    """leaves C(...) / I(...) of a canonical expression string, in order"""
    return re.findall(r"[CI]\([^()]*\)", s)


def j_to_text(rng, e):
    """the text query expression that denotes the same tree (None when not expressible)"""
    if "field" in e and "op" in e:
        v = e["value"]
        if isinstance(v, bool) or v is None or e["op"] not in ("eq", "neq", "gt", "gte", "lt", "lte"):
            return None
        if isinstance(v, str) and ('"' in v or "\\" in v):
            return None
        return ("C", e["field"].encode(), e["op"], ("s", v.encode("utf-8")) if isinstance(v, str) else ("i", v) if isinstance(v, int) else ("f", v < 0, *repr(abs(v)).split(".")))
    if "field" in e:
        vs = []
        for v in e["in"]:
            if isinstance(v, bool) or v is None or (isinstance(v, str) and ('"' in v or "\\" in v)):
                return None
            vs.append(("s", v.encode("utf-8")) if isinstance(v, str) else ("i", v) if isinstance(v, int) else ("f", v < 0, *repr(abs(v)).split(".")))
        return ("I", e["field"].encode(), vs)
    keys = [k for k in ("and", "or", "not") if e.get(k)]
    if len(keys) != 1:
        return None
    if keys[0] == "not":
        x = j_to_text(rng, e["not"])
        return None if x is None else ("N", x)
    xs = [j_to_text(rng, y) for y in e[keys[0]]]
    if None in xs:
        return None
    acc = xs[0]
    for y in xs[1:]:
        acc = ("A" if keys[0] == "and" else "O", acc, y)
    return acc


def j_query(rng, where, extra=True):
    q = {"type": "Query", "event_type": g_ident(rng).decode()}
    if where is not None:
        q[rng.choice(["where", "where", "where_clause"])] = where
    if extra:
        if rng.chance(1, 3):
            q["context_id"] = rng.choice(["c1", "ctx " + rng.choice(UNI), ""])
        if rng.chance(1, 4):
            q["since"] = "2024-01-01T00:00:00Z"
        if rng.chance(1, 4):
            q["time_field"] = g_field(rng).decode()
        if rng.chance(1, 3):
            q["limit"] = rng.choice([0, 1, 10, 2 ** 32 - 1])
        if rng.chance(1, 4):
            q["offset"] = rng.choice([0, 5, 2 ** 32 - 1])
        if rng.chance(1, 4):
            q["order_by"] = {"field": g_field(rng).decode(), "desc": rng.chance(1, 2)}
        if rng.chance(1, 6):
            q["comment"] = {"ignored": [1, 2, 3]}
    items = list(q.items())
    for i in range(len(items) - 1, 0, -1):
        j = rng.below(i + 1)
        items[i], items[j] = items[j], items[i]
    return dict(items)


def j_expect_query(q):
    w = q.get("where", q.get("where_clause"))
    wc = "~"
    if w is not None:
        wc = j_conv(w)
        if wc is None:
            return None
        if wc == "ERR":
            return "ERR"
    o = q.get("order_by")
    return "OK Q %s ctx=%s since=%s tf=%s stf=~ where=%s limit=%s offset=%s order=%s ret=~ link=~ aggs=~ tb=~ gb=~ seq=~" % (
        hb(q["event_type"].encode()), ho(q["context_id"].encode("utf-8")) if "context_id" in q else "~",
        ho(q["since"].encode()) if "since" in q else "~", ho(q["time_field"].encode()) if "time_field" in q else "~", wc,
        q.get("limit", "~"), q.get("offset", "~"), "~" if o is None else hb(o["field"].encode()) + ":" + ("d" if o["desc"] else "a"))


def j_text_query(rng, q):
    """QUERY text equivalent to a JSON query (None when not expressible in the text grammar)"""
    w = q.get("where", q.get("where_clause"))
    t = None
    if w is not None:
        t = j_to_text(rng, w)
        if t is None:
            return None
    if "context_id" in q and ('"' in q["context_id"]):
        return None
    s = "QUERY " + q["event_type"]
    if "context_id" in q:
        s += ' FOR "%s"' % q["context_id"]
    if "since" in q:
        s += ' SINCE "%s"' % q["since"]
    if "time_field" in q:
        s += " USING " + q["time_field"]
    if t is not None:
        s += " WHERE " + pr_expr(rng, t)
    if "order_by" in q:
        s += " ORDER BY %s %s" % (q["order_by"]["field"], "DESC" if q["order_by"]["desc"] else "ASC")
    if "limit" in q:
        s += " LIMIT %d" % q["limit"]
    if "offset" in q:
        s += " OFFSET %d" % q["offset"]
    return s


MUT_ALPHA = list(" \t\n\"'()[]{},;:=<>!.-_\\*/+0123456789") + ["NOT ", " AND ", " OR ", "(", ")", "é", " ", "🚀", "\"", "\""]


def mutate(rng, s):
    for _ in range(rng.range(1, 3)):
        op = rng.below(6)
        pos = rng.below(len(s) + 1)
        if op == 0 and s:
            pos = min(pos, len(s) - 1)
            s = s[:pos] + s[pos + 1:]
        elif op == 1:
            s = s[:pos] + rng.choice(MUT_ALPHA) + s[pos:]
        elif op == 2 and s:
            pos = min(pos, len(s) - 1)
            s = s[:pos] + rng.choice(MUT_ALPHA) + s[pos + 1:]
        elif op == 3:
            s = s[:pos] + s[pos:pos + rng.range(1, 4)] + s[pos:]
        elif op == 4:
            s = s[:pos]
        else:
            # replace one number by an out-of-range one
            ms = list(re.finditer(r"-?\d+(\.\d+)?", s))
            if ms:
                m = rng.choice(ms)
                s = s[:m.start()] + rng.choice(["4294967296", "-1", "99999999999999999999", "-9223372036854775809", "9223372036854775808",
                                                "9" * 310 + ".5", "18446744073709551616", "00000000000000000000001", "-0"]) + s[m.end():]
    return s


def cases(rng, tier):
    big = tier != "quick"
    out = []

    def add(kind, line, show=None, **kw):
        c = {"kind": kind, "line": line, "show": show}
        c.update(kw)
        out.append(c)

    def addt(kind, text, probe="parse_cmd", **kw):
        b = text.encode("utf-8", "replace") if isinstance(text, str) else text
        add(kind, f"{probe} {hx(b)}", show=(b[:200].decode("utf-8", "replace") + ("..." if len(b) > 200 else "")), **kw)

    # (rt) printed well-formed ASTs, every keyword casing
    for i in range(150000 if big else 900):
        q = g_query(rng)
        mode = rng.below(3)
        add("rt", None, show=None, ast_line="parse_print %d %s" % (mode, " ".join(enc_query(q))), expect="OK " + canon_query(q))
    # deeper expressions, still printed by the model
    for i in range(2000 if big else 60):
        q = g_query(rng, depth=rng.range(5, 7))
        add("rt", None, ast_line="parse_print %d %s" % (rng.below(3), " ".join(enc_query(q))), expect="OK " + canon_query(q))
    # (rtrem / rtfind) the printed query inside REMEMBER ... AS name (strings with non-ASCII text whose case mapping
    # changes length, and with ' AS ' inside) and under the FIND head
    for i in range(6000 if big else 260):
        q, name = g_remember(rng)
        add("rtrem", None, ast_line="parse_print %d %s" % (rng.below(3), " ".join(enc_query(q))),
            wrap=[kwc(rng, "REMEMBER") + sp(rng), rng.choice([" ", "  ", "\t "]) + kwc(rng, "AS") + rng.choice([" ", "  ", " \n"]) + name + rng.choice(["", " ", "\n"])],
            expect="OK M %s %s" % (hb(name.encode()), canon_query(q)))
    for i in range(2000 if big else 80):
        q = g_query(rng, depth=2)
        add("rtfind", None, ast_line="parse_print %d %s" % (rng.below(3), " ".join(enc_query(q))), head=kwc(rng, "FIND"),
            expect="OK " + canon_query(q))
    # (plot) PLOT commands printed by the generator itself, with the command they must parse to
    for i in range(40000 if big else 900):
        pl = g_plot(rng)
        txt = pr_plot(rng, pl)
        addt("plot", txt, expect=canon_plot(pl))
        if rng.chance(1, 3):
            addt("plotmut", mutate(rng, txt))
    # (define) / (batch)
    for i in range(20000 if big else 300):
        txt, exp = g_define(rng)
        addt("define", txt, expect=exp)
        addt("definemut", t_define(rng) if rng.chance(1, 2) else mutate(rng, txt))
    for i in range(20000 if big else 400):
        addt("batch", t_batch(rng))
    # (rtkw) the same with identifiers whose leading letters spell a keyword: valid identifiers of the grammar
    for i in range(3000 if big else 120):
        q = g_query(rng, depth=1)
        which = rng.below(5)
        kid = lambda: g_ident(rng, True)
        if which == 0:
            q["where"] = ("C", kid(), rng.choice(OPS), g_value(rng))
        elif which == 1:
            q["tf"] = kid()
        elif which == 2:
            q["aggs"] = [(rng.choice(AGGK[1:]), kid())]
        elif which == 3:
            q["gb"] = [kid()]
        else:
            q["order"] = (kid(), False)
        add("rtkw", None, ast_line="parse_print 0 " + " ".join(enc_query(q)), expect="OK " + canon_query(q))
    # (grammar) free-form texts
    for i in range(300000 if big else 1500):
        addt("grammar", t_query(rng))
    for i in range(150000 if big else 900):
        addt("other", t_other(rng))
    # (mut) mutations
    for i in range(400000 if big else 1800):
        base_ = t_query(rng) if rng.chance(2, 3) else t_other(rng)
        addt("mut", mutate(rng, base_))
    # (num) numeric terminals
    lim = [0, 1, 2 ** 31, 2 ** 32 - 1, 2 ** 32, 2 ** 32 + 1, 2 ** 63, 2 ** 64, 10 ** 30, -1, -0, -5]
    for n in lim:
        for k in ("LIMIT", "OFFSET", "limit", "Offset"):
            addt("num", f"QUERY e {k} {n}" if n != 0 or k != "Offset" else "QUERY e OFFSET -0")
    ints = [2 ** 63 - 1, 2 ** 63, -2 ** 63, -2 ** 63 - 1, 10 ** 19, -10 ** 19, 99999999999999999999, 2 ** 64, 10 ** 40, 0, -0]
    for z in ints:
        addt("num", f"QUERY e WHERE x = {z}")
        addt("num", f"FIND e WHERE x IN (1, {z})")
        addt("num", f"REMEMBER QUERY e WHERE NOT x >= {z} AS m1")
    thr = 2 ** 1024 - 2 ** 970
    for v in (thr - 1, thr, thr + 1, 10 ** 308, 2 * 10 ** 308, 10 ** 309, 10 ** 400):
        for fr in ("0", "5", "999"):
            addt("num", f"QUERY e WHERE x = {v}.{fr}")
            addt("num", f"QUERY e WHERE x < -{v}.{fr}")
    addt("num", "QUERY e WHERE x = " + "0" * 400 + "1.5")
    addt("num", "QUERY e WHERE x = 0." + "0" * 400 + "1")
    for i in range(3000 if big else 150):
        z = rng.choice([rng.range(2 ** 32 - 3, 2 ** 32 + 3), rng.range(2 ** 63 - 3, 2 ** 63 + 3), -rng.range(2 ** 63 - 3, 2 ** 63 + 3), rng.below(10 ** rng.range(1, 30))])
        addt("num", rng.choice(["QUERY e LIMIT %d", "QUERY e OFFSET %d", "QUERY e WHERE a = %d", "QUERY e WHERE a IN (%d)", "QUERY e LIMIT 5 OFFSET %d", "QUERY e WHERE a = 1 LIMIT %d"]) % z)
    # (nest) nesting
    for d in list(range(1, 8)) + ([9, 10] if big else []):
        addt("nest", "QUERY e WHERE " + "(" * d + "a = 1" + ")" * d)
        addt("nest", "QUERY e WHERE " + "(" * d + "a = 1 OR b = 2" + ")" * d + " AND c = 3")
        addt("nest", "QUERY e WHERE " + "(" * d + "a = 1" + ")" * (d - 1))
        addt("nest", "QUERY e WHERE " + "( NOT " * d + "a" + " )" * d)
    # the families on which the grammar took 4^depth / 2^n rule calls before 04c7300, each under its own time
    # budget (parse_cmdt <ms>): answered in milliseconds now; TIMEOUT = the exponential behaviour is back
    TB = "parse_cmdt 1500"
    for d in ((11, 13, 16, 40, 200) if not big else (11, 12, 13, 14, 16, 20, 40, 200, 1000, 5000)):
        addt("nest", "QUERY e WHERE " + "(" * d + "a = 1" + ")" * d, probe=TB)
        addt("nest", "QUERY e WHERE " + "(" * d + "a = 1" + ")" * (d - 1), probe=TB)
        addt("nest", "FIND e WHERE " + "( NOT " * d + "a" + " )" * d + " OR b", probe=TB)
        addt("nest", "PLOT COUNT OF e FILTER " + "(" * d + "a = 1" + ")" * d, probe=TB)
    addt("nest", "REMEMBER QUERY e WHERE " + "(" * 15 + "a = 1" + ")" * 15 + " AS m", probe=TB)
    addt("nest", "BATCH [ QUERY e WHERE " + "(" * 15 + "a = 1" + ")" * 15 + " ]", probe=TB)
    for n in (10, 100, 400, 1000, 3000, 8000, 30000) + ((100000,) if big else ()):
        addt("nest", "QUERY e WHERE " + "NOT " * n + "a = 1")
    addt("nest", "QUERY e WHERE " + "not\n" * 9000 + "(a)")
    for n in (1, 5, 10, 14) + ((18, 20) if big else ()):
        addt("nest", "STORE e FOR c PAYLOAD " + "{" * n)
        addt("nest", "STORE e FOR c PAYLOAD " + "{" * n + "}" * (n - 1))
    for n in ((26, 34, 60, 1000) if not big else (26, 30, 34, 60, 1000, 4000)):
        addt("nest", "STORE e FOR c PAYLOAD " + "{" * n, probe=TB)
        addt("nest", "STORE e FOR c PAYLOAD " + "{" * n + "}" * (n - 1), probe=TB)
        addt("nest", "STORE e FOR c PAYLOAD " + '{"a":"' * n, probe=TB)
    for n in (3, 50, 500, 3000, 20000) + ((200000,) if big else ()):
        addt("nest", "STORE e FOR c PAYLOAD " + '{"a":' * n + "1" + "}" * n)
    # STORE: braces / quotes / backslashes inside and outside string literals (fced25a), '+' (b3737c8)
    for body in ['{"a":"}"}', '{"a":"{"}', '{"a":"}{"}', '{"a":"x\\"}"}', '{"a":"x\\\\"}', '{"a":"x\\\\"}"}', '{"a":"x}', '{"a":"x\\"}', '{"a":1e+16}',
                 '{"a":+1}', '{"a":"}","b":{"c":"{"}}', '{"}":"{"}', '{"a":"\\u007d"}', '{"a":"é}"}', '{"a":"\\é}"}', '{"a":"x\\', '{"a":["}",{"b":"{"}]}',
                 '{"a":"}"} x', '{"a":"}"}}', '{"a":\'}\'}', '{"a":"}" "}"}', '{""}"}', '{"a":"b"c"}"}']:
        addt("nest", "STORE e FOR c PAYLOAD " + body)
        addt("nest", "STORE e FOR \"c}\" PAYLOAD " + body)
    # escape sequences inside quoted strings, in commands that are tokenised as a whole before they are routed
    for esc in ESCAPES:
        addt("nest", 'STORE e FOR c PAYLOAD {"text":"hi ' + esc + '"}')
        addt("nest", 'CREATE USER bob WITH KEY "k' + esc + '"')
        addt("nest", 'QUERY e FOR "c' + esc + '" WHERE s = "v' + esc + 'w"')
        addt("nest", 'REPLAY FOR "' + esc + '"')
    for t in ["QUERY e WHERE x = +3", "QUERY e LIMIT +3", "PING +", "QUERY e WHERE a = 1 + 2", "QUERY e FOR \"a+b\"", "CREATE USER a+b", "SHOW + x"]:
        addt("nest", t)
    for n in (100, 20000):
        addt("nest", "QUERY e WHERE a IN (" + ",".join(["1"] * n) + ")")
        addt("nest", "QUERY e WHERE " + " AND ".join(["a = 1"] * n))
        addt("nest", "QUERY e WHERE " + " OR ".join(["a = 1"] * n))
        addt("nest", "QUERY e " + " ".join(["LIMIT 1"] * n))
        addt("nest", "CREATE USER u WITH ROLES [" + ",".join(["r"] * n) + "]")
        addt("nest", "BATCH [" + ";".join(["PING"] * n) + "]")
    # (trim) every White_Space code point (and near misses) before, after and inside commands
    wsp = ["\t", "\n", "\x0b", "\x0c", "\r", " ", "\x85", "\xa0", "\u1680", "\u2000", "\u2001", "\u2002", "\u2003", "\u2004",
           "\u2005", "\u2006", "\u2007", "\u2008", "\u2009", "\u200a", "\u2028", "\u2029", "\u202f", "\u205f", "\u3000",
           "\x1c", "\x1f", "\u180e", "\u200b", "\u2060", "\ufeff", "\x00", "\x7f"]
    tbase = ["PING", "QUERY e LIMIT 1", "QUERY e FOR \"c\"", "REMEMBER QUERY e AS m", "REPLAY FOR c", "SHOW m", "STORE e FOR c PAYLOAD {\"a\":1}",
             "QUERY e WHERE a = \"x\"", "LIST USERS", "CREATE USER u"]
    for w in wsp:
        for t in tbase:
            addt("trim", w + t)
            addt("trim", t + w)
        addt("trim", "QUERY" + w + "e")
        addt("trim", "QUERY e FOR \"a" + w + "\"")
        addt("trim", "REMEMBER" + w + "QUERY e AS m")
        addt("trim", "REMEMBER QUERY e" + w + "AS m")
        addt("trim", "REMEMBER QUERY e AS" + w + "m")
        addt("trim", "REMEMBER QUERY e FOR \"x" + w + " AS y\" AS m" + w)
        addt("trim", w + w + "FLUSH" + w + w)
    # (rand)
    words = KEYWORDS + OTHER_WORDS
    for i in range(200000 if big else 1200):
        r = rng.below(4)
        if r == 0:
            b = bytes(rng.below(256) for _ in range(rng.range(0, 40))).decode("utf-8", "replace")
        elif r == 1:
            b = "".join(chr(rng.range(32, 126)) for _ in range(rng.range(0, 60)))
        elif r == 2:
            b = " ".join(rng.choice([kwc(rng, rng.choice(words)), g_ident(rng, rng.chance(1, 4)).decode(), t_value(rng), rng.choice("()[]{},;=<>!")]) for _ in range(rng.range(1, 12)))
        else:
            b = kwc(rng, rng.choice(words)) + " " + "".join(rng.choice("abAB_-. ,\"'()[]{}=<>!:;0123456789\\\t\n") for _ in range(rng.range(0, 30)))
        addt("rand", b)
    # (json) HTTP JSON commands
    jbase = ['{"type":"Ping"}', '{"type":"Flush"}', '{"type":"Query","event_type":"e","where":{"field":"a","op":"eq","value":1},"limit":4294967296}',
             '{"type":"Query","event_type":"e","limit":-1}', '{"type":"Query","event_type":"e","where":{"and":[{"field":"a","op":"??","value":1}]}}',
             '{"type":"Query","event_type":"e","where":{"not":{"not":{"field":"a","in":[1,2]}}}}', '{"type":"Query","event_type":"e","where":{}}',
             '{"type":"Store","event_type":"e","context_id":"c","payload":{"a":1}}', '{"type":"Batch"}', '{"type":"Replay","context_id":"c"}',
             '{"type":"Define","event_type":"e","version":1,"schema":{"fields":{"a":"int","b":["x","y"]}}}', '{"type":"Nope"}', '[]', '{', '']
    for j in jbase:
        addt("json", j, probe="parse_json")
    for d in (5, 60, 127, 128, 200, 3000, 100000):
        addt("json", '{"type":"Query","event_type":"e","where":' + '{"not":' * d + '{"field":"a","op":"eq","value":1}' + "}" * d + "}", probe="parse_json")
        addt("json", '{"type":"Store","event_type":"e","context_id":"c","payload":' + "[" * d + "]" * d + "}", probe="parse_json")
    for i in range(2000 if big else 200):
        addt("json", mutate(rng, rng.choice(jbase[:11])), probe="parse_json")
    # (jsonlen / jsonq / jsonbad / jsonkinds) the HTTP JSON endpoint, compared structurally
    def addj(kind, body, **kw):
        txt = json.dumps(body, ensure_ascii=rng.chance(1, 4)) if not isinstance(body, str) else body
        addt(kind, txt, probe="parse_json", **kw)

    def addq(kind, q):
        exp = j_expect_query(q)
        w = q.get("where", q.get("where_clause"))
        lv = j_leaves(w) if isinstance(w, dict) else None
        te = j_text_query(rng, q) if exp and exp.startswith("OK") else None
        addj(kind, q, expect=exp, leaves=lv, text_equiv=te)

    for n in range(0, 18):                       # and / or lists of every length 0..17
        for key in ("and", "or"):
            addq("jsonlen", j_query(rng, {key: [j_leaf(rng) for _ in range(n)]}, extra=False))
            addq("jsonlen", j_query(rng, {key: [j_tree(rng, 1, [1, 2, 3, 5]) if rng.chance(1, 3) else j_leaf(rng) for _ in range(n)]}))
            addq("jsonlen", j_query(rng, {"not": {key: [{"not": j_leaf(rng)} if rng.chance(1, 4) else j_leaf(rng) for _ in range(n)]}}, extra=False))
            if big:
                for _ in range(20):
                    addq("jsonlen", j_query(rng, {key: [j_tree(rng, 2, list(range(0, 18))) for _ in range(n)]}))
    for i in range(20000 if big else 400):
        addq("jsonq", j_query(rng, j_tree(rng, rng.range(0, 3), [1, 2, 3, 4, 5, 6, 7, 9, 12, 17], textable=rng.chance(2, 3)) if rng.chance(9, 10) else None))
    A = {"field": "a", "op": "eq", "value": 1}
    Bq = {"field": "b", "op": "gt", "value": "x"}
    bad_wheres = [{}, {"and": []}, {"or": []}, {"and": [], "or": [], "not": None}, {"and": A}, {"and": None}, {"or": "x"}, {"and": [A, 5]}, {"and": [A, None]},
                  {"and": [A, []]}, {"and": [A], "or": [Bq]}, {"and": [A], "not": Bq}, {"or": [A], "not": Bq}, {"and": [], "or": [Bq], "not": A},
                  {"field": "a", "op": "eq", "value": 1, "and": [Bq]}, {"field": "a", "in": [1], "or": [Bq]}, {"field": "a", "op": "eq"}, {"field": 5, "op": "eq", "value": 1},
                  {"field": "a", "op": "like", "value": 1}, {"field": "a", "op": "EQ", "value": 1}, {"field": "a", "op": "", "value": 1}, {"field": "a", "op": 5, "value": 1},
                  {"field": "a", "in": 5}, {"field": "a", "in": []}, {"field": "a", "in": [None, [1], {"k": 1}]}, {"field": "a", "op": "eq", "value": None},
                  {"field": "a", "op": "eq", "value": [1, 2]}, {"not": None}, {"not": 5}, {"not": []}, {"not": {"not": {"not": A}}}, {"unknown": 1}, ["a", "eq", 1], [[A], [], None],
                  "x", 5, True, {"and": [{"and": [{"and": []}]}]}, {"and": [A, {"or": []}]}, {"field": "a", "op": "eq", "value": 18446744073709551616},
                  {"field": "a", "op": "eq", "value": 1e400}, {"field": "a", "op": "eq", "value": -0.0}]
    for w in bad_wheres:
        q = {"type": "Query", "event_type": "e", "where": w}
        exp = j_expect_query(q) if not isinstance(w, (list, float)) and "Infinity" not in json.dumps(w) and "-0.0" not in json.dumps(w) else None
        addj("jsonbad", q, expect=exp, leaves=(j_leaves(w) if isinstance(w, dict) and exp is not None else None), strict_ops=True)
    bad_bodies = ['{"type":"Query","event_type":"e","where":%s,"where_clause":%s}' % (json.dumps(A), json.dumps(Bq)), '{"type":"Query","event_type":"e","limit":5.0}',
                  '{"type":"Query","event_type":"e","limit":1e1}', '{"type":"Query","event_type":"e","limit":-1}', '{"type":"Query","event_type":"e","limit":4294967296}',
                  '{"type":"Query","event_type":"e","limit":"5"}', '{"type":"Query","event_type":"e","offset":null,"limit":null,"where":null,"order_by":null,"context_id":null}',
                  '{"type":"Query","event_type":"e","order_by":{"field":"f"}}', '{"type":"Query","event_type":"e","order_by":{"field":"f","desc":"yes"}}',
                  '{"type":"Query","event_type":"e","order_by":["f",false]}', '{"type":"Query","type":"Ping","event_type":"e"}', '{"type":"Query"}', '{"type":"Query","event_type":5}',
                  '{"type":"query","event_type":"e"}', '{"event_type":"e"}', '{"type":null}', '{"type":"Batch"}', '{"type":"Batch","0":[{"type":"Ping"}]}', '["Ping"]', '["Query","e"]',
                  '{"type":"Ping","x":1}', '{"type":"Flush"}', '{"type":"Replay","context_id":"c"}', '{"type":"Replay","event_type":"e","context_id":"c","since":"s","time_field":"t"}',
                  '{"type":"Replay"}', '{"type":"Replay","context_id":5}', '{"type":"Store","event_type":"e","context_id":"c","payload":[1,{"a":null}]}',
                  '{"type":"Store","event_type":"e","context_id":"c","payload":{"k":"v\u00e9","n":-3,"f":2.5,"t":true}}', '{"type":"Store","event_type":"e","context_id":"c"}',
                  '{"type":"Define","event_type":"e","schema":{"fields":{"a":"int","b":[],"c":["x","y"]}}}', '{"type":"Define","event_type":"e","version":7,"schema":{"fields":{"a":"int"}}}',
                  '{"type":"Define","event_type":"e","version":null,"schema":{"fields":{"a":1}}}', '{"type":"Define","event_type":"e","schema":{"fields":{"a":["x",1]}}}',
                  '{"type":"Define","event_type":"e","schema":{}}', '{"type":"Define","event_type":"e","schema":{"fields":{}}}', '{"type":"Query","event_type":"e","where":{"field":"a","field":"b","op":"eq","value":1}}',
                  ' {"type" : "Ping"} ', '{"type":"Ping"} x', '{"type":"Ping",}', "{'type':'Ping'}", '{"type":"P\u0069ng"}', '{"type":"Query","event_type":"\ud83d\ude80","where":{"field":"a","op":"=","value":"\n"}}']
    for b in bad_bodies:
        addj("jsonkinds", b)
    # (disp) engine-level dispatch
    for k in KINDS16:
        add("kind", f"parse_kind {k}", show=k)
    dl = ["PING", "FLUSH", "DEFINE c17ev FIELDS { \"a\": \"int\", \"s\": \"string\" }", "STORE c17ev FOR c1 PAYLOAD {\"a\":1,\"s\":\"x\"}",
          "QUERY c17ev WHERE a = 1", "QUERY nosuch", "REPLAY FOR c1", "REPLAY c17ev FOR c1 SINCE \"2020-01-01\"", "REMEMBER QUERY c17ev AS c17mem",
          "SHOW c17mem", "SHOW nosuch", "LIST USERS", "CREATE USER c17bob", "REVOKE KEY c17bob", "GRANT READ ON c17ev TO c17bob",
          "REVOKE READ ON c17ev FROM c17bob", "SHOW PERMISSIONS FOR c17bob", "PLOT COUNT OF c17ev", "PLOT COUNT OF c17ev VS COUNT OF nosuch",
          "BATCH [ PING ]", "BATCH [ STORE c17ev FOR c1 PAYLOAD {\"a\":2,\"s\":\"y\"}; QUERY c17ev ]", "QUERY c17ev COUNT BY s", "QUERY c17ev ORDER BY a DESC LIMIT 0",
          "QUERY c17ev FOLLOWED BY c17ev LINKED BY a", "QUERY c17ev WHERE a IN ()", "QUERY c17ev PER DAY COUNT", "STORE nosuch FOR c PAYLOAD {}"]
    for t in dl:
        addt("disp", t, probe="parse_disp")
    for i in range(1500 if big else 150):
        addt("disp", t_query(rng) if rng.chance(1, 2) else t_other(rng), probe="parse_disp")
    return out


def corpus():
    return base.corpus_for(PROP)


# ------------------------------------------------------------------ running
def _model_lines(lines, tmo=1500):
    """The extracted model recurses as deep as the input nests; give it the stack (a resource of the runner, not of the model)."""
    return vlib.run_lines("/bin/sh", ["-c", f"ulimit -s unlimited 2>/dev/null || ulimit -s 4000000 2>/dev/null; exec {vlib.MODEL_RUN}"], lines, timeout=tmo)


def run_sides(cases_, model_ok):
    # phase 1: texts that are the model's print of an AST
    todo = [c for c in cases_ if not c.get("line") and c.get("ast_line")]
    if todo:
        outs = vlib.run_lines(vlib.MODEL_RUN, [], [c["ast_line"] for c in todo], timeout=900) if model_ok else [None] * len(todo)
        wfs = vlib.run_lines(vlib.MODEL_RUN, [], ["parse_wf " + c["ast_line"].split(" ", 2)[2] for c in todo], timeout=900) if model_ok else ["WF"] * len(todo)
        for c, o, w in zip(todo, outs, wfs):
            if c["kind"] in ("rt", "rtrem", "rtfind") and w != "WF":
                c["line"] = "parse_cmd -"
                c["print_failed"] = f"generated AST is not wf_query: {w}"
            elif o and re.fullmatch(r"-|[0-9a-f]+", o):
                body = unhx(o)
                if c.get("head"):          # QUERY -> FIND
                    body = c["head"].encode() + body[5:]
                if c.get("wrap"):
                    body = c["wrap"][0].encode("utf-8") + body + c["wrap"][1].encode("utf-8")
                c["line"] = "parse_cmd " + hx(body)
                c["show"] = body.decode("utf-8", "replace")
            else:
                c["line"] = "parse_cmd -"
                c["print_failed"] = o
    lines = [c["line"] for c in cases_]
    # the text query equivalent to a JSON query goes through the real text parser too (oracle: both give the same command)
    twins = [(i, "parse_cmd " + hx(c["text_equiv"].encode("utf-8"))) for i, c in enumerate(cases_) if c.get("text_equiv")]
    if twins:
        tw = vlib.run_lines(vlib.VHARN, ["fn"], [l for _, l in twins], timeout=900)
        for (i, _), r in zip(twins, tw):
            cases_[i]["_impl_text"] = r
    eng = [i for i, l in enumerate(lines) if l.startswith(("parse_disp", "parse_kind"))]
    fn = [i for i, l in enumerate(lines) if i not in set(eng)]
    impl = [None] * len(lines)
    env = {"VERIF_PARSE_LIMIT_MS": os.environ.get("VERIF_PARSE_LIMIT_MS", "4000")}
    r1 = vlib.run_lines(vlib.VHARN, ["fn"], [lines[i] for i in fn], timeout=1500, env=env)
    for i, r in zip(fn, r1):
        impl[i] = r
    r2 = vlib.run_lines(vlib.VHARN, ["fn"], [lines[i] for i in eng], timeout=1500, shards=2, env=env)
    for i, r in zip(eng, r2):
        impl[i] = r
    model = _model_lines(lines) if model_ok else [None] * len(lines)
    for c, m in zip(cases_, model):
        c["_model"] = m
    return impl, model


class _BadJson(Exception):
    pass


def _strict_json(b):
    def const(x):
        raise _BadJson(x)
    try:
        s = b.decode("utf-8")
    except UnicodeDecodeError:
        raise _BadJson("utf8")
    try:
        v = json.loads(s, parse_constant=const)
    except (ValueError, RecursionError) as e:
        raise _BadJson(str(e))
    def norm(x):
        if isinstance(x, float):
            if math.isinf(x) or math.isnan(x):
                raise _BadJson("range")
            return x
        if isinstance(x, bool) or x is None:
            return x
        if isinstance(x, int):
            return float(x) if not (-2 ** 63 <= x < 2 ** 64) else x
        if isinstance(x, str):
            try:
                x.encode("utf-8")
            except UnicodeEncodeError:
                raise _BadJson("surrogate")
            return x
        if isinstance(x, list):
            return [norm(y) for y in x]
        return {k: norm(y) for k, y in x.items()}
    return norm(v)


def _norm_floats(m):
    return re.sub(r"\bf(-?\d+\.\d+)", lambda mm: "F" + fbits(mm.group(1)), m)


_S_RE = re.compile(r"\bS ([0-9a-f]+|-) ([0-9a-f]+|-) ([0-9a-f]+)")


def _norm_stores(line):
    """STORE payloads inside BATCH renderings: compare as parsed JSON"""
    def rep(m):
        try:
            v = _strict_json(unhx(m.group(3)))
            return "S %s %s J%s" % (m.group(1), m.group(2), json.dumps(v, sort_keys=True))
        except _BadJson:
            return "S %s %s INVALIDJSON" % (m.group(1), m.group(2))
    return _S_RE.sub(rep, line)


def same(c, impl, model):
    if model is None:
        return True
    if model.startswith("OK B") and c["line"].startswith("parse_cmd"):
        nm = _norm_stores(_norm_floats(model))
        if "INVALIDJSON" in nm:
            return impl == "ERR"
        return impl is not None and _norm_stores(impl) == nm
    if impl in ("ABORT", "TIMEOUT"):
        return True          # resource exhaustion: always reported by the oracle, never by the model
    if model.startswith("DOMAIN|") and c["line"].startswith("parse_cmd"):
        # non-ASCII outside string literals: the tokenizer either rejects the input or the grammar's result stands
        if impl == "ERR":
            return True
        c2 = dict(c)
        return same(c2, impl, model[7:])
    if model in ("DOMAIN", "UNMODELLED") or model.startswith("UNMODELLED"):
        return True          # outside the model's domain: totality oracle only
    if c["line"].startswith("parse_disp") and model.startswith(("BRESP ", "BPANIC ")):
        if "INVALIDJSON" in _norm_stores(model):
            return impl == "NOPARSE"
        return impl == ("RESP" if model.startswith("BRESP ") else "PANIC")
    if c["line"].startswith("parse_disp") and model.startswith("S "):
        try:
            _strict_json(unhx(model[2:]))
            return impl == "RESP"
        except _BadJson:
            return impl == "NOPARSE"
    if model.startswith("PANIC"):
        return impl == "PANIC"
    if model.startswith("OK S ") and c["line"].startswith(("parse_cmd", "parse_json")):
        mt = model.split(" ")
        raw = unhx(mt[4])
        if raw.count(b"{") + raw.count(b"[") > 400:
            # CPython's json recurses; beyond this depth only the envelope is compared
            it = (impl or "").split(" ")
            return impl == "ERR" or (len(it) == 5 and it[:4] == mt[:4])
        try:
            mv = _strict_json(unhx(mt[4]))
        except _BadJson:
            return impl == "ERR"
        it = (impl or "").split(" ")
        if len(it) != 5 or it[:4] != mt[:4]:
            return False
        try:
            return _strict_json(unhx(it[4])) == mv
        except _BadJson:
            return False
    return impl == _norm_floats(model)


def _text(c):
    t = c["line"].split(" ")
    if t[0] == "parse_cmdt":
        t = t[1:]
    try:
        return unhx(t[1]) if len(t) > 1 else b""
    except ValueError:
        return b""


def oracle(c, impl):
    """Totality: the implementation must answer (a command or an error; a response when dispatched).
    Structure: the real parser applied to the print of a well-formed AST returns that AST."""
    if c.get("print_failed") is not None:
        return f"the model could not print the AST ({c['print_failed']})"
    if impl in ("PANIC", "ABORT", "TIMEOUT", "IOERR", "EMPTY", "CANCELLED", "NOCHILD", None):
        return f"{c['line'].split(' ')[0]} is not total: {impl} on {c.get('show')!r}"
    line = c["line"]
    if line.startswith(("parse_disp", "parse_kind")) and impl not in ("RESP", "NOPARSE"):
        return f"dispatch gave {impl} on {c.get('show')!r}"
    exp = c.get("expect")
    if exp is not None and impl != exp:
        if line.startswith("parse_json"):
            return f"the JSON body {c.get('show')!r} was converted to {impl}, expected {exp}"
        return f"parse(print c) != c for {c.get('show')!r}: got {impl}, expected {exp}"
    if line.startswith("parse_json") and impl and impl.startswith("OK Q "):
        m = re.search(r" where=(\S+) ", impl)
        got = canon_leaves(m.group(1)) if m else []
        if c.get("leaves") is not None and got != c["leaves"]:
            return (f"the JSON where tree of {c.get('show')!r} has the operands {c['leaves']} but the converted command mentions {got}: "
                    "operands dropped, repeated or reordered")
        if c.get("strict_ops") and re.search(r'"op": "(?!(?:eq|==|=|neq|!=|<>|gt|>|gte|>=|lt|<|lte|<=)")[^"]*"', _text(c).decode("utf-8", "replace")):
            return f"an unknown comparison operator was converted to a command instead of being rejected: {c.get('show')!r} -> {impl}"
        if c.get("_impl_text") is not None and c["_impl_text"] != impl:
            return (f"the JSON body {c.get('show')!r} and the equivalent text query {c.get('text_equiv')!r} give different commands: "
                    f"{impl} vs {c['_impl_text']}")
    return None


def _max_paren_depth(b):
    d = md = 0
    for ch in b:
        if ch == 40:
            d += 1
            md = max(md, d)
        elif ch == 41 and d > 0:
            d -= 1
    return md


def classify(c, impl):
    line = c["line"]
    m = c.get("_model") or ""
    if m.startswith("DOMAIN|"):
        m = m[7:]
    b = _text(c)
    up = b.strip().upper()
    if line.startswith("parse_kind"):
        return "BatchDispatchUnreachable" if impl == "PANIC" and line.endswith(" Batch") and m == "PANIC" else None
    if m.startswith("BPANIC "):
        m = "PANIC"
    if line.startswith("parse_disp"):
        if impl == "PANIC" and up.startswith(b"BATCH"):
            return "BatchDispatchUnreachable"
        return None
    if line.startswith("parse_json") and impl == "ABORT":
        b = _text(c)
        d = md = 0
        for ch in b:
            if ch in (123, 91):
                d += 1
                md = max(md, d)
            elif ch in (125, 93) and d > 0:
                d -= 1
        return "JsonDeepNestingStackOverflow" if md >= 1500 else None
    if line.startswith("parse_json") and impl and impl.startswith("OK Q "):
        if c.get("expect") is not None and impl != c["expect"]:
            return None                                  # not the documented conversion: never a known class
        if c.get("_impl_text") is not None and c["_impl_text"] != impl:
            return None
        try:
            q = json.loads(_text(c).decode("utf-8"))
            w = q.get("where", q.get("where_clause"))
        except Exception:
            w = None
        if isinstance(w, dict):
            def multi(e):
                if not isinstance(e, dict):
                    return False
                logical = [k for k in ("and", "or", "not") if e.get(k)]
                if len(logical) > 1 or (logical and "field" in e and ("in" in e or ("op" in e and "value" in e))):
                    return True
                return any(multi(y) for k in ("and", "or") for y in (e.get(k) if isinstance(e.get(k), list) else [])) or multi(e.get("not"))
            if multi(w):
                return "JsonLogicalExtraKeysDropped"
            m = re.search(r" where=(\S+) ", impl)
            got = canon_leaves(m.group(1)) if m else []
            if c.get("leaves") is not None and got != c["leaves"]:
                # the only known reason: operand-less logical objects, each replaced by the always-false comparison
                if got == j_leaves(w, empties=True):
                    return "JsonEmptyLogicalAlwaysFalse"
                return None
            if c.get("strict_ops"):
                return "JsonUnknownOpBecomesEq"
        return None
    if line.startswith("parse_cmd"):
        # (the numeric-conversion panics were repaired by 57cd0c4: a PANIC of parse_cmd has no known class any more)
        # (exponential re-parsing was repaired by 04c7300: a TIMEOUT has no known class any more)
        if impl == "ABORT":
            if up.startswith((b"QUERY", b"FIND", b"REMEMBER", b"PLOT", b"BATCH")) and \
                    len(re.findall(rb"(?i)\b(not|and|or)\b", b)) + _max_paren_depth(b) >= 3000:
                return "DeepNestingStackOverflow"
            if up.startswith(b"STORE") and b.count(b"{") >= 5000:
                return "DeepBraceRecursion"
            return None
        if c.get("kind") == "rtkw" and c.get("expect") is not None and impl != c["expect"] and impl not in ("PANIC", "ABORT", "TIMEOUT"):
            return "KeywordPrefixedIdentifier"
        return None
    return None


def nontrivial_key(c, impl):
    if impl and (impl.startswith("OK ") or impl == "RESP"):
        shape = re.sub(r"[0-9a-f]{2,}|\d+", "#", impl)
        return (c["kind"], shape[:400])
    return None
