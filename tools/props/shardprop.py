"""Shared parts of the engine-level (one shard) properties: history generation, running both sides,
comparing observations with Model/Shard.v."""
import json
import vlib, shardlib

CFGS = [
    {"fill_factor": 2, "event_per_zone": 2},
    {"fill_factor": 1, "event_per_zone": 3},
    {"fill_factor": 3, "event_per_zone": 1},
    {"fill_factor": 2, "event_per_zone": 1},
    {"fill_factor": 1, "event_per_zone": 1},
    {"fill_factor": 3, "event_per_zone": 2},
]


def show_ops(ops):
    out = []
    for o in ops:
        o = tuple(o)
        if o[0] == "S":
            out.append(f"S(t{o[1]},c{o[2]:02d})")
        elif o[0] == "SQ":
            out.append(f"SQ(t{o[1]},c{o[2]:02d})")
        elif o[0] == "SN":
            out.append(f"SN(t{o[1]},c{o[2]:02d})")
        elif o[0] == "SLOW":
            out.append(f"SLOW(seg {o[1]},t{o[2]},.{o[3]})")
        elif o[0] == "NOW":
            out.append(f"NOW({o[1]})")
        elif o[0] == "CLOCKMS":
            out.append(f"CLOCKMS({o[1]})")
        elif o[0] == "SLEEP":
            out.append(f"SLEEP({o[1]})")
        elif o[0] == "HIDE":
            out.append(f"HIDE(seg#{o[1]},t{o[2]})")
        elif o[0] == "CSNAP" and len(o) > 1:
            out.append(f"CSNAP({o[1]})")
        elif o[0] in ("BGC", "JOINC", "JOIN", "SETTLE", "UNHIDE", "CSNAP", "DRAIN", "KR", "FAILIDX", "UNFAILIDX"):
            out.append(o[0])
        elif o[0] == "WAITMORE":
            out.append(f"WAITMORE({o[1]},{o[2]})")
        elif o[0] == "MARKHITS":
            out.append(f"MARKHITS({o[1]})")
        elif o[0] == "WAITHITS":
            out.append(f"WAITHITS({o[1]},{o[2]})")
        elif o[0] in ("PARK", "RELEASE", "WAITP", "BGQ", "OP", "BLOCKSEG"):
            out.append(f"{o[0]}({o[1]})")
        elif o[0] in ("X", "P"):
            out.append(f"{o[0]}({o[1]},{o[2]})")
        else:
            out.append(o[0])
    return " ".join(out)


def gen_history(rng, n_ops, ntypes, nctx, p_flush=12, p_restart=6, p_obs=25, final_restart=False):
    ops = []
    for _ in range(n_ops):
        r = rng.below(100)
        if r < p_flush:
            ops.append(("F",))
        elif r < p_flush + p_restart:
            ops.append(("R",))
            ops.append(("O",))
        elif r < p_flush + p_restart + p_obs:
            ops.append(("O",))
        else:
            ops.append(("S", rng.below(ntypes), rng.below(nctx)))
    if final_restart:
        ops.append(("R",))
    ops.append(("O",))
    return ops


def mk_case(kind, cfg, ntypes, nctx, ops):
    return {"kind": kind, "cfg": cfg, "ntypes": ntypes, "nctx": nctx, "ops": [list(o) for o in ops],
            "show": f"cap={cfg['fill_factor']}x{cfg['event_per_zone']} types={ntypes} ctx={nctx}: " + show_ops(ops)}


def run_sides(cases, model_ok):
    impl = shardlib.run_histories(cases, workers=12)
    lines = [(r["line"] or "shard_run 1 1 1") for r in impl]
    model = vlib.run_lines(vlib.MODEL_RUN, [], lines, timeout=600) if model_ok else [None] * len(lines)
    return impl, model


def diffs(c, impl, model):
    if impl.get("line") is None:
        return ["harness: " + "; ".join(impl.get("notes", []))]
    if model is None:
        return []
    ms = model.split(" | ") if model else []
    if len(ms) != len(impl["obs"]):
        return [f"model produced {len(ms)} observations, implementation {len(impl['obs'])}: {model[:200]}"]
    out = []
    # a compaction round that fails on an injected read fault (HIDE) can leave its partly written output directory
    # behind; without a CWrite label the model has no such directory, so the directory listing is not compared in
    # these histories (what is read, the index, the live list and the WAL still are)
    faulted = any(tuple(o)[0] in ("HIDE", "FAILIDX") for o in c["ops"])
    for n, (o, m) in enumerate(zip(impl["obs"], ms)):
        for d in shardlib.compare_obs(o, m, c["ntypes"], c["nctx"]):
            if faulted and d.startswith("dirs:"):
                continue
            out.append(f"obs#{n}: {d}")
    if str(c.get("kind", "")).endswith("compact-reissued-ids"):
        # two lifetimes re-issue the same event ids (C18 RestartReissuesIds): the model names events by their payload
        # key, the engine's selections de-duplicate by the colliding event id - selections are not compared here
        # (COUNT, the index, the live list, the directories and the WAL still are)
        out = [x for x in out if not x.split(": ", 1)[1].startswith(("sel", "rp"))]
    return out


def same(c, impl, model):
    return not diffs(c, impl, model)


def expected(o, ntypes, nctx):
    """What the property demands at an observation: every acknowledged event exactly once."""
    exp = {}
    for u in range(ntypes):
        exp[f"sel{u}"] = sorted(k for (k, uu, cc) in o["acked"] if uu == u)
        exp[f"cnt{u}"] = len(exp[f"sel{u}"])
        for c in range(nctx):
            exp[f"rp{u}_{c}"] = [k for (k, uu, cc) in o["acked"] if uu == u and cc == c]
    return exp
