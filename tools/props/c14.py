"""C14 — SHOW of a remembered query equals the live query, each event once.

Engine-level histories (one `vharn life` child per lifetime) with pinned clocks, observed layouts
(`vharn fn mat_layout`: zones of every segment read with the real ZoneMeta / ColumnReader) and observed frames
(`vharn fn mat_frames`: the real MaterializedStore), replayed by the extracted model (`mat_run`); plus
function-level cases for HighWaterMark and MaterializedSink (`mat_hw`, `mat_sink`).

History ops:
  ["N", secs]                 pin the wall-clock second (relative to the history's base)
  ["K", adv, ms...]           scripted millisecond clock of the id generator (relative to base*1000)
  ["S", ctx, v, ptoff]        STORE ev FOR c<ctx> {k, v, pt = now + ptoff}
  ["F"]                       FLUSH
  ["C"]                       one compaction round on every shard
  ["X"]                       FLUSH, kill the process, restart on the same directories (clocks re-pinned)
  ["R", name, q]              REMEMBER QUERY <q> AS m<name>
  ["W", name, q, n]           park the flush worker at fw_published, STORE n events that fill the memtable,
                              REMEMBER inside the window, release
  ["H", name]                 SHOW m<name>, then QUERY <q> (the oracle's reference), back to back
  ["HF", name, bytes]         SHOW m<name> whose response writer fails with BrokenPipe after <bytes> bytes (!failwrite): the
                              client hung up; frames appended so far stay in the store, the catalog entry is not rewritten
  ["HA", name, point, hit]    FLUSH, then SHOW m<name> with the process aborting at the hit-th visit of step point <point>
                              (show_delta_appended | show_before_catalog; hooks/C14-show-steps.diff — without the hook the SHOW
                              completes), restart on the same directories
  ["B", n]                    n STOREs (context c00) without waiting in between, then quiescence
q = {"ctx": int|None, "where": [op, n]|None, "since": off|None, "tf": "C"|"P", "ret": None|["k"]|["k","pt"], "limit": n|None}
"""
import concurrent.futures, json, os, re, subprocess, time
import vlib, engine
from vlib import hx
from props import base

PROP = "C14"
PROPS_V = "theories/Props/C14.v"
THEOREMS = ["C14_show_eq_query_reach", "C14_mark_dominates_every_row", "C14_any_arrival_order",
            "C14_former_MarkOfLastFrame_witness_exact", "C14_frame_property", "C14_frame_property_history",
            "C14_view_independent", "C14_several_views_example", "C14_stored_below_mark", "C14_monotone_clock_suffices",
            "C14_show_idempotent", "C14_failed_show_then_show_exact", "C14_failed_show_state", "C14_refuted_InterruptedRefresh",
            "C14_failed_show_example", "C14_remember_dup_rejected", "C14_remember_fresh_accepted", "C14_show_eq_query_refuted",
            "C14_refuted_PayloadTimeField_dup", "C14_refuted_PayloadTimeField_lost", "C14_refuted_PayloadTimeField_hidden",
            "C14_refuted_EventNotAboveMark", "C14_refuted_EventNotAboveMark_component_max", "C14_refuted_LimitNotReapplied",
            "C14_refuted_RawStreamDuplicates", "C14_refuted_SegmentOlderThanEvent", "C14_show_eq_query_outside_known",
            "C14_no_class_is_good", "C14_outside_known_example"]
RULE = ("engine histories over 1..3 shards (STORE with pinned second / scripted millisecond clock, FLUSH, compaction round, "
        "restart, REMEMBER, SHOW followed by QUERY, SHOW whose response writer fails after n bytes; up to four views side by side under names differing in case / prefix / separator / length, over two event types) for queries with FOR / WHERE / SINCE / USING / RETURN / LIMIT, plus "
        "function-level append sequences of MaterializedSink and HighWaterMark op sequences; a history is non-trivial when "
        "a SHOW of an existing materialisation returned at least one row; distinct by (configuration, op sequence)")
ASSUMPTIONS = [
    "the arrival order of the batches of a REMEMBER / SHOW is taken from the observed frames (the model admits every order; the theorems quantify over all of them)",
    "STORE / FLUSH / compaction / restart are 'the next quiescent layout holds at least the previous events' (C01/C03/C05 are the properties about that); the layout is read from disk with the engine's own readers",
    "for LIMIT queries the rows a source delivers are taken from the observation (the model checks the sizes the pushed-down limit allows)",
    "ORDER BY / OFFSET / aggregates / sequences in the remembered query, retention policies and batches above 32768 rows are not modelled",
    "event ids are unique and non-zero (C18)",
]
TRUSTED = [
    "Coq 8.16.1 kernel + coqc; vm_compute for the closed witnesses; no native_compute",
    "extraction: ExtrOcamlBasic only; ocaml/driver.ml, conv.ml, p_mat.ml (parsing/printing)",
    "engine harness vharn life + tools/engine.py; vharn fn mat_layout / mat_frames / mat_sink / mat_hw (harness/src/probes/mat.rs) built against /repo with --cfg sneldb_verif",
    "hooks in /repo under cfg(sneldb_verif): pinned wall-clock second, scripted id clock, compact_now, park points",
    "python oracle: multiset comparison of SHOW with the QUERY issued right after it (independent of the model)",
]
CLAIMED = True
MANIFEST = {
 "level_text": "Theorems over Model/Materialize.v (all layouts: any shards/segments/zones/file times; all histories of new quiescent layouts, REMEMBERs and SHOWs; all arrival orders of the batches; queries with FOR/WHERE/SINCE on the core timestamp): inductive invariant 'stored frames = matching events at or below the mark'; every SHOW returns exactly the live selection, each event once; SHOW is idempotent without new data; REMEMBER under an existing name is rejected. The full property is refuted with machine-checked witnesses, each replayed on the real engine, and proved outside six decidable classes (a seventh, MarkOfLastFrame, was repaired by c71d768: the mark is now the maximum over the frames, proved to dominate every stored row for every arrival order of the batches, so REMEMBER and SHOW are exact whatever the fan-in order); a payload time field (USING f) is compared against a mark taken from the core timestamp (PayloadTimeField); an event that is not above the mark when it arrives is never shown (EventNotAboveMark: frozen/backward clock, same millisecond on a lower shard); LIMIT is cut at REMEMBER and never re-applied by SHOW (LimitNotReapplied); REMEMBER inside a flush window stores the raw stream twice (RawStreamDuplicates); a segment file older than mark-1 s is skipped whole (SegmentOlderThanEvent). SHOW's two-step persistence is modelled (frames appended while streaming, catalog entry rewritten after the response): a SHOW whose delivery failed, followed by any good operations and a healthy SHOW, is proved exact, except when the aborted refresh kept the newer delta batch only (InterruptedRefresh, reproduced with a response above the writer's 64 KiB buffer). Several views side by side: an operation on one view leaves the entry (query, store, marks) of every other view unchanged, for all histories, and its own answer depends on its own entry and the layout only (frame property; the run uses view names that differ only in letter case, prefixes of each other, both separators, 200-character names, different WHERE constants over one type and queries over a second type, and checks on the engine that no operation on one view changes the store or catalog entry of another). The round-0 hypothesis about created_at pruning after an empty REMEMBER is refuted (dead code). The model is replayed against the engine on generated histories with observed layouts/frames; the oracle compares SHOW with QUERY issued back to back.",
 "design_ref": "DESIGN.md §6 C14",
 "level_note": "Trusted: Coq kernel; ExtrOcamlBasic extraction + ocaml/p_mat.ml; the engine harness, tools/engine.py, harness/src/probes/mat.rs (layout and frames are read with the engine's own readers); clock hooks under cfg(sneldb_verif). Arrival order of batches and (for LIMIT) the delivered rows are inputs taken from the observation. Not modelled: ORDER BY/OFFSET/aggregates in remembered queries, retention, batches > 32768 rows."
}

EPOCH_MS = 1609459200000


def corpus():
    return base.corpus_for(PROP)


# ------------------------------------------------------------------------------------------------ queries
TYPES = ["ev", "ev2"]      # event types with the same field layout


def q_text(q, base_s, with_limit=True):
    t = "QUERY " + TYPES[q.get("type", 0)]
    if q.get("ctx") is not None:
        t += f" FOR c{q['ctx']:02d}"
    if q.get("since") is not None:
        t += f' SINCE "{base_s + q["since"]}"'
    if q.get("tf") == "P":
        t += " USING pt"
    if q.get("where"):
        op, n = q["where"]
        t += f" WHERE v {op} {n}"
    if q.get("ret"):
        t += " RETURN [" + ", ".join(q["ret"]) + "]"
    if with_limit and q.get("limit") is not None:
        t += f" LIMIT {q['limit']}"
    return t


def q_token(q, base_s):
    w = "-"
    if q.get("where"):
        w = {"=": "e", ">=": "g", "<": "l"}[q["where"][0]] + str(q["where"][1])
    ret = "1"
    if q.get("tf") == "P" and q.get("ret") and "pt" not in q["ret"]:
        ret = "0"
    return ",".join([
        "-" if q.get("ctx") is None else str(q["ctx"]), w,
        "-" if q.get("since") is None else str(base_s + q["since"]),
        "P" if q.get("tf") == "P" else "C", ret,
        "-" if q.get("limit") is None else str(q["limit"]),
        str(q.get("type", 0))])


def show_q(q):
    s = []
    if q.get("ctx") is not None: s.append(f"FOR c{q['ctx']:02d}")
    if q.get("since") is not None: s.append(f"SINCE base{q['since']:+d}")
    if q.get("tf") == "P": s.append("USING pt")
    if q.get("where"): s.append(f"WHERE v {q['where'][0]} {q['where'][1]}")
    if q.get("ret"): s.append("RETURN [" + ",".join(q["ret"]) + "]")
    if q.get("limit") is not None: s.append(f"LIMIT {q['limit']}")
    return "QUERY " + TYPES[q.get("type", 0)] + " " + " ".join(s)


def alias_of(aliases, name):
    a = (aliases or {}).get(str(name))
    if a is None:
        return f"m{name}"
    return a if len(a) <= 24 else f"{a[:10]}..({len(a)} chars)"


def show_ops(ops, aliases=None):
    out = []
    for o in ops:
        if o[0] in ("R", "W", "H", "HF", "HA"):
            o = list(o)
            o[1] = alias_of(aliases, o[1])
        if o[0] == "S": out.append(f"S(c{o[1]:02d},v{o[2]},pt{o[3]:+d}" + (f",{TYPES[o[4]]}" if len(o) > 4 and o[4] else "") + ")")
        elif o[0] == "N": out.append(f"now{o[1]:+d}")
        elif o[0] == "K": out.append("clock(" + ("adv," if o[1] else "") + ",".join(str(x) for x in o[2:]) + ")")
        elif o[0] == "R": out.append(f"REMEMBER[{show_q(o[2])}] AS {o[1]}")
        elif o[0] == "W": out.append(f"park(fw_published);S x{o[3]};REMEMBER[{show_q(o[2])}] AS {o[1]};release")
        elif o[0] == "H": out.append(f"SHOW {o[1]}")
        elif o[0] == "HF": out.append(f"failwrite({o[2]});SHOW {o[1]}")
        elif o[0] == "HA": out.append(f"F;abort@{o[2]}#{o[3]};SHOW {o[1]};restart")
        elif o[0] == "B": out.append(f"S x{o[1]}")
        else: out.append(o[0])
    return " ".join(out)


# ------------------------------------------------------------------------------------------------ the runner
def fn_probe(line):
    p = subprocess.run([vlib.VHARN, "fn"], input=line + "\n", capture_output=True, text=True, timeout=120)
    return p.stdout.strip()


def has_wm_probe():
    try:
        return fn_probe("matwm_filter 0.0 1 -") not in ("UNKNOWN_PROBE", "")
    except Exception:
        return False


class Hist:
    def __init__(self, case):
        self.case = case
        self.cfg = dict(case["cfg"])
        self.future = bool(case.get("future"))
        self.aliases = case.get("aliases") or {}     # view number -> spelling of its name (default m<number>)
        self.ntypes = int(case.get("types", 1))
        self.frame_check = bool(case.get("frame_check"))
        self.notes = []
        self.tokens = []
        self.obs = []
        self.shows = []        # per op index: oracle data
        self.k = 0
        self.events = {}       # k -> dict(ts, pt, id, ctx, v)
        self.queries = {}      # name -> q
        self.nframes = {}      # name -> number of frames seen
        self.stores_since = {}  # name -> stores since the previous SHOW
        self.prev_show = {}
        self.last_layout = None
        self.faulted = {}      # name -> a SHOW failed since the last healthy one
        self.sink_mark = {}    # name -> store mark at the last frames() reading
        self.store_paths = {}
        self.pending_fail = {}
        self.notes_info = []

    # -- clocks
    def pin(self):
        self.eng.cmd(f"!now {self.now}")
        self.ms += 1000
        self.eng.cmd(f"!clock_ms 1 {self.ms}")

    def start(self):
        self.eng = engine.Engine(shards=self.cfg["shards"], fill_factor=self.cfg["fill_factor"],
                                 event_per_zone=self.cfg["event_per_zone"],
                                 segments_per_merge=self.cfg.get("segments_per_merge", 2)).start()
        real = int(time.time())
        # pinned seconds lie far in the past (a segment file is then never older than an event it holds)
        # or, for the clock-anomaly family, ahead of the file-system clock
        self.base = real + 50000 if self.future else real - 200000
        self.now = self.base
        self.ms = self.base * 1000
        self.pin()
        self.uids = []
        for t in TYPES[:self.ntypes]:
            self.eng.cmd('DEFINE %s FIELDS { k: "int", v: "int", pt: "datetime" }' % t)
            self.uids.append(self.eng.cmd("!uid " + t).get("uid"))

    def alias(self, name):
        return self.aliases.get(str(name), f"m{name}")

    def store_dir(self, name):
        """the directory the ENGINE keeps this view's store in (catalog entry's storage_path); before the entry exists:
        where catalog/entry.rs will put it"""
        if name not in self.store_paths:
            out = fn_probe(f"mat_catalog {hx(os.path.join(self.eng.root, 'cols'))} {self.alias(name)}")
            m = re.search(r"path=([0-9a-f]+)", out)
            if not m:
                return os.path.join(self.eng.root, "cols", "materializations", self.alias(name))
            self.store_paths[name] = bytes.fromhex(m.group(1)).decode()
        return self.store_paths[name]

    def quiesce(self):
        self.eng.cmd("!flushwait")
        self.eng.cmd("!wal_drained 3000")

    # -- observations
    def refresh_events(self):
        seen = {}
        for ty, tname in enumerate(TYPES[:self.ntypes]):
            r = self.eng.rows("QUERY " + tname)
            if r["status"] != 200:
                if self.k:
                    self.notes.append(f"QUERY {tname} failed: {r}")
                return
            for x in r["rows"]:
                k = int(x["k"])
                seen[k] = {"ts": int(x["timestamp"]), "pt": int(x["pt"]), "id": int(x["event_id"]),
                           "ctx": int(str(x["context_id"])[1:]), "v": int(x["v"]), "ty": ty}
        for k, e in seen.items():
            self.events[k] = e
        missing = [k for k in self.events if k not in seen]
        if missing:
            self.notes.append(f"events {missing} are no longer returned by QUERY <type>")
            for k in missing:
                del self.events[k]

    def ev_tok(self, k):
        e = self.events[k]
        return f"{k}.{e['ts']}.{e['pt']}.{e['id']}.{e['ctx']}.{e['v']}.{e['ty']}"

    def layout(self, window_shard=None, window_keys=()):
        """[(mem keys, [(mtime, [zone keys...])...]) per shard] from the directories and the event list."""
        self.refresh_events()
        shards = [{"mem": [], "segs": []} for _ in range(self.cfg["shards"])]
        ondisk = set()
        # the zones of every event type: a segment directory holds one .zones file per type, each with its own mtime —
        # one model segment per (directory, type)
        for uid in self.uids:
            out = fn_probe(f"mat_layout {hx(os.path.join(self.eng.root, 'cols'))} {uid}")
            if out in ("NOSEGS", ""):
                continue
            for tok in out.split(" "):
                m = re.match(r"s(\d+)g(\d+)@(\d+):(.*)$", tok)
                if not m:
                    self.notes.append(f"layout probe: {tok[:80]}")
                    continue
                si, mt, zs = int(m.group(1)), int(m.group(3)), m.group(4)
                zones = []
                for z in zs.split(";"):
                    meta, ks = z.split("=")
                    keys = [int(x) for x in ks.split("+")] if ks != "-" else []
                    zid, tsmax, created = meta.split(".")
                    zones.append((keys, int(tsmax)))
                    ondisk.update(keys)
                shards[si]["segs"].append((mt, zones))
        # an aggregate does not drop repeated ids: a key counted more often than it occurs in segment zones is also in
        # the memtable (inside a flush window, or replayed from a WAL file that outlived its segment at a restart); a key
        # can also sit in two segments (a compaction round merged the zones of its event type out of a segment that stays
        # live for another type) — those copies are already in the zone lists above
        disk_occ = {}
        for sh_ in shards:
            for mt, zones in sh_["segs"]:
                for keys, _ in zones:
                    for k in keys:
                        disk_occ[k] = disk_occ.get(k, 0) + 1
        counted = {}
        if ondisk:
            for tname in TYPES[:self.ntypes]:
                rc = self.eng.rows(f"QUERY {tname} COUNT BY k")
                if rc["status"] == 200:
                    for x in rc["rows"]:
                        counted[int(x["k"])] = int(x.get("count", 1))
        self.twice = set(k for k, n in counted.items() if n > 1)
        for k, e in sorted(self.events.items()):
            if k not in ondisk or k in window_keys or counted.get(k, 1) > disk_occ.get(k, 0):
                shards[(e["id"] >> 12) & 0x3FF]["mem"].append(k)
        # the recorded zone timestamp_max must be the max core timestamp of the zone's rows (the model derives it)
        for s in shards:
            for mt, zones in s["segs"]:
                for keys, tsmax in zones:
                    known = [self.events[k]["ts"] for k in keys if k in self.events]
                    if len(known) != len(keys):
                        self.notes.append(f"zone holds keys {keys} not all returned by QUERY ev")
                    elif known and max(known) != tsmax:
                        self.notes.append(f"zone {keys}: timestamp_max {tsmax} != max core timestamp {max(known)}")
        return shards

    def layout_token(self, shards):
        parts = []
        for s in shards:
            p = ["+".join(self.ev_tok(k) for k in s["mem"]) or "-"]
            for mt, zones in s["segs"]:
                p.append(f"{mt}@" + ";".join("+".join(self.ev_tok(k) for k in keys if k in self.events) for keys, _ in zones))
            parts.append("~".join(p))
        return "L:" + "/".join(parts)

    def emit_layout(self, **kw):
        shards = self.layout(**kw)
        tok = self.layout_token(shards)
        if tok != self.last_layout:
            self.tokens.append(tok)
            self.obs.append("L")
            self.shows.append(None)
            self.last_layout = tok
        return shards

    def frames(self, name):
        out = fn_probe(f"mat_frames {hx(self.store_dir(name))}")
        fr = []
        self.sink_mark[name] = "0.0"
        if out in ("NOSTORE", "EMPTY", ""):
            return fr
        for tok in out.split(" "):
            if tok.startswith("sink="):
                # the mark a real MaterializedSink carries when re-opened on this store
                self.sink_mark[name] = tok[5:]
                continue
            mark, rows = tok.split(":", 1)
            ks = [int(r.split("/")[0]) for r in rows.split(",")] if rows else []
            fr.append((mark, ks))
        return fr

    def catalog_mark(self, name):
        out = fn_probe(f"mat_catalog {hx(os.path.join(self.eng.root, 'cols'))} {self.alias(name)}")
        m = re.match(r"cat=(\d+\.\d+) rows=(\d+)", out)
        if not m:
            self.notes.append(f"catalog probe for m{name}: {out[:100]}")
            return "?"
        return m.group(1)

    def settled_frames(self, name):
        """frames after a failed SHOW: the aborted delta task can still finish an append it had begun"""
        prev, stable = self.frames(name), 0
        for _ in range(40):
            self.eng.cmd("!sleep 60")
            cur = self.frames(name)
            stable = stable + 1 if cur == prev else 0
            if stable >= 4:
                return cur
            prev = cur
        return prev

    def amend_failed(self, name):
        """an append the aborted task had begun can land after the failed SHOW was observed (fsync under load): what the
        failed SHOW left is what the store holds when the next command on that materialisation starts"""
        p = self.pending_fail.pop(name, None)
        if not p:
            return
        ti, oi, before, shards, seen = p
        after = self.frames(name)
        if after != seen:
            new = after[len(before):]
            self.tokens[ti] = f"F:{name}:{self.choice(shards, new)}"
            mark = self.sink_mark.get(name, "0.0")
            self.obs[oi] = f"F new={self.frames_str(new)} mark={mark} cat={self.catalog_mark(name)}"
            self.notes_info.append(f"failed SHOW m{name}: an append landed after the observation")

    def choice(self, shards, new_frames):
        """source index of every new frame: a source that holds all of the frame's keys (an event can sit in the
        memtable and in a segment at once), frames with the fewest candidates first"""
        src = {}
        for si, s in enumerate(shards):
            src[2 * si] = set(s["mem"])
            src[2 * si + 1] = set(k for mt, zones in s["segs"] for keys, _ in zones for k in keys)
        cands = [[i for i in sorted(src) if ks and set(ks) <= src[i]] for _, ks in new_frames]
        idx = [None] * len(new_frames)
        used = set()
        for n in sorted(range(len(new_frames)), key=lambda n: len(cands[n])):
            idx[n] = next((c for c in cands[n] if c not in used), cands[n][0] if cands[n] else 99)
            used.add(idx[n])
        return ";".join(f"{idx[n]}=" + "+".join(str(k) for k in ks) for n, (_, ks) in enumerate(new_frames)) or "-"

    @staticmethod
    def frames_str(new_frames):
        return ";".join("+".join(str(k) for k in sorted(ks)) or "-" for _, ks in new_frames) or "-"

    # -- ops
    def others_snapshot(self, name):
        """stores and catalog entries of every OTHER view (oracle: an operation on one view must not touch them)"""
        if not self.frame_check:
            return None
        snap = {}
        for b in self.queries:
            if b != name and b not in self.pending_fail:
                fr = self.frames(b)
                snap[b] = (fr, self.sink_mark.get(b), self.catalog_mark(b))
        return snap

    def others_changed(self, name, before):
        if before is None:
            return []
        after = self.others_snapshot(name)
        return [self.alias(b) for b in before if b in after and after[b] != before[b]]

    def do_store(self, ctx, v, ptoff, wait=True, ty=0):
        self.k += 1
        r = self.eng.cmd(f'STORE {TYPES[ty]} FOR c{ctx:02d} PAYLOAD {{"k": {self.k}, "v": {v}, "pt": {self.now + ptoff}}}')
        if '"status":200' not in r.get("out", ""):
            self.notes.append(f"STORE rejected: {str(r)[:200]}")
        if wait:
            self.quiesce()
        for n in self.stores_since:
            self.stores_since[n] += 1

    def do_remember(self, name, q, shards):
        line = f"REMEMBER {q_text(q, self.base)} AS {self.alias(name)}"
        self.amend_failed(name)
        snap = self.others_snapshot(name)
        before = self.frames(name)
        r = self.eng.cmd(line)
        out = r.get("out", "")
        after = self.frames(name)
        touched = self.others_changed(name, snap)
        new = after[len(before):]
        self.tokens.append(f"R:{name}:{q_token(q, self.base)}:{self.choice(shards, new)}")
        if '"status":200' in out:
            m = re.search(r"high-water mark: timestamp=(\d+) event_id=(\d+)", out)
            mark = f"{m.group(1)}.{m.group(2)}" if m else "0.0"
            if after and self.sink_mark.get(name) != mark:
                self.notes.append(f"REMEMBER reports mark {mark}, a sink re-opened on the store carries {self.sink_mark.get(name)}")
            self.obs.append(f"R ok frames={self.frames_str(new)} mark={mark}")
            self.shows.append({"kind": "remember", "name": name, "fresh": name not in self.queries, "touched": touched,
                               "alias": self.alias(name)})
            if name not in self.queries:
                self.queries[name] = q
                self.stores_since[name] = 0
        elif "already exists" in out:
            self.obs.append("R rejected")
            # a name that differs from an existing one only in letter case may be rejected (then it is simply no view)
            case_twin = any(self.alias(b).lower() == self.alias(name).lower() for b in self.queries if b != name)
            self.shows.append({"kind": "remember-rejected", "name": name, "existed": name in self.queries or case_twin,
                               "frames_changed": before != after, "touched": touched, "alias": self.alias(name)})
        else:
            self.obs.append("R error " + out[:120])
            self.shows.append({"kind": "remember-error", "name": name, "msg": out[:200], "alias": self.alias(name), "touched": touched})

    def do_show(self, name, shards, fail=None, abort=None):
        self.amend_failed(name)
        snap = self.others_snapshot(name)
        before = self.frames(name)
        if fail is not None:
            self.eng.cmd(f"!failwrite {fail}")
        if abort is not None:
            self.eng.cmd(f"!arm_abort {abort[0]} {abort[1]}")
        crashed = False
        try:
            raw = self.eng.cmd(f"SHOW {self.alias(name)}")
        except engine.Crashed:
            # the process died inside SHOW (armed step point): restart on the same directories
            crashed = True
            raw = {"out": "", "error": "crashed"}
            self.eng.stop()
            self.eng.start()
            self.pin()
        if abort is not None and not crashed:
            self.eng.cmd("!arm_abort none 0")
        r = engine.parse_stream(raw)
        failed = crashed or (fail is not None and (raw.get("error") is not None or r["status"] != 200 or r.get("count") is None))
        if failed:
            # the client saw an error (or nothing); what matters is what the engine kept
            after = self.settled_frames(name)
            new = after[len(before):]
            self.tokens.append(f"F:{name}:{self.choice(shards, new)}")
            if name not in self.queries:
                self.obs.append("S unknown")
                self.shows.append({"kind": "show-failed", "name": name, "appended": 0})
                return
            mark = self.sink_mark.get(name, "0.0")
            self.obs.append(f"F new={self.frames_str(new)} mark={mark} cat={self.catalog_mark(name)}")
            self.pending_fail[name] = (len(self.tokens) - 1, len(self.obs) - 1, before, shards, after)
            self.shows.append({"kind": "show-failed", "name": name, "appended": len(new), "bytes": fail, "crashed": crashed,
                               "delivered": len(raw.get("out", "")), "alias": self.alias(name),
                               "touched": [] if crashed else self.others_changed(name, snap)})
            return
        after = self.frames(name)
        new = after[len(before):]
        self.tokens.append(f"S:{name}:{self.choice(shards, new)}")
        if r["status"] != 200:
            if "not found" in (r.get("message") or ""):
                self.obs.append("S unknown")
            else:
                self.obs.append(f"S error {r.get('message')}")
            self.shows.append({"kind": "show-unknown", "name": name, "known": name in self.queries, "msg": r.get("message")})
            return
        ks = sorted(int(x["k"]) for x in r["rows"])
        mark = self.sink_mark.get(name, "0.0")
        self.obs.append(f"S out={'+'.join(map(str, ks)) or '-'} new={self.frames_str(new)} mark={mark} cat={self.catalog_mark(name)}")
        q = self.queries.get(name)
        d = {"kind": "show", "name": name, "show": ks, "q": q, "after_fault": self.faulted.get(name, False),
             "alias": self.alias(name), "touched": self.others_changed(name, snap)}
        self.faulted[name] = False
        if q is not None:
            rq = self.eng.rows(q_text(q, self.base))
            d["query"] = sorted(int(x["k"]) for x in rq["rows"]) if rq["status"] == 200 else f"ERR {rq.get('message')}"
            if q.get("limit") is not None:
                ra = self.eng.rows(q_text(q, self.base, with_limit=False))
                d["query_nolimit"] = sorted(int(x["k"]) for x in ra["rows"]) if ra["status"] == 200 else []
        if self.stores_since.get(name) == 0 and name in self.prev_show:
            d["repeat_of"] = self.prev_show[name]
        self.prev_show[name] = ks
        self.stores_since[name] = 0
        self.shows.append(d)

    def run(self):
        self.start()
        try:
            for op in self.case["ops"]:
                t = op[0]
                if t == "N":
                    self.now = self.base + op[1]
                    self.eng.cmd(f"!now {self.now}")
                elif t == "K":
                    rs = [self.base * 1000 + x for x in op[2:]]
                    self.ms = max(rs + [self.ms])
                    self.eng.cmd(f"!clock_ms {op[1]} " + " ".join(map(str, rs)))
                elif t == "S":
                    self.do_store(op[1], op[2], op[3], ty=(op[4] if len(op) > 4 else 0))
                elif t == "F":
                    self.eng.cmd("FLUSH"); self.quiesce()
                elif t == "C":
                    for s in range(self.cfg["shards"]):
                        self.eng.cmd(f"!compact {s}")
                    self.eng.cmd("!sleep 30"); self.quiesce()
                elif t == "X":
                    self.eng.cmd("FLUSH"); self.quiesce()
                    self.eng.restart()
                    self.pin()
                elif t == "R":
                    shards = self.emit_layout()
                    self.do_remember(op[1], op[2], shards)
                elif t == "W":
                    pre = self.layout()
                    in_mem = set(k for s in pre for k in s["mem"])      # the memtable the window's flush rotates
                    self.eng.cmd("!park fw_published")
                    first = self.k + 1
                    for i in range(op[3]):
                        self.do_store(0, i, 0, wait=False)
                    w = self.eng.cmd("!wait_parked fw_published 10000")
                    self.eng.cmd("!wal_drained 3000")
                    if not w.get("parked"):
                        self.notes.append("park point fw_published not reached")
                    shards = self.emit_layout(window_keys=(in_mem | set(range(first, self.k + 1))) if w.get("parked") else ())
                    self.do_remember(op[1], op[2], shards)
                    self.eng.cmd("!release fw_published")
                    self.quiesce()
                elif t == "H":
                    self.quiesce()
                    shards = self.emit_layout()
                    self.do_show(op[1], shards)
                elif t == "HF":
                    self.quiesce()
                    shards = self.emit_layout()
                    self.faulted[op[1]] = True
                    self.do_show(op[1], shards, fail=op[2])
                elif t == "HA":
                    self.eng.cmd("FLUSH"); self.quiesce()     # a process crash must not be able to lose memtable events
                    shards = self.emit_layout()
                    self.faulted[op[1]] = True
                    self.do_show(op[1], shards, abort=(op[2], op[3]))
                elif t == "B":
                    for i in range(op[1]):
                        self.do_store(0, i % 4, 0, wait=False)
                    self.quiesce()
            for name in list(self.pending_fail):
                self.amend_failed(name)
            return {"line": "mat_run " + " ".join(self.tokens), "obs": " | ".join(self.obs), "shows": self.shows,
                    "notes": self.notes, "info": self.notes_info}
        finally:
            self.eng.destroy()


def run_history(case):
    err = None
    for attempt in range(2):   # an engine child that does not come up on the loaded machine is retried once
        try:
            return Hist(case).run()
        except Exception as ex:  # harness failure: reported as a disagreement, never hidden
            err = f"HARNESS-ERROR {type(ex).__name__}: {ex}"
    return {"line": None, "obs": "", "shows": [], "notes": [err]}


def run_sides(cases, model_ok):
    impl = [None] * len(cases)
    fn_idx = [i for i, c in enumerate(cases) if "line" in c]
    en_idx = [i for i, c in enumerate(cases) if "ops" in c]
    fn_out = vlib.run_lines(vlib.VHARN, ["fn"], [cases[i]["line"] for i in fn_idx], timeout=600, shards=4)
    for i, o in zip(fn_idx, fn_out):
        impl[i] = o
    with concurrent.futures.ThreadPoolExecutor(max_workers=int(os.environ.get("C14_WORKERS", "8"))) as ex:
        for i, r in zip(en_idx, ex.map(run_history, [cases[i] for i in en_idx])):
            impl[i] = r
    lines = [(c["line"] if "line" in c else (impl[i]["line"] or "mat_run")) for i, c in enumerate(cases)]
    model = vlib.run_lines(vlib.MODEL_RUN, [], lines, timeout=600, shards=4) if model_ok else [None] * len(cases)
    return impl, model


# ------------------------------------------------------------------------------------------------ comparison
def model_parts(model):
    if not model or " || " not in model:
        return (model or "").split(" | "), []
    a, b = model.split(" || ", 1)
    return a.split(" | "), b.split(" ")


def hidden_names(line):
    """names of the materialisations whose watermark filter is off (payload time field that RETURN omits)"""
    out = set()
    for tok in (line or "").split(" "):
        if tok.startswith("R:"):
            f = tok.split(":")
            q = f[2].split(",")
            if len(q) >= 6 and q[3] == "P" and q[4] == "0":
                out.add(f[1])
    return out


def obs_agree(a, b, tok, hidden):
    """Equality of one observation.  One relaxation: with the watermark filter off the SHOW response writer drops
    delta rows whose id it has seen, treating the first N batches it RECEIVES as the N stored frames; frames and delta
    batches share one channel, so once the store holds duplicates (every SHOW of such a materialisation appends the raw
    delta) the multiplicities of the output depend on the interleaving.  Then only the key set of `out`, and everything
    else (new frames, store mark, catalog mark) exactly, are compared."""
    if a == b:
        return True
    if not (a.startswith("S out=") and b.startswith("S out=") and tok.startswith("S:") and tok.split(":")[1] in hidden):
        return False
    (oa, ra), (ob, rb) = a[6:].split(" ", 1), b[6:].split(" ", 1)
    return ra == rb and set(oa.split("+")) == set(ob.split("+"))


def diffs(c, impl, model):
    if "line" in c:
        return [] if impl == model else [f"impl {impl} model {model}"]
    if impl.get("line") is None:
        return ["harness: " + "; ".join(impl.get("notes", []))]
    out = ["harness note: " + n for n in impl.get("notes", [])]
    if model is None:
        return out
    mo, _ = model_parts(model)
    mo = [x for x in mo if x != ""]
    io = impl["obs"].split(" | ") if impl["obs"] else []
    if len(mo) != len(io):
        return out + [f"model produced {len(mo)} observations, implementation {len(io)}: {model[:300]}"]
    toks = impl["line"].split(" ")[1:]
    hidden = hidden_names(impl["line"])
    for n, (a, b) in enumerate(zip(io, mo)):
        if not obs_agree(a, b, toks[n] if n < len(toks) else "", hidden):
            out.append(f"op#{n}: impl [{a}] model [{b}]")
    return out


def same(c, impl, model):
    return not diffs(c, impl, model)


# ------------------------------------------------------------------------------------------------ oracle
def lexmax(rows):
    return max(rows) if rows else (0, 0)


def oracle(c, impl):
    """Direct property oracle on the implementation's own outputs."""
    if "line" in c:
        t = c["line"].split()
        if impl in ("PANIC", "ABORT"):
            return f"implementation {impl} on {c['line']}"
        if t[0] == "mat_hw":
            m = tuple(int(x) for x in t[1].split("."))
            exp = []
            for op in t[2:]:
                if op[0] == "z":
                    exp.append("1" if m == (0, 0) else "0")
                    continue
                p = tuple(int(x) for x in op[1:].split("."))
                if op[0] == "a":
                    m = max(m, p)
                    exp.append(f"{m[0]}.{m[1]}")
                else:
                    exp.append("1" if p > m else "0")
            if impl != " ".join(exp):
                return f"HighWaterMark: {c['line']} -> {impl}, a lexicographic (timestamp, event id) mark gives {' '.join(exp)}"
            return None
        if t[0] == "matwm_filter":
            m = tuple(int(x) for x in t[1].split("."))
            exp = []
            for f in (t[3].split("|") if len(t) > 3 else []):
                if f == "-":
                    exp.append("skip")
                    continue
                rows = [tuple(int(x) for x in r.split(".")) for r in f.split(",")]
                kept = [str(r[2]) for r in rows if t[2] == "0" or (r[0], r[1]) > m]
                exp.append("+".join(kept) if kept else "none")
            if impl != " ".join(exp):
                return f"WatermarkDeduplicator: {c['line']} -> {impl}; rows strictly above the mark are {' '.join(exp)}"
            return None
        if t[0] == "mat_sink":
            # the mark of a materialisation must not be below a row it has stored
            frames = [f for f in (t[1].split("|") if len(t) > 1 else []) if f and f != "-"]
            rows = [tuple(int(x) for x in r.split(".")[:2]) for f in frames for r in f.split(",")]
            m = re.search(r"boot=(\d+)\.(\d+)", impl or "")
            if not m:
                return f"sink probe failed: {impl}"
            boot = (int(m.group(1)), int(m.group(2)))
            if rows and boot < lexmax(rows):
                return (f"MaterializedSink: after appending frames {t[1]} the high-water mark is {boot}, below the stored row "
                        f"{lexmax(rows)} (the delta refresh will deliver it again)")
            return None
        return None
    if impl.get("line") is None:
        return None
    for n, d in enumerate(impl["shows"]):
        if not d:
            continue
        if d.get("touched"):
            return (f"op#{n}: the operation on view {d.get('alias')} changed the store or the catalog entry of the other view(s) "
                    f"{d['touched']}")
        if d["kind"] == "remember-rejected" and (not d["existed"] or d["frames_changed"]):
            return f"op#{n}: REMEMBER {d.get('alias') or 'm%s' % d['name']} rejected although the name was free, or it changed the stored frames"
        if d["kind"] == "remember" and not d["fresh"]:
            return f"op#{n}: REMEMBER under the existing name {d.get('alias') or 'm%s' % d['name']} was accepted"
        if d["kind"] == "remember-error":
            return f"op#{n}: REMEMBER {d.get('alias') or 'm%s' % d['name']} failed: {d['msg']}"
        if d["kind"] == "show-unknown" and d["known"]:
            return f"op#{n}: SHOW {d.get('alias') or 'm%s' % d['name']} failed: {d['msg']}"
        if d["kind"] != "show" or d.get("q") is None:
            continue
        sh, qu = d["show"], d["query"]
        if isinstance(qu, str):
            return f"op#{n}: QUERY failed: {qu}"
        if d["q"].get("limit") is None:
            if sh != qu:
                extra = sorted(set(k for k in sh if sh.count(k) > qu.count(k)))
                miss = sorted(set(k for k in qu if qu.count(k) > sh.count(k)))
                def brief(l):
                    return l if len(l) <= 40 else f"{len(l)} rows [{l[0]}..{l[-1]}]"
                return (f"op#{n}: SHOW {d.get('alias') or 'm%s' % d['name']} returned {brief(sh)}, QUERY issued right after returned {brief(qu)}"
                        + (f"; returned more than once or not selected: {extra}" if extra else "")
                        + (f"; missing: {miss}" if miss else "")
                        + ("; first healthy SHOW after a SHOW whose delivery failed" if d.get("after_fault") else ""))
        else:
            alln = d.get("query_nolimit", [])
            if len(sh) != len(qu) or len(set(sh)) != len(sh) or not set(sh) <= set(alln):
                return (f"op#{n}: SHOW {d.get('alias') or 'm%s' % d['name']} returned {sh} ({len(sh)} rows), QUERY … LIMIT {d['q']['limit']} returned "
                        f"{len(qu)} rows {qu} of the selection {alln}")
        if "repeat_of" in d and d["repeat_of"] != sh:
            return f"op#{n}: repeated SHOW {d.get('alias') or 'm%s' % d['name']} with no new data returned {sh}, the previous one {d['repeat_of']}"
    return None


def failing_op(why):
    m = re.match(r"op#(\d+):", why or "")
    return int(m.group(1)) if m else None


FIXED_CLASSES = {"MarkOfLastFrame"}   # repaired in /repo (c71d768): never a known class again; a recurrence is a VIOLATION


def classify(c, impl, model=None):
    why = oracle(c, impl)
    if not why:
        return None
    if "line" in c:
        return None
    n = failing_op(why)
    if n is None or model is None:
        return None
    mo, cls = model_parts(model)
    io = impl["obs"].split(" | ")
    # known only when the model predicts exactly this (wrong) answer and has flagged a class by then
    toks = impl["line"].split(" ")[1:]
    if n >= len(mo) or n >= len(io) or not obs_agree(io[n], mo[n], toks[n] if n < len(toks) else "", hidden_names(impl["line"])):
        return None
    flagged = [x for tok in cls[:n + 1] for x in tok.split(",") if x not in ("-", "")]
    flagged = [x for x in flagged if x not in ("EVENTS-REMOVED", "ZERO-ID") and x not in FIXED_CLASSES]
    return flagged[0] if flagged else None


def nontrivial_key(c, impl):
    if "line" in c:
        return ("fn", c["line"]) if impl and not impl.startswith("ERR") else None
    if impl.get("shows") and any(d and d["kind"] == "show" and d["show"] for d in impl["shows"]):
        return c["show"]
    return None


# ------------------------------------------------------------------------------------------------ generation
CFGS = [
    {"shards": 1, "fill_factor": 2, "event_per_zone": 2},
    {"shards": 2, "fill_factor": 2, "event_per_zone": 1},
    {"shards": 3, "fill_factor": 1, "event_per_zone": 3},
    {"shards": 1, "fill_factor": 3, "event_per_zone": 1},
    {"shards": 2, "fill_factor": 1, "event_per_zone": 2},
    {"shards": 3, "fill_factor": 2, "event_per_zone": 2},
]


def mk_case(kind, cfg, ops, **kw):
    c = {"kind": kind, "cfg": cfg, "ops": [list(o) for o in ops]}
    c.update(kw)
    c["show"] = (f"shards={cfg['shards']} cap={cfg['fill_factor']}x{cfg['event_per_zone']}" + (" future-clock" if kw.get("future") else "")
                 + ": " + show_ops(c["ops"], kw.get("aliases")))
    return c


def gen_query(rng, tf="C", limit=False):
    q = {"ctx": None, "where": None, "since": None, "tf": tf, "ret": None, "limit": None}
    if rng.chance(1, 3):
        q["ctx"] = rng.below(3)
    if rng.chance(1, 2):
        q["where"] = [rng.choice([">=", "=", "<"]), rng.range(1, 3)]
    if rng.chance(1, 3):
        q["since"] = rng.range(-2, 3)
    # multi-field RETURN is generated again: f2ae870 made the column order of RETURN fields stable
    if tf == "P":
        q["ret"] = rng.choice([None, None, ["k"], ["k", "pt"], ["v", "k"]])
    elif rng.chance(1, 3):
        q["ret"] = rng.choice([["k"], ["k", "v"], ["v", "pt", "k"]])
    if limit:
        q["limit"] = rng.range(1, 3)
    return q


def gen_history(rng, cfg, n_ops, tf="C", limit=False, p_back=0):
    """events before REMEMBER, between REMEMBER and SHOW, between SHOWs; FLUSH / compaction / restart in between;
    the wall-clock second advances now and then (so several events share the high-water second)"""
    ops, names, now = [], [], 0
    def stores(n):
        nonlocal now
        for _ in range(n):
            if rng.chance(1, 3):
                now += rng.range(1, 2)
                ops.append(("N", now))
            ops.append(("S", rng.below(3), rng.below(4), rng.range(-3, 3) if tf == "P" else 0))
    stores(rng.range(0, 5))
    for _ in range(n_ops):
        r = rng.below(100)
        if r < 30:
            stores(rng.range(1, 3))
        elif r < 40:
            ops.append(("F",))
        elif r < 46:
            ops.append(("C",))
        elif r < 50:
            ops.append(("X",))
        elif r < 62 and len(names) < 2:
            names.append(len(names) + 1)
            ops.append(("R", names[-1], gen_query(rng, tf, limit)))
        elif r < 66 and names:
            ops.append(("R", rng.choice(names), gen_query(rng, tf, limit)))   # existing name: must be rejected
        elif names:
            ops.append(("H", rng.choice(names)))
            if rng.chance(1, 3):
                ops.append(("H", ops[-1][1]))                                  # repeated SHOW, no new data
        else:
            names.append(len(names) + 1)
            ops.append(("R", names[-1], gen_query(rng, tf, limit)))
    for n in names:
        ops.append(("H", n))
    return ops


def gen_fault_history(rng, cfg, tf="C"):
    """SHOW -> failed SHOW (non-empty snapshot, non-empty delta) -> STOREs -> SHOW, with FLUSH / compaction / restart
    around the failure and several failures in a row"""
    ops, now = [], 0

    def stores(n):
        nonlocal now
        for _ in range(n):
            if rng.chance(1, 3):
                now += rng.range(1, 2)
                ops.append(("N", now))
            ops.append(("S", rng.below(3), rng.below(4), rng.range(-3, 3) if tf == "P" else 0))

    def fail():
        return ("HF", 1, rng.choice([0, 0, 1, 50, 200, 1000]))
    q = gen_query(rng, tf)
    if rng.chance(2, 3):
        q["since"] = None
    stores(rng.range(1, 4))
    if rng.chance(1, 3):
        ops.append(("F",))
    ops.append(("R", 1, q))
    if rng.chance(1, 2):
        ops.append(("H", 1))
    for _ in range(rng.range(1, 3)):
        stores(rng.range(1, 3))
        if rng.chance(1, 2):
            ops.append(("F",))
            stores(rng.range(0, 2))
        if rng.chance(1, 5):
            ops.append(("C",))
        ops.append(fail())
        r = rng.below(6)
        if r == 0:
            ops.append(("X",))
        elif r == 1:
            ops.append(fail())
        elif r == 2:
            ops += [("F",), ("C",)]
        stores(rng.range(0, 3))
        ops.append(("H", 1))
        if rng.chance(1, 3):
            ops.append(("H", 1))
    return ops


ALIAS_FAMILIES = {
    # names that differ only in letter case
    "case": [["orders_eu", "Orders_EU", "ORDERS_EU", "orders_Eu"], ["v", "V"], ["Daily-Report", "daily-report", "DAILY-REPORT"]],
    # names that are prefixes of each other
    "prefix": [["m", "m1", "m10", "m1_"], ["frames", "frames_", "frame"], ["a", "aa", "aaa"]],
    # the two separators the grammar admits, and names the store layout itself uses
    "sep": [["a_b", "a-b", "ab", "a__b"], ["manifest", "frames", "catalog", "entry"], ["x-", "x_", "x"]],
    # long names (a file-name component may be at most 255 bytes)
    "long": [["L" * 200, "L" * 199 + "x", "l" * 200], ["q" * 120 + "_A", "q" * 120 + "_a"]],
    # digits only / leading zeros
    "digits": [["n1", "n01", "n001", "N1"], ["v2026", "V2026", "v2026_"]],
}


def gen_views_history(rng, cfg, family=None):
    """several remembered queries side by side: different WHERE constants over the same type and column layout, the same
    query under two names, queries over another type; STORE / FLUSH / compaction / restart / SHOW a / SHOW b / failed SHOW
    interleaved; exact-duplicate REMEMBERs (must be rejected)"""
    family = family or rng.choice(sorted(ALIAS_FAMILIES))
    names = list(rng.choice(ALIAS_FAMILIES[family]))
    nv = min(len(names), rng.range(2, 4))
    # keep the spelling order but start anywhere, so that both "lower first" and "upper first" occur
    off = rng.below(len(names))
    names = [names[(off + i) % len(names)] for i in range(nv)]
    aliases = {str(i + 1): a for i, a in enumerate(names)}
    ntypes = 2 if rng.chance(1, 2) else 1
    qs = []
    same = rng.chance(1, 3)          # all views remember the same query
    ret = rng.choice([None, None, ["k"], ["k", "v"]])
    wheres = [None, [">=", 1], ["<", 2], ["=", 0], [">=", 2], ["<", 3]]
    w0 = rng.choice(wheres)
    for i in range(nv):
        q = {"ctx": None, "where": w0 if same else rng.choice(wheres), "since": None, "tf": "C", "ret": ret, "limit": None}
        if not same and rng.chance(1, 6):
            q["ctx"] = rng.below(3)
        if not same and ntypes == 2 and rng.chance(1, 3):
            q["type"] = 1
        qs.append(q)
    ops, now, remembered = [], 0, []

    def stores(n):
        nonlocal now
        for _ in range(n):
            if rng.chance(1, 3):
                now += rng.range(1, 2)
                ops.append(("N", now))
            ops.append(("S", rng.below(3), rng.below(4), 0, rng.below(ntypes)))

    def remember_next():
        v = len(remembered) + 1
        remembered.append(v)
        ops.append(("R", v, qs[v - 1]))
    # events before the first view, between the views, and afterwards
    stores(rng.range(2, 5))
    if rng.chance(1, 3):
        ops.append(("F",))
    remember_next()
    if rng.chance(1, 2):
        ops.append(("H", 1))
    stores(rng.range(0, 3))
    remember_next()
    for step in range(rng.range(5, 9)):
        r = rng.below(100)
        if r < 25:
            stores(rng.range(1, 3))
        elif r < 33:
            ops.append(("F",))
        elif r < 37:
            ops.append(("C",))
        elif r < 42:
            ops.append(("X",))
        elif r < 54 and len(remembered) < nv:
            remember_next()
        elif r < 60:
            ops.append(("R", rng.choice(remembered), rng.choice(qs)))          # exact spelling again: rejected, nothing changes
        elif r < 67:
            ops.append(("HF", rng.choice(remembered), rng.choice([0, 50])))
        else:
            ops.append(("H", rng.choice(remembered)))
    stores(rng.range(0, 2))
    for v in remembered:
        ops.append(("H", v))
    for v in remembered:
        ops.append(("H", v))
    return ops, aliases, ntypes


def cases(rng, tier):
    out = []
    quick = tier == "quick"
    # ---- function level
    n_fn = 150 if quick else 20000
    for i in range(n_fn):
        m = (rng.below(4), rng.below(4))
        ops = []
        for _ in range(rng.range(1, 6)):
            k = rng.choice("aasz")
            ops.append("z" if k == "z" else f"{k}{rng.below(4)}.{rng.below(4)}")
        out.append({"kind": "fn_hw", "line": f"mat_hw {m[0]}.{m[1]} " + " ".join(ops), "show": "HighWaterMark " + " ".join(ops)})
    for i in range(n_fn):
        frames, k = [], 0
        for _ in range(rng.range(1, 4)):
            if rng.chance(1, 8):
                frames.append("-")
                continue
            rows = []
            for _ in range(rng.range(1, 3)):
                k += 1
                rows.append(f"{rng.range(1, 4)}.{rng.range(1, 6)}.{k}")
            frames.append(",".join(rows))
        # mostly increasing streams (what a refresh appends), some shuffled (what a fan-in delivers)
        if rng.chance(2, 3):
            frames = sorted(frames, key=lambda f: (f == "-", [tuple(int(x) for x in r.split(".")[:2]) for r in f.split(",")] if f != "-" else []))
        out.append({"kind": "fn_sink", "line": "mat_sink " + "|".join(frames), "show": "MaterializedSink.append " + " | ".join(frames)})
    # WatermarkDeduplicator::filter, once hooks/C14-watermark-dedup.diff is applied and the probe renamed
    if has_wm_probe():
        for i in range(n_fn):
            m = (rng.below(4), rng.below(5))
            frames = []
            k = 0
            for _ in range(rng.range(1, 3)):
                if rng.chance(1, 8):
                    frames.append("-")
                    continue
                rows = []
                for _ in range(rng.range(1, 4)):
                    k += 1
                    rows.append(f"{rng.below(5)}.{rng.below(6)}.{k}")
                frames.append(",".join(rows))
            out.append({"kind": "fn_wm", "line": f"matwm_filter {m[0]}.{m[1]} {rng.choice('1110')} " + "|".join(frames),
                        "show": f"WatermarkDeduplicator mark={m} " + " | ".join(frames)})
    # ---- engine level
    n = 50 if quick else 700
    for i in range(n):
        cfg = rng.choice(CFGS)
        out.append(mk_case("history", cfg, gen_history(rng, cfg, rng.range(6, 14))))
    for i in range(10 if quick else 150):
        cfg = rng.choice(CFGS)
        out.append(mk_case("payload_tf", cfg, gen_history(rng, cfg, rng.range(5, 10), tf="P")))
    for i in range(8 if quick else 100):
        cfg = rng.choice(CFGS)
        out.append(mk_case("limit", cfg, gen_history(rng, cfg, rng.range(5, 10), limit=True)))
    for i in range(6 if quick else 100):
        # frozen millisecond clock: ids are ordered by shard number, then sequence
        cfg = rng.choice([c for c in CFGS if c["shards"] > 1])
        ops = [("K", 0) + tuple([5] * 60)]
        ops += [("S", rng.below(6), 1, 0) for _ in range(rng.range(1, 3))]
        ops += [("R", 1, gen_query(rng) | {"ctx": None, "since": None, "where": None})]
        for _ in range(rng.range(1, 3)):
            ops += [("S", rng.below(6), 1, 0) for _ in range(rng.range(1, 3))]
            if rng.chance(1, 3):
                ops.append(("F",))
            ops.append(("H", 1))
        out.append(mk_case("frozen_clock", cfg, ops))
    fams = sorted(ALIAS_FAMILIES)
    for i in range(16 if quick else 400):
        cfg = rng.choice(CFGS)
        ops, aliases, ntypes = gen_views_history(rng, cfg, family=fams[i % len(fams)] if i < 2 * len(fams) else None)
        out.append(mk_case("views", cfg, ops, aliases=aliases, types=ntypes, frame_check=True))
    for i in range(14 if quick else 400):
        cfg = rng.choice(CFGS)
        out.append(mk_case("show_fault", cfg, gen_fault_history(rng, cfg)))
    for i in range(2 if quick else 40):
        cfg = rng.choice(CFGS)
        out.append(mk_case("show_fault_payload", cfg, gen_fault_history(rng, cfg, tf="P")))
    for i in range(6 if quick else 150):
        # the process dies between SHOW's persistence steps (effective once hooks/C14-show-steps.diff is applied)
        cfg = rng.choice(CFGS)
        q = gen_query(rng)
        q["since"] = None
        ops = [("S", rng.below(6), rng.below(4), 0) for _ in range(rng.range(1, 4))] + [("R", 1, q)]
        if rng.chance(1, 2):
            ops.append(("H", 1))
        for _ in range(rng.range(1, 2)):
            ops.append(("N", len(ops)))
            ops += [("S", rng.below(6), rng.below(4), 0) for _ in range(rng.range(2, 5))]
            ops.append(("HA", 1, rng.choice(["show_delta_appended", "show_delta_appended", "show_before_catalog"]), rng.range(1, 2)))
            ops += [("S", rng.below(6), rng.below(4), 0) for _ in range(rng.range(0, 2))]
            ops += [("H", 1), ("H", 1)]
        out.append(mk_case("show_crash", cfg, ops))
    for i in range(1 if quick else 25):
        # a response above the writer's 64 KiB buffer: the failure comes mid-stream and aborts the delta task
        cfg = {"shards": 1, "fill_factor": 50, "event_per_zone": 50}
        qall = {"ctx": None, "where": None, "since": None, "tf": "C", "ret": None, "limit": None}
        ops = [("B", 1400 + 50 * rng.below(4)), ("R", 1, qall), ("R", 2, qall), ("N", 2), ("F",), ("S", 0, 1, 0), ("S", 0, 1, 0), ("S", 0, 1, 0),
               ("F",), ("N", 4), ("S", 0, 1, 0), ("S", 0, 1, 0), ("HF", 1, rng.choice([0, 70000])), ("HF", 2, 0), ("H", 1), ("H", 2),
               ("S", 0, 1, 0), ("H", 1), ("H", 2)]
        out.append(mk_case("show_fault_big", cfg, ops))
    for i in range(4 if quick else 60):
        # wall clock stepping backwards between STOREs
        cfg = rng.choice(CFGS)
        ops = [("N", 5), ("S", 0, 1, 0), ("S", 1, 2, 0), ("R", 1, gen_query(rng) | {"since": None}), ("N", rng.range(2, 4)),
               ("S", rng.below(3), rng.range(1, 3), 0), ("H", 1), ("N", 9), ("S", 0, 2, 0), ("H", 1)]
        out.append(mk_case("backward_clock", cfg, ops))
    for i in range(4 if quick else 60):
        cfg = rng.choice([c for c in CFGS if c["shards"] == 1])
        cap = cfg["fill_factor"] * cfg["event_per_zone"]
        pre = rng.below(cap)
        ops = [("S", 0, 1, 0) for _ in range(pre)] + [("W", 1, gen_query(rng) | {"ctx": None, "since": None}, cap - pre), ("H", 1), ("S", 0, 1, 0), ("H", 1)]
        out.append(mk_case("flush_window", cfg, ops))
    for i in range(4 if quick else 60):
        cfg = rng.choice(CFGS)
        ops = [("S", rng.below(3), 1, 0), ("R", 1, gen_query(rng) | {"since": None, "where": None, "ctx": None}), ("N", 10)]
        ops += [("S", rng.below(3), 1, 0) for _ in range(rng.range(1, 3))] + [("F",), ("S", 0, 1, 0), ("H", 1), ("H", 1)]
        out.append(mk_case("future_clock", cfg, ops, future=True))
    return out
