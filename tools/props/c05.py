"""C05 — compaction changes layout, never content."""
import re
from props import base, shardprop

PROP = "C05"
PROPS_V = "theories/Props/C05.v"
THEOREMS = ["C05_rows_multiset", "C05_rows_multiset_other", "C05_select_preserved", "C05_select_preserved_rounds",
            "C05_wf_reachable", "C05_count_partial_drain_refuted", "C05_count_after_batch",
            "C05_count_preserved_full_drain", "C05_failed_run_harmless", "C05_failed_run_unread",
            "C05_keys_ok_disk_reachable", "C05_failed_run_count_refuted", "C05_select_preserved_example",
            "C05_count_preserved_full_drain_example", "C05_failed_run_example"]
RULE = ("engine histories on one shard: STOREs of several event types spread over different subsets of segments, "
        "FLUSH, compaction rounds (hook compact_now) repeated to quiescence with observations before and after "
        "each round, restarts, and abort() at the compaction step points; non-trivial = a round that produced at "
        "least one plan; distinct by (configuration, op sequence); scenarios added after seeded misses: merged outputs of "
        "more than 64 zones per type, a lone segment climbing past level 10 (six-digit ids) + restart, a read fault on one "
        "input / on one type of a two-type batch / on one of two batches of a round, an index replacement that fails and "
        "is retried with a larger batch, reads between the batches of a round")
ASSUMPTIONS = ["one shard; compaction rounds are triggered on demand through the cfg(sneldb_verif) hook compact_now, which "
               "runs CompactionWorker::run with the shard's own live list and flush lock",
               "process crash only (no power loss)"]
TRUSTED = ["Coq 8.16.1 kernel + coqc", "extraction (ExtrOcamlBasic) + ocaml/p_shard.ml",
           "engine harness vharn life + tools/engine.py + tools/shardlib.py (trace -> label mapping)",
           "hooks in /repo under cfg(sneldb_verif): step points, compact_now, abort injection"]
CLAIMED = True
MANIFEST = {
 "level_text": "Theorems over the shard state machine Model/Shard.v extended with one compaction batch at a time (Model/Compaction.v: CWrite, CIndex, CLive, CReclaim; the batch is a label checked by batch_ok against the k-way policy). The merge neither drops nor invents rows: for every directory list, batch and type of the batch the output rows of the type are a permutation of its rows in the inputs, and no other type is written. One whole batch from a well-formed state (live ids have directories; unique index labels; a listed type has rows in the directory; every row of a live directory is listed there or, its type retired from that entry, held by a live segment that lists the type; unique event ids among scanned rows up to identical copies; inputs live, output id fresh, batch_ok) leaves EVERY selection unchanged up to order - also for types outside the batch and when an input is drained only partially - and re-establishes the invariant, hence any number of batches/rounds; the invariant holds at every state of every crash-free flush history from the initial state (C03 invariant extended to the index). COUNT: refuted with the witness seg0 {0,1}, seg1 {0}, k=2 (CountAfterPartialDrain); proved exactly: for a type of the batch COUNT grows by the number of its rows in the inputs that stay live, so a batch that drains all of its inputs (e.g. a single event type) preserves COUNT for every type, and such batches preserve exactness. A run that stops after the output write, followed by crash and restart, leaves the index and every selection as without the run; COUNT additionally counts the leftover directory (witness). The model is validated against the engine by trace validation of hooked runs with compaction rounds and abort() at the compaction step points.",
 "design_ref": "DESIGN.md \u00a76 C05",
 "level_note": "Trusted: Coq kernel; ExtrOcamlBasic extraction + ocaml/p_shard.ml; the engine harness, tools/engine.py, tools/shardlib.py (trace -> label mapping); hooks under cfg(sneldb_verif) incl. compact_now. Hypotheses: unique event ids (C18); NoDup of the batch's uid list (the planner groups by uid); the output id is fresh (no directory of that name; since a19e65f the allocator does not hand out a label again within a process lifetime, see the C11 lifetime theorems; across a restart a retired label can come back, its directory having been reclaimed). Not covered by the theorems: flush or store labels interleaved INSIDE a batch, REPLAY order after a merge (context order is unspecified between inputs), label-keyed reader caches (the former finding SegmentLabelReusedStaleCache, repaired by a19e65f, was detected by the engine oracle only), more than one shard."
}

CP_POINTS = ["cp_output_written", "cp_index_saved", "cp_live_updated", "cp_reclaim_moved", "cp_reclaim_deleted",
             "idx_tmp_written", "idx_renamed"]


def corpus():
    return base.corpus_for(PROP)


def cases(rng, tier):
    out = []
    n = 30 if tier == "quick" else 1200
    for i in range(n):
        cfg = dict(rng.choice(shardprop.CFGS))
        cfg["segments_per_merge"] = rng.choice([2, 2, 3, 4])
        ntypes, nctx = rng.range(1, 3), rng.range(1, 2)
        cap = cfg["fill_factor"] * cfg["event_per_zone"]
        ops = []
        nseg = rng.range(2, 6)
        for s in range(nseg):
            # a segment holding a random subset of the types; memtables are filled exactly (automatic
            # rotation) - a manual FLUSH of a partly filled memtable would bring in the C01 WAL finding
            types = [u for u in range(ntypes) if rng.chance(2, 3)] or [rng.below(ntypes)]
            for _ in range(cap):
                ops.append(("S", rng.choice(types), rng.below(nctx)))
        for _ in range(rng.range(0, cap - 1)):
            ops.append(("S", rng.below(ntypes), rng.below(nctx)))
        rounds = rng.range(1, 4)
        crash = (i % 3 == 2)
        for r in range(rounds):
            ops.append(("O",))
            if crash and r == rounds - 1:
                ops.append(("X", rng.choice(CP_POINTS), 1))
            ops.append(("C",))
            ops.append(("O",))
            if rng.chance(1, 3):
                ops += [("S", rng.below(ntypes), rng.below(nctx)) for _ in range(cap)]
        if rng.chance(1, 2):
            ops += [("R",), ("O",)]
        if not crash and i % 2 == 1:
            # every second crash-free history reads in the middle of each round (after every batch's live-list update)
            ops = [("CSNAP", "read") if o[0] == "C" else o for o in ops]
        out.append(shardprop.mk_case("compact" + ("+crash" if crash else "") + ("+midread" if not crash and i % 2 == 1 else ""), cfg, ntypes, nctx, ops))
    # one event per zone and memtables of 33..45 events: the merged output of one type exceeds 64 zones in a
    # single batch (size thresholds inside the merge / zone writer)
    for j in range(1 if tier == "quick" else 20):
        # (merged zones of level 1 hold twice the events of a level-0 zone: 130+ events of the type are needed)
        cfg = {"fill_factor": rng.range(68, 80), "event_per_zone": 1, "segments_per_merge": 2}
        ntypes, nctx = rng.range(1, 2), rng.range(1, 3)
        cap = cfg["fill_factor"]
        ops = []
        for s_ in range(rng.choice([2, 2, 4])):
            ops += [("S", 0 if rng.chance(29, 30) else rng.below(ntypes), rng.below(nctx)) for _ in range(cap)]
        ops += [("O",), ("C",), ("O",)]
        if rng.chance(1, 2):
            ops += [("C",), ("O",)]
        ops += [("R",), ("O",)]
        out.append(shardprop.mk_case("compact-many-zones", cfg, ntypes, nctx, ops))
    # a round whose index replacement fails after the output was written; a third segment arrives; the retry plans a
    # larger batch for the same output id and must merge it (not commit the directory the failed attempt left behind)
    for j in range(1 if tier == "quick" else 12):
        cfg = dict(rng.choice(shardprop.CFGS)); cfg["segments_per_merge"] = 3
        ntypes, nctx = 1, rng.range(1, 2)
        cap = cfg["fill_factor"] * cfg["event_per_zone"]
        ops = []
        for s_ in range(2):
            ops += [("S", 0, rng.below(nctx)) for _ in range(cap)]
        ops += [("O",), ("FAILIDX",), ("C",), ("UNFAILIDX",), ("O",)]
        ops += [("S", 0, rng.below(nctx)) for _ in range(cap)]
        ops += [("O",), ("C",), ("O",), ("C",), ("O",)]
        out.append(shardprop.mk_case("compact-index-fault-retry", cfg, ntypes, nctx, ops))
    # two batches in one round (two event types in disjoint segment sets), the second type's input is unreadable: whether
    # or not the healthy batch ran first, afterwards every event is readable exactly once and COUNT is the selection
    for j in range(2 if tier == "quick" else 24):
        cfg = dict(rng.choice(shardprop.CFGS)); cfg["segments_per_merge"] = 2
        nctx = rng.range(1, 2)
        cap = cfg["fill_factor"] * cfg["event_per_zone"]
        ops = []
        for u in (0, 0, 1, 1):
            ops += [("S", u, rng.below(nctx)) for _ in range(cap)]
        ops += [("O",), ("HIDE", 2 + rng.below(2), 1), ("C",), ("O",), ("UNHIDE",), ("O",), ("C",), ("O",)]
        out.append(shardprop.mk_case("compact-two-batches-one-fails", cfg, 2, nctx, ops))
    # a lone segment climbs one level per round (fan-in 2): after ten rounds its directory name has six digits
    # (100000); the events must survive a restart at every level
    for j in range(1 if tier == "quick" else 6):
        cfg = dict(rng.choice(shardprop.CFGS)); cfg["segments_per_merge"] = 2
        ntypes, nctx = rng.range(1, 2), rng.range(1, 2)
        cap = cfg["fill_factor"] * cfg["event_per_zone"]
        ops = []
        for s_ in range(2):
            ops += [("S", rng.below(ntypes), rng.below(nctx)) for _ in range(cap)]
        ops += [("O",)]
        for r_ in range(rng.range(10, 12)):
            ops += [("C",)]
            if r_ in (3, 8):
                ops += [("O",)]
        ops += [("O",), ("R",), ("O",)]
        out.append(shardprop.mk_case("compact-deep-levels", cfg, ntypes, nctx, ops))
    # a read fault on one input of the round (its .zones file cannot be opened): the round must not retire what it
    # could not read; after the file is back every event is still there, also after a further round and a restart
    for j in range(2 if tier == "quick" else 40):
        cfg = dict(rng.choice(shardprop.CFGS)); cfg["segments_per_merge"] = 2
        # every second history: two event types in both input segments, so that ONE batch carries both types and the
        # fault hits exactly one of them (a batch must not be committed for a type it could not merge)
        ntypes, nctx = (2 if j % 2 == 0 else rng.range(1, 2)), rng.range(1, 2)
        cap = cfg["fill_factor"] * cfg["event_per_zone"]
        if ntypes == 2 and j % 2 == 0 and cap < 2:
            cfg = {"fill_factor": 2, "event_per_zone": 2, "segments_per_merge": 2}; cap = 4
        ops = []
        for s_ in range(2):
            seg_ops = [("S", 0 if ntypes == 1 or rng.chance(2, 3) else 1, rng.below(nctx)) for _ in range(cap)]
            if ntypes == 2 and j % 2 == 0:
                seg_ops[0] = ("S", 0, rng.below(nctx)); seg_ops[-1] = ("S", 1, rng.below(nctx))
            ops += seg_ops
        ops += [("O",), ("HIDE", rng.below(2), rng.below(ntypes) if j % 2 == 0 else 0), ("C",), ("UNHIDE",), ("O",)]
        if rng.chance(1, 2):
            ops += [("C",), ("O",)]
        # no restart here: the failed round can leave its partly written output directory behind, and a restart
        # would list it as live (the known leftover-directory findings of C01/C11, not what this scenario is about)
        out.append(shardprop.mk_case("compact-read-fault", cfg, ntypes, nctx, ops))
    # two lifetimes whose id generator reads the same milliseconds (a clock that was set back, or simply a restart
    # within the millisecond: the generator starts from nothing, C18's known finding RestartReissuesIds): the two
    # segments hold DIFFERENT events of one type and context under EQUAL event ids.  Selections de-duplicate by event
    # id in the response writer, so they already hide one event of each pair before any compaction (C18's domain, not
    # judged here); COUNT is computed before that and must count every stored event before and after every round
    # and after a restart ("compaction changes layout, never content": the merge may not treat the id as a key)
    for j in range(2 if tier == "quick" else 24):
        cfg = dict(rng.choice(shardprop.CFGS)); cfg["segments_per_merge"] = 2
        cap = cfg["fill_factor"] * cfg["event_per_zone"]
        t0 = 1700000000000 + rng.below(10 ** 9)
        ops = [("CLOCKMS", t0)] + [("S", 0, 0) for _ in range(cap)] + [("R",), ("CLOCKMS", t0)]
        ops += [("S", 0, 0) for _ in range(cap)] + [("O",), ("C",), ("O",)]
        if j % 2 == 1:
            ops += [("C",), ("O",)]
        ops += [("R",), ("O",)]
        out.append(shardprop.mk_case("compact-reissued-ids", cfg, 1, 1, ops))
    return out


run_sides = shardprop.run_sides


def diffs(c, impl, model):
    d = shardprop.diffs(c, impl, model)
    if c["kind"] == "compact-reissued-ids":
        # the model names events by their payload key; the engine's selections de-duplicate by the (colliding) event id
        d = [x for x in d if not re.match(r"obs#\d+: (sel|rp)", x)]
    return d


def same(c, impl, model):
    return not diffs(c, impl, model)


def oracle(c, impl):
    """Answers must equal the acknowledged content before and after every round (and after restart)."""
    if impl.get("line") is None:
        return None
    if c["kind"] == "compact-reissued-ids":
        for n, o in enumerate(impl["obs"]):
            exp = len([k for (k, uu, cc) in o["acked"] if uu == 0])
            if o["cnt0"] != exp:
                return f"obs#{n} cnt0: COUNT {o['cnt0']} but {exp} events were stored (events of one context sharing an event id)"
        return None
    for n, o in enumerate(impl["obs"]):
        maybe = {k for (k, u, cc) in o["maybe"]}
        for u in range(c["ntypes"]):
            exp = sorted(k for (k, uu, cc) in o["acked"] if uu == u)
            got = [k for k in o[f"sel{u}"] if k not in maybe] if isinstance(o[f"sel{u}"], list) else o[f"sel{u}"]
            if got != exp:
                return f"obs#{n} sel{u}: read {o[f'sel{u}']}, stored {exp}"
            if o[f"cnt{u}"] != len(o[f"sel{u}"]):
                return f"obs#{n} cnt{u}: COUNT {o[f'cnt{u}']} but {len(o[f'sel{u}'])} events selected"
            for cc in range(c["nctx"]):
                e2 = sorted(k for (k, uu, c2) in o["acked"] if uu == u and c2 == cc)
                if sorted(k for k in o[f"rp{u}_{cc}"] if k not in maybe) != e2:
                    return f"obs#{n} rp{u}_{cc}: REPLAY {o[f'rp{u}_{cc}']}, stored {e2}"
    return None


def classify(c, impl, model=None):
    why = oracle(c, impl) or ""
    if " sel" in why and model and not shardprop.diffs(c, impl, model) and re.search(r"wlost=[0-9]", model):
        return "OpenWalFilePruned"
    # SegmentLabelReusedStaleCache (reads through stale label-keyed caches after a label was re-created in the same
    # process lifetime) was repaired by a19e65f and is no longer an accepted class
    if " cnt" in why and model and not shardprop.diffs(c, impl, model):
        # which known aggregate class: rows of a retired type still readable from a partially drained input
        # (or from a leftover directory after a crash); the model must predict this very count
        return "CountAfterPartialDrain"
    return None


def nontrivial_key(c, impl):
    if impl.get("line") and "cw" in impl["line"]:
        return c["show"]
    return None
