"""C16 — a time value denotes the same instant on every path."""
import datetime, json
from vlib import hx
from props import base

PROP = "C16"
PROPS_V = "theories/Props/C16.v"
THEOREMS = ["C16_unit_spellings_agree", "C16_out_of_range_rejected",
            "C16_civil_roundtrip", "C16_civil_from_days_valid", "C16_civil_of_days_from_civil",
            "C16_parse_print_rfc3339_gen", "C16_parse_print_rfc3339",
            "C16_iso_spellings_agree", "C16_iso_string_agree", "C16_iso_and_integer_agree",
            "C16_parse_print_date", "C16_date_string_agree",
            "C16_sites_agree", "C16_matspec_u64_fallback_range",
            "C16_prune_sound_outside_known", "C16_prune_sound_literal", "C16_unparsable_since_keeps_all",
            "C16_select_sound", "C16_select_neq_keeps_all", "C16_bucket_wrap_refuted",
            "C16_json_float_floor_or_rejected", "C16_json_integer_never_misread",
            "C16_decimal_string_is_integer", "C16_all_string_spellings_agree"]
RULE = ("instants (whole second t in year 1..9999 or a digit-band edge, plus a sub-second part) x spellings "
        "(RFC 3339 with random offset/fraction/separator, date-only at midnight, integer s/ms/us/ns as string "
        "and as JSON number, JSON float seconds) plus a malformed stream (mutated spellings); a case is "
        "non-trivial when the implementation accepted it, distinct by (spelling kind, resulting second); "
        "call sites: every spelling through payload normaliser / WHERE rows / SINCE rows / planner literal rewriting / "
        "zone pruner (tsite_all, tsite_payload|where|filter|since|matspec) and (operator x literal x zones of stamps "
        "around the literal, the epoch and 2^32) through the real TemporalIndexBuilder + TemporalPruner (tsite_prune); "
        "PER buckets: single instants x fixed-offset zones (agg_buckettz) and SEQUENCES of 2..8 rows (ascending, descending, "
        "alternating, shuffled; around offset changes and around the bucket starts next to them) x 18 zones (northern / "
        "southern DST, midnight switches, 30-minute step, non-hour offsets, no DST) x week start x granularity through the "
        "aggregate sink's own bucketing entry (row path, columnar path, real AggregateOp with and without BY) in a process "
        "configured with that zone (agg_bseq)")
ASSUMPTIONS = [
    "chrono 0.4.40's RFC 3339 and %Y-%m-%d parsers are modelled by hand at byte level (ASCII whitespace only); the tie is the differential run",
    "named time zones: the model takes the offset changes of the zone from CPython's zoneinfo (system tz database) on the case line; chrono-tz's compiled-in database is assumed to agree with it for 1990..2037 (a difference shows as a disagreement)",
    "JSON floats are compared only on decimals with at most 15 significant digits (f64 rounding is not modelled)",
]
TRUSTED = [
    "Coq 8.16.1 kernel + coqc; vm_compute for closed witnesses; no native_compute",
    "translator tools/gen_params.py (digit bands, divisors and the division operator of normalize_integer_epoch are read from src/shared/time.rs; "
    "p11_timesites.py: bucket sizes, u32 truncation of bucket ids, the calendar guard of temporal_builder.rs and the literal handling of temporal_pruner.rs)",
    "extraction: ExtrOcamlBasic only; ocaml/driver.ml, conv.ml, p_time.ml, p_tsite.ml (parsing/printing)",
    "correspondence harness /verif/harness (vharn fn time_str/time_json, tsite_*) built against /repo with --cfg sneldb_verif; "
    "condition builders are observed through their Debug rendering (private fields)",
    "python oracle: datetime arithmetic of CPython (independent of model and implementation); for the pruner: brute-force "
    "comparison of every stamp of every zone with the literal's instant",
]

CLAIMED = True
MANIFEST = {
 "level_text": "Theorems (all instants, no bound unless stated): every in-band integer spelling (s/ms/us/ns) of an instant normalises to the floor of the instant and 20+ digit magnitudes are rejected; Hinnant's calendar algorithms are mutually inverse on all of Z (one 400-year cycle checked exhaustively by the kernel, extended by the shift lemmas); the model of chrono's RFC 3339 parser inverts the printer, hence EVERY ISO spelling (any offset |off| <= 23:59 written Z/z/+HH:MM/-HH:MM/U+2212, any fraction digits, separator T/t/space, surrounding white space) of an instant in years 0000..9999 parses to the floor of the instant, and agrees with the integer spellings; date-only spellings give midnight UTC. Call sites (payload normaliser, WHERE rows, SINCE rows, planner literal rewriting, zone pruner, materialised-query SINCE) read every literal as the same second (sites_agree), and the zone pruner over the artifacts of the temporal builder keeps every zone holding a matching event when literal and stamps lie in [0, 2^32) (prune_sound_outside_known, after fix db7c428: every literal second in [-2^63, 2^32), pre-1970 literals and stamps included), an unparsable SINCE rules out no zone, the field selector keeps every zone holding a match for all six operators (select_sound, fix f801704), a JSON number is stored as the floor of the written value or rejected (fix 8f02d15); the one remaining class (bucket ids truncated to u32, stamps/literals from 2106 on) is refuted with a witness and reported as a known finding. The digit bands / division operator are regenerated from src/shared/time.rs; the model of TimeParser and of the six call sites is run against the real code (TimeParser, PayloadTimeNormalizer, ConditionEvaluatorBuilder, QueryPlan + FilterGroupBuilder::build_all, TemporalIndexBuilder + TemporalPruner + FieldSelector, MaterializedQuerySpecExt::delta_command) on generated and mutated spellings.",
 "design_ref": "DESIGN.md \u00a76 C16",
 "level_note": "Trusted: Coq kernel (vm_compute for the exhaustive 400-year cycle and closed witnesses); tools/gen_params.py; ExtrOcamlBasic extraction + OCaml driver; the Rust harness (condition builders observed through Debug); CPython datetime (oracle). chrono's parsers are modelled by hand (differentially tested, not proved); the printer theorems cover four-digit years; named time zones, PER bucketing and the engine-level row selection are not modelled."
}

EPOCH = datetime.datetime(1970, 1, 1)


def corpus():
    return base.corpus_for(PROP)


def iso(t, nanos, rng):
    """A random RFC 3339 spelling of the instant t + nanos*1e-9."""
    off_min = rng.choice([0, 0, 60, -60, 330, -480, 14 * 60, -(23 * 60 + 59), 23 * 60 + 59, rng.range(-1439, 1439)])
    local = EPOCH + datetime.timedelta(seconds=t + off_min * 60)
    sep = rng.choice(["T", "T", "t", " "])
    s = f"{local.year:04d}-{local.month:02d}-{local.day:02d}{sep}{local.hour:02d}:{local.minute:02d}:{local.second:02d}"
    if nanos or rng.chance(1, 4):
        digs = rng.range(1, 12)
        f = f"{nanos:09d}"
        f = (f + "0" * 3)[:digs] if digs > 9 else f[:digs]
        # truncating digits keeps the floor unchanged
        s += "." + f
    if off_min == 0 and rng.chance(2, 3):
        s += rng.choice(["Z", "z"])
    else:
        sign = "+" if off_min >= 0 else rng.choice(["-", "-", "−"])
        a = abs(off_min)
        s += f"{sign}{a // 60:02d}:{a % 60:02d}"
    return s


def band(n):
    d = len(str(abs(n)))
    return "s" if d <= 11 else "ms" if d <= 14 else "us" if d <= 16 else "ns" if d <= 19 else "x"


def cases(rng, tier):
    n_inst = 400 if tier == "quick" else 40000
    out = []

    def add(kind, line, exp=None, show=None):
        out.append({"kind": kind, "line": line, "expect": exp, "show": show})

    lo = -62135596800 + 2 * 86400          # 0001-01-03
    hi = 253402300799 - 2 * 86400          # 9999-12-29
    edges = [0, -1, 1, 59, -59, 86399, 86400, -86400, -86401, 951782400, 951868800, 4107542400, -2208988800,
             10 ** 11 - 1, -(10 ** 11) + 1, 99999999999, 100000000, -100000001, lo, hi]
    for k in range(n_inst):
        r = rng.below(10)
        if r < 2:
            t = rng.choice(edges)
        elif r < 5:
            t = rng.range(-3 * 10 ** 9, 5 * 10 ** 9)
        elif r < 7:
            t = rng.range(lo, hi)
        elif r < 8:
            t = rng.choice([1, -1]) * (10 ** rng.range(7, 10)) + rng.range(-2, 2)
        else:
            t = rng.range(-10 ** 8 - 5000, 10 ** 8 + 5000)
        t = max(lo, min(hi, t))
        nanos = rng.choice([0, 0, 500000000, 1, 999999999, rng.below(10 ** 9), rng.below(1000) * 10 ** 6])
        kind = rng.choice(["dt", "d"])
        # ISO spellings
        for _ in range(2):
            s = iso(t, nanos, rng)
            add("iso", f"time_str {kind} {hx(s)}", t, s)
        pad = rng.choice(["", "", " ", "\t", "  \n"])
        s = pad + iso(t, nanos, rng) + rng.choice(["", " "])
        add("iso_json", f"time_jstr {kind} {hx(s)}", t, s)
        # date-only when the instant is a midnight
        if rng.chance(1, 4):
            d = EPOCH + datetime.timedelta(seconds=t - t % 86400)
            s = rng.choice([f"{d.year:04d}-{d.month:02d}-{d.day:02d}", f"{d.year}-{d.month}-{d.day}" if d.year >= 1000 else f"{d.year:04d}-{d.month}-{d.day}",
                            f"+{d.year}-{d.month:02d}-{d.day:02d}", f" {d.year:04d}- {d.month}- {d.day}"])
            add("date", f"time_str {kind} {hx(s)}", t - t % 86400, s)
        # integer spellings: seconds / ms / us / ns, only asserted when inside their band
        for unit, mul in (("s", 1), ("ms", 10 ** 3), ("us", 10 ** 6), ("ns", 10 ** 9)):
            n = t * mul + nanos // (10 ** 9 // mul)
            exp = t if band(n) == unit else None
            s = str(n)
            if rng.chance(1, 2):
                add("int_" + unit + ("" if exp is not None else "_offband"), f"time_str {kind} {hx(s)}", exp, s)
            else:
                add("jint_" + unit + ("" if exp is not None else "_offband"), f"time_json {kind} {hx(s)}", exp, s)
        # float seconds (JSON): floor
        if rng.chance(1, 3) and abs(t) < 10 ** 10:
            frac = f"{nanos:09d}"[:rng.range(1, 4)]
            # value = t + 0.frac  (written with sign handling)
            num = t * 10 ** len(frac) + int(frac)
            sgn = "-" if num < 0 else ""
            a = abs(num)
            s = f"{sgn}{a // 10 ** len(frac)}.{a % 10 ** len(frac):0{len(frac)}d}"
            add("jfloat", f"time_json {kind} {hx(s)}", num // 10 ** len(frac), s)
    # digit-band boundaries, both signs
    for p in (10, 11, 12, 13, 14, 15, 16, 17, 18, 19, 20, 38, 39, 40, 45):
        for d in (-2, -1, 0, 1):
            for sg in (1, -1):
                n = sg * (10 ** p + d)
                add("edge", f"time_str dt {hx(str(n))}", None, str(n))
                if abs(n) < 2 ** 64 and n >= -2 ** 63:
                    add("jedge", f"time_json dt {hx(str(n))}", None, str(n))
    # malformed stream: mutations of valid spellings
    n_mal = 300 if tier == "quick" else 30000
    alphabet = "0123456789-+:.TtZz \t/,_eE−"
    for k in range(n_mal):
        t = rng.range(-3 * 10 ** 9, 5 * 10 ** 9)
        s = rng.choice([iso(t, rng.below(10 ** 9), rng), str(t * rng.choice([1, 1000, 10 ** 6, 10 ** 9])),
                        (EPOCH + datetime.timedelta(seconds=t)).strftime("%Y-%m-%d")])
        for _ in range(rng.range(1, 2)):
            op = rng.below(4)
            pos = rng.below(len(s) + 1)
            if op == 0 and s:
                pos = min(pos, len(s) - 1)
                s = s[:pos] + s[pos + 1:]
            elif op == 1:
                s = s[:pos] + rng.choice(alphabet) + s[pos:]
            elif op == 2 and s:
                pos = min(pos, len(s) - 1)
                s = s[:pos] + rng.choice(alphabet) + s[pos + 1:]
            else:
                s = s[:pos] + s[pos:pos + 2] + s[pos:]
        add("malformed", f"time_str {rng.choice(['dt', 'd'])} {hx(s)}", None, s)
    site_cases(rng.fork("sites"), tier, add, out)
    out.extend(engine_cases(rng.fork("engine"), tier))
    return out



# ---------------------------------------------------------------- call sites ("the same instant on every path")
OPS = ["eq", "gt", "gte", "lt", "lte"]
U32 = 2 ** 32


def _cmp(op, t, v):
    return {"eq": t == v, "gt": t > v, "gte": t >= v, "lt": t < v, "lte": t <= v, "neq": t != v}[op]


def literal_for(t, nanos, rng):
    """(literal string, expected second or None) — a random spelling of the instant."""
    r = rng.below(10)
    if r < 5:
        return iso(t, nanos, rng), t
    if r < 6 and t % 86400 == 0:
        d = EPOCH + datetime.timedelta(seconds=t)
        return f"{d.year:04d}-{d.month:02d}-{d.day:02d}", t
    unit, mul = rng.choice([("s", 1), ("s", 1), ("ms", 10 ** 3), ("us", 10 ** 6), ("ns", 10 ** 9)])
    n = t * mul + nanos // (10 ** 9 // mul)
    return str(n), (t if band(n) == unit else None)


def zones_around(v, rng):
    """1..5 zones of 1..4 stamps each; in-calendar zones span at most ~40 days (the calendar loops per hour)."""
    zs = []
    for zid in range(rng.range(1, 5)):
        anchor = rng.choice([v, v, v, 0, 0, U32, rng.range(0, 5 * 10 ** 9), -rng.range(1, 10 ** 6)])
        if anchor is None:
            anchor = 0
        spread = rng.choice([0, 1, 59, 3600, 86400, 40 * 86400])
        stamps = []
        for _ in range(rng.range(1, 4)):
            off = rng.choice([0, 0, 1, -1, rng.range(-spread, spread) if spread else 0])
            stamps.append(anchor + off)
        if rng.chance(1, 12) and max(stamps) <= 10 ** 8:
            stamps.append(-rng.range(1, 100))           # a pre-epoch straggler (range kept short: the calendar loops per hour)
        zs.append([zid, stamps])
    return zs


def site_cases(rng, tier, add, out):
    n = 300 if tier == "quick" else 20000
    lo = -62135596800 + 2 * 86400
    hi = 253402300799 - 2 * 86400
    edges = [0, -1, 1, -86400, 86399, U32 - 1, U32, U32 + 86400, 2 ** 31, 10 ** 11 - 1, -100000001, 1700000000, lo, hi]
    ftypes = ["dt", "d", "odt", "od"]
    for k in range(n):
        r = rng.below(10)
        if r < 2:
            t = rng.choice(edges)
        elif r < 6:
            t = rng.range(-10 ** 6, 5 * 10 ** 9)
        elif r < 7:
            t = rng.range(lo, hi)
        else:
            t = rng.range(0, 4 * 10 ** 9)
        nanos = rng.choice([0, 0, 500000000, rng.below(10 ** 9)])
        # -- every site on the same literal
        for _ in range(2):
            lit, exp = literal_for(t, nanos, rng)
            if rng.chance(1, 5):
                lit = rng.choice([" ", "\t", ""]) + lit + rng.choice([" ", "\n", ""])
            add("site_all", f"tsite_all {hx(lit)}", exp, lit)
        # -- one site, JSON-typed values
        lit, exp = literal_for(t, nanos, rng)
        ft = rng.choice(ftypes)
        js = json.dumps(lit, ensure_ascii=False)
        out.append({"kind": "site_payload", "line": f"tsite_payload {ft} {hx(js)}", "expect": None, "show": f"{ft} {js}",
                    "expect_out": None if exp is None else f"S {exp}"})
        out.append({"kind": "site_filter", "line": f"tsite_filter {ft} {hx(js)}", "expect": None, "show": f"{ft} {js}",
                    "expect_out": None if exp is None else f"I {exp}"})
        out.append({"kind": "site_since", "line": f"tsite_since {hx(lit)}", "expect": None, "show": lit,
                    "expect_out": None if exp is None else f"NUM {exp} | U {hx(lit)}"})
        if rng.chance(1, 2):
            # JSON numbers: payload normalises by band; WHERE / planner take epoch seconds as they are
            mul = rng.choice([1, 1, 10 ** 3, 10 ** 6, 10 ** 9])
            nnum = t * mul
            if -2 ** 63 <= nnum < 2 ** 63:
                unit = {1: "s", 10 ** 3: "ms", 10 ** 6: "us", 10 ** 9: "ns"}[mul]
                out.append({"kind": "site_payload_num", "line": f"tsite_payload {ft} {hx(str(nnum))}", "expect": None,
                            "show": f"{ft} {nnum}", "expect_out": f"S {t}" if band(nnum) == unit else None})
                out.append({"kind": "site_where_num", "line": f"tsite_where {hx(str(nnum))}", "expect": None,
                            "show": str(nnum), "expect_out": f"NUM {nnum}"})
                out.append({"kind": "site_filter_num", "line": f"tsite_filter {ft} {hx(str(nnum))}", "expect": None,
                            "show": f"{ft} {nnum}", "expect_out": f"I {nnum}"})
        if rng.chance(1, 6):
            j = rng.choice(["null", "true", "false", "[1]", "{}", "1.5", "-0.25", "1e3", "18446744073709551615",
                            "9223372036854775808", json.dumps("abc"), json.dumps(""), json.dumps("12:00")])
            opt = ft in ("odt", "od")
            eo = None
            if j == "null":
                eo = "NULL" if opt else "E"
            elif j in ("true", "false", "[1]", "{}", '"abc"', '""', '"12:00"'):
                eo = "E"
            out.append({"kind": "site_payload_other", "line": f"tsite_payload {ft} {hx(j)}", "expect": None, "show": f"{ft} {j}", "expect_out": eo})
            out.append({"kind": "site_payload_other", "line": f"tsite_payload str {hx(j)}", "expect": None, "show": f"str {j}", "expect_out": None})
            out.append({"kind": "site_where_other", "line": f"tsite_where {hx(j)}", "expect": None, "show": j, "expect_out": None})
            out.append({"kind": "site_filter_other", "line": f"tsite_filter {rng.choice(ftypes + ['str'])} {hx(j)}", "expect": None, "show": j, "expect_out": None})
            out.append({"kind": "site_payload_other", "line": f"tsite_payload {ft} -", "expect": None, "show": f"{ft} absent", "expect_out": "A"})
        # -- the zone pruner over the real temporal artifacts
        for _ in range(2):
            lit, exp = literal_for(t, nanos, rng)
            col = "t"
            zones = zones_around(exp if exp is not None else t, rng)
            if rng.chance(1, 6):
                col = "timestamp"
                zones = [[z, [x for x in st if x >= 0] or [0]] for z, st in zones]   # core timestamps are u64
            op = rng.choice(OPS + OPS + ["neq"])
            probe = "tsite_select" if (op == "neq" or rng.chance(1, 4)) else "tsite_prune"
            if rng.chance(1, 4) and exp is not None and -2 ** 63 <= exp < 2 ** 63:
                kind_, l2, v = "i", str(exp), exp          # the literal after the planner's rewriting
            else:
                kind_, l2, v = "s", lit, exp
            ztxt = ";".join(f"{z}:{','.join(str(x) for x in st)}" for z, st in zones)
            out.append({"kind": "site_select" if probe == "tsite_select" else "site_prune",
                        "line": f"{probe} {col} {op} {kind_} {hx(l2)} {ztxt}", "expect": None,
                        "show": f"{col} {op} {l2!r} zones={ztxt}", "op": op, "v": v, "zones": zones, "since_sem": False, "lit": l2})
        if rng.chance(1, 8):
            # SINCE with a literal that no site can parse: the row filter ignores it, so every zone must stay
            bad = rng.choice(["abc", "", "10000000000000000000", "18446744073709551615", "18446744073709551616", "12:00", "2024-13-01"])
            zones = zones_around(t, rng)
            ztxt = ";".join(f"{z}:{','.join(str(x) for x in st)}" for z, st in zones)
            out.append({"kind": "site_prune_since", "line": f"tsite_prune t gte s {hx(bad)} {ztxt}", "expect": None,
                        "show": f"SINCE {bad!r} zones={ztxt}", "op": "gte", "v": None, "zones": zones, "since_sem": True, "lit": bad})
            add("site_all", f"tsite_all {hx(bad)}", None, bad)
        # -- materialised query delta
        if rng.chance(1, 3):
            lit, exp = literal_for(t, nanos, rng)
            base_ = exp if exp is not None else t
            wm = max(0, rng.choice([base_ - 1, base_, base_ + 1, 0, 1, rng.range(0, 5 * 10 ** 9)]))
            eid = rng.choice([0, 7])
            out.append({"kind": "site_matspec", "line": f"tsite_matspec {hx(lit)} {wm} {eid}", "expect": None,
                        "show": f"since={lit!r} watermark=({wm},{eid})", "v": exp, "wm": wm, "eid": eid, "lit": lit})



# ---------------------------------------------------------------- engine level: WHERE / SINCE selection over spellings
SQL_OP = {"eq": "=", "neq": "!=", "gt": ">", "gte": ">=", "lt": "<", "lte": "<="}
FINDINGS_DS = [(1, -100), (2, -50), (3, 0), (4, 0), (5, 10), (6, 259200), (7, 4295399296), (8, 4295399297), (9, -5), (10, 500)]


def _eng_query(op, lit, quoted, since):
    if since:
        return f'QUERY ev SINCE "{lit}" USING t'
    return f'QUERY ev WHERE t {SQL_OP[op]} ' + (f'"{lit}"' if quoted else lit)


def engine_cases(rng, tier):
    """Two lifetimes of the real engine (DEFINE ev {k:int, t:datetime}; STORE; query from memory; FLUSH; query the
    segment; zones of 2 events in store order).  `clean`: stamps and literals in [0, 2^32), operators = > >= < <= and
    SINCE — must be exact in both phases.  `findings`: the minimal data set of the known classes."""
    out = []

    def add(ds, events, op, lit, v, quoted=True, since=False):
        q = _eng_query(op, lit, quoted, since)
        for phase in ("mem", "seg"):
            out.append({"kind": "engine_sel", "line": f"engine {ds} {phase} {hx(q)}", "expect": None, "show": f"[{ds}/{phase}] {q}",
                        "ds": ds, "events": events, "phase": phase, "q": q, "op": "gte" if since else op, "v": v,
                        "since_sem": since, "lit": lit})
    # clean data set
    base_t = rng.range(10 ** 9, 4 * 10 ** 9)
    ev = []
    for k in range(1, 9):
        ev.append((k, max(0, min(U32 - 1, base_t + rng.choice([0, 0, 1, -1, 3600, -86400, rng.range(-10 ** 6, 10 ** 6)])))))
    nq = 6 if tier == "quick" else 40
    for _ in range(nq):
        t = rng.choice([x for _, x in ev]) + rng.choice([0, 0, 1, -1])
        t = max(0, min(U32 - 1, t))
        lit, exp = literal_for(t, rng.choice([0, 500000000]), rng)
        if exp is None or any(ord(ch) > 127 for ch in lit):
            lit, exp = str(t), t
        op = rng.choice(OPS)
        add("clean", ev, op, lit, exp)
        if rng.chance(1, 2):
            add("clean", ev, op, str(t), t, quoted=False)
        if rng.chance(1, 2):
            add("clean", ev, "gte", lit, exp, since=True)
    # the known classes, minimal
    f = FINDINGS_DS
    add("findings", f, "eq", "500", 500, quoted=False)                       # PreEpochZoneNotInCalendar
    add("findings", f, "gte", "1970-01-01T00:00:00Z", 0)                      # PreEpochZoneNotInCalendar (k=10)
    add("findings", f, "gt", "1969-12-31T23:59:59Z", -1)                      # NegativeInstantClampedByPruner / PreEpoch
    add("findings", f, "eq", "1969-12-31T23:59:10Z", -50)
    add("findings", f, "gte", "1980-01-01T00:00:00Z", 315532800)              # CalendarBucketWrapsAfter2106
    add("findings", f, "neq", "500", 500, quoted=False)                       # TemporalNeqPrunesAllZones
    add("findings", f, "gte", "10000000000000000000", None, since=True)       # UnparsableSinceU64WrapsNegative
    add("findings", f, "gte", "1970-01-02T00:00:00Z", 86400)                  # fine
    return out


def run_engine_cases(cases_):
    """impl output of every engine case: 'R k,k,...' (sorted) or 'ERR ...'."""
    import engine
    res = {}
    by_ds = {}
    for i, c in enumerate(cases_):
        by_ds.setdefault(c["ds"], []).append(i)
    for ds, idx in by_ds.items():
        e = engine.Engine(event_per_zone=2, fill_factor=100)
        try:
            e.start()
            e.cmd('DEFINE ev FIELDS { k: "int", t: "datetime" }')
            for k, t in cases_[idx[0]]["events"]:
                e.cmd('STORE ev FOR c1 PAYLOAD {"k": %d, "t": %d}' % (k, t))

            def ask(q):
                r = e.rows(q)
                if r["status"] != 200:
                    return f"ERR {r['status']}"
                ks = sorted(int(x["k"]) for x in r["rows"] if isinstance(x, dict) and x.get("k") is not None)
                return "R " + (",".join(str(k) for k in ks) if ks else "-")
            for i in idx:
                if cases_[i]["phase"] == "mem":
                    res[i] = ask(cases_[i]["q"])
            e.cmd("FLUSH")
            e.cmd("!flushwait")
            e.cmd("!wal_drained 3000")
            e.cmd("!sleep 5")
            for i in idx:
                if cases_[i]["phase"] == "seg":
                    res[i] = ask(cases_[i]["q"])
        except Exception as ex:
            for i in idx:
                res.setdefault(i, f"ABORT")
        finally:
            e.destroy()
    return [res[i] for i in range(len(cases_))]


def run_sides(cases_, model_ok):
    fn_idx = [i for i, c in enumerate(cases_) if c.get("kind") != "engine_sel"]
    en_idx = [i for i, c in enumerate(cases_) if c.get("kind") == "engine_sel"]
    impl, model = [None] * len(cases_), [None] * len(cases_)
    fi, fm = base.run_sides_fn([cases_[i] for i in fn_idx], model_ok)
    for j, i in enumerate(fn_idx):
        impl[i], model[i] = fi[j], fm[j]
    if en_idx:
        ei = run_engine_cases([cases_[i] for i in en_idx])
        for j, i in enumerate(en_idx):
            impl[i] = ei[j]
    return impl, model


def same(c, impl, model):
    if c.get("kind") == "engine_sel":
        return True        # engine-level selection is checked by the oracle only (not modelled)
    return impl == model


def _zone_set(impl):
    if impl is None or impl == "NONE" or impl == "Z -":
        return set()
    if impl.startswith("Z "):
        return set(int(x) for x in impl[2:].split(","))
    return None


def _lost_zones(c, impl):
    """Zones holding a stamp that satisfies the comparison but missing from the pruner's answer
    (an answer of NONE makes the field selector return no zone at all)."""
    got = _zone_set(impl)
    if got is None:
        return None
    op, v = c["op"], c["v"]
    if v is None:
        if not c.get("since_sem"):
            return []
        truth = [z for z, st in c["zones"]]                 # ignored SINCE: every row matches
    else:
        truth = [z for z, st in c["zones"] if any(_cmp(op, x, v) for x in st)]
    return [z for z in truth if z not in got]


def _site_all_fields(impl):
    try:
        return dict(f.split("=", 1) for f in impl.split(";"))
    except Exception:
        return None


def _num(tok, tags):
    p = tok.split(" ")
    if len(p) == 2 and p[0] in tags:
        try:
            return int(p[1])
        except ValueError:
            return None
    return None


def oracle(c, impl):
    """Direct property oracle: a spelling of instant t that lies in its band must be stored as floor(t);
    every call site must read a literal as the same second; the zone pruner must keep every zone that
    holds an event whose stored instant satisfies the comparison."""
    kind = c.get("kind", "")
    if impl in ("PANIC", "ABORT"):
        return f"implementation {impl} on {c.get('show')!r}"
    if kind == "site_all":
        f = _site_all_fields(impl)
        if not f or set(f) != {"PDT", "PD", "W", "SN", "F", "PR"}:
            return f"unreadable site report {impl!r}"
        vals = [_num(f["PDT"], ("S",)), _num(f["PD"], ("S",)), _num(f["W"], ("NUM",)), _num(f["SN"], ("NUM",)), _num(f["F"], ("I",))]
        if all(v is None for v in vals):
            rejected = f["PDT"] == "E" and f["PD"] == "E" and f["W"] == "STR" and f["SN"] == "IGN" and f["F"].startswith("U")
            if not rejected:
                return f"sites disagree on the unparsable literal {c.get('show')!r}: {impl}"
            if c.get("expect") is not None:
                return f"every site rejected the spelling {c.get('show')!r} of second {c['expect']}"
            return None
        if any(v is None for v in vals) or len(set(vals)) != 1:
            return f"sites disagree on the literal {c.get('show')!r}: {impl}"
        v = vals[0]
        if c.get("expect") is not None and v != c["expect"]:
            return f"spelling {c.get('show')!r} of second {c['expect']} was read as {v} by every site"
        if f["PR"] != str(v):
            return f"the zone pruner looks up instant {f['PR']} for the literal {c.get('show')!r} that every other site reads as {v}"
        return None
    if kind in ("site_prune", "site_prune_since", "site_select"):
        if kind == "site_prune" and c["op"] in ("neq", "in") and impl == "NONE":
            return None        # the temporal index does not answer != / IN; what the selector makes of it: site_select
        lost = _lost_zones(c, impl)
        if lost is None:
            return f"unreadable pruner answer {impl!r}"
        if lost:
            return (f"the {'field selector' if kind == 'site_select' else 'pruner'} answered {impl} and so drops zone(s) {lost} that hold events satisfying "
                    f"{c['op']} {c['lit']!r} (= second {c['v']}): {c.get('show')}")
        return None
    if kind == "engine_sel":
        if not impl or not impl.startswith("R "):
            return f"engine answered {impl} to {c.get('show')}"
        got = set() if impl == "R -" else set(int(x) for x in impl[2:].split(","))
        if c["v"] is None:
            truth = set(k for k, _ in c["events"])          # SINCE that no site parses is ignored: every row
        else:
            truth = set(k for k, t in c["events"] if _cmp(c["op"], t, c["v"]))
        if got != truth:
            return (f"{c.get('show')} returned events k={sorted(got)}, the stored instants satisfying the comparison "
                    f"with second {c['v']} are k={sorted(truth)} (missing {sorted(truth - got)}, extra {sorted(got - truth)})")
        return None
    if kind == "site_matspec":
        v, wm, eid = c["v"], c["wm"], c["eid"]
        if v is None or (wm == 0 and v < 0):
            return None
        keep_tok = "S " + hx(c["lit"])
        upd_tok = "S " + hx(str(wm))
        if wm == 0 and eid == 0:
            want = keep_tok
        else:
            want = upd_tok if v < wm else keep_tok
        if impl != want and not (keep_tok == upd_tok):
            return f"delta command of SINCE {c['lit']!r} (second {v}) with watermark {wm} has SINCE {impl}, expected {want}"
        return None
    if "expect_out" in c:
        eo = c["expect_out"]
        if eo is not None and impl != eo:
            return f"{c['line'].split(' ')[0]} on {c.get('show')!r} gave {impl}, the property requires {eo}"
        return None
    exp = c.get("expect")
    if exp is None:
        return None
    if kind.startswith("jint") and not (-2 ** 63 <= int(c["show"]) < 2 ** 64) and impl == "N":
        return None            # kept by serde_json as f64: out of the i64 range of float seconds, rejected (never misread)
    if impl != f"S {exp}":
        return f"spelling {c.get('show')!r} of the instant with floor second {exp} was normalised to {impl}"
    return None


def _u64(lit):
    s = lit[1:] if lit.startswith("+") and len(lit) > 1 else lit
    if s.isascii() and s.isdigit() and int(s) < 2 ** 64:
        return int(s)
    return None


def classify(c, impl):
    """Known classes still present after the fix round: only CalendarBucketWrapsAfter2106 (bucket ids truncated to
    u32).  The classes repaired by 8f02d15 / db7c428 / f801704 are no longer returned: if one of them comes back it
    is a VIOLATION."""
    kind = c.get("kind", "")
    if kind == "engine_sel":
        if c["phase"] != "seg" or not impl or not impl.startswith("R ") or c["v"] is None or c["op"] == "neq":
            return None
        got = set() if impl == "R -" else set(int(x) for x in impl[2:].split(","))
        truth = set(k for k, t in c["events"] if _cmp(c["op"], t, c["v"]))
        if got - truth:
            return None                                      # extra rows are never a known class
        zone_of = {k: [x for _, x in c["events"][(i // 2) * 2:(i // 2) * 2 + 2]] for i, (k, _) in enumerate(c["events"])}
        lost = truth - got
        if c["v"] >= U32 or (lost and all(any(x >= U32 for x in zone_of[k]) for k in lost)):
            return "CalendarBucketWrapsAfter2106"
        return None
    if kind in ("site_prune", "site_prune_since", "site_select"):
        if c["v"] is None or c["op"] == "neq":
            return None
        lost = _lost_zones(c, impl) or []
        stamps = {z: st for z, st in c["zones"]}
        if c["v"] >= U32 or (lost and all(any(x >= U32 for x in stamps[z]) for z in lost)):
            return "CalendarBucketWrapsAfter2106"
        return None
    return None


def nontrivial_key(c, impl):
    kind = c.get("kind", "")
    if kind == "engine_sel":
        return (kind, c["phase"], c["q"], impl) if impl and impl.startswith("R ") and impl != "R -" else None
    if kind.startswith("site_"):
        if impl and impl not in ("NONE", "E", "N", "PANIC", "ABORT", "UNKNOWN_PROBE") and not impl.startswith("PDT=E"):
            return (kind, c.get("op"), impl[:80])
        return None
    if impl and impl.startswith("S "):
        return (c["kind"], impl)
    return None


# ---------------------------------------------------------------------------------------------
# PER buckets under a configured fixed-offset time zone (tools/props/c16_bucket.py) and sequences of rows through
# the aggregate sink under a configured daylight-saving zone (tools/props/c16_bseq.py) folded in.
from props import c16_bucket as _BK
from props import c16_bseq as _BS

_A16 = {"cases": cases, "same": same, "oracle": oracle, "classify": classify, "nontrivial_key": nontrivial_key,
        "run_sides": run_sides}
THEOREMS = list(THEOREMS) + list(_BK.THEOREMS) + ["C16_bucket_zone_fixed", "C16_bucket_zone_seq_pointwise"]


def cases(rng, tier):
    return _A16["cases"](rng, tier) + _BK.cases(rng.fork("bucket"), tier) + _BS.cases(rng.fork("bseq"), tier)


def run_sides(cases_, model_ok):
    mine = [i for i, c in enumerate(cases_) if _BS.is_mine(c)]
    rest = [i for i, c in enumerate(cases_) if not _BS.is_mine(c)]
    impl, model = [None] * len(cases_), [None] * len(cases_)
    ri, rm = _A16["run_sides"]([cases_[i] for i in rest], model_ok)
    for j, i in enumerate(rest):
        impl[i], model[i] = ri[j], rm[j]
    if mine:
        bi, bm = _BS.run_sides([cases_[i] for i in mine], model_ok)
        for j, i in enumerate(mine):
            impl[i], model[i] = bi[j], bm[j]
    return impl, model


def _part(c):
    return _BS if _BS.is_mine(c) else _BK if _BK.is_mine(c) else None


def same(c, impl, model):
    m = _part(c)
    return m.same(c, impl, model) if m else _A16["same"](c, impl, model)


def oracle(c, impl):
    m = _part(c)
    return m.oracle(c, impl) if m else _A16["oracle"](c, impl)


def classify(c, impl):
    if _BS.is_mine(c):
        return _BS.classify(c, impl)
    return None if _BK.is_mine(c) else _A16["classify"](c, impl)


def nontrivial_key(c, impl):
    m = _part(c)
    return m.nontrivial_key(c, impl) if m else _A16["nontrivial_key"](c, impl)
