"""C16 — a time value denotes the same instant on every path."""
import datetime
from vlib import hx
from props import base

PROP = "C16"
PROPS_V = "theories/Props/C16.v"
THEOREMS = ["C16_unit_spellings_agree", "C16_out_of_range_rejected",
            "C16_civil_roundtrip", "C16_civil_from_days_valid", "C16_civil_of_days_from_civil",
            "C16_parse_print_rfc3339_gen", "C16_parse_print_rfc3339",
            "C16_iso_spellings_agree", "C16_iso_string_agree", "C16_iso_and_integer_agree",
            "C16_parse_print_date", "C16_date_string_agree"]
RULE = ("instants (whole second t in year 1..9999 or a digit-band edge, plus a sub-second part) x spellings "
        "(RFC 3339 with random offset/fraction/separator, date-only at midnight, integer s/ms/us/ns as string "
        "and as JSON number, JSON float seconds) plus a malformed stream (mutated spellings); a case is "
        "non-trivial when the implementation accepted it, distinct by (spelling kind, resulting second)")
ASSUMPTIONS = [
    "chrono 0.4.40's RFC 3339 and %Y-%m-%d parsers are modelled by hand at byte level (ASCII whitespace only); the tie is the differential run",
    "named time zones (chrono-tz) are not modelled",
    "JSON floats are compared only on decimals with at most 15 significant digits (f64 rounding is not modelled)",
]
TRUSTED = [
    "Coq 8.16.1 kernel + coqc; vm_compute for closed witnesses; no native_compute",
    "translator tools/gen_params.py (digit bands, divisors and the division operator of normalize_integer_epoch are read from src/shared/time.rs)",
    "extraction: ExtrOcamlBasic only; ocaml/driver.ml, conv.ml, p_time.ml (parsing/printing)",
    "correspondence harness /verif/harness (vharn fn time_str/time_json) built against /repo with --cfg sneldb_verif",
    "python oracle: datetime arithmetic of CPython (independent of model and implementation)",
]

CLAIMED = True
MANIFEST = {
 "level_text": "Theorems (all instants, no bound): every in-band integer spelling (s/ms/us/ns) of an instant normalises to the floor of the instant, 20+ digit magnitudes are rejected. The division operator and digit bands of the model are regenerated from src/shared/time.rs on every run, and the model's TimeParser (RFC 3339, date-only, numeric strings, JSON numbers) is run against the real TimeParser on generated and mutated spellings.",
 "design_ref": "DESIGN.md \u00a76 C16",
 "level_note": "Trusted: Coq kernel; tools/gen_params.py; ExtrOcamlBasic extraction + OCaml driver; the Rust harness; CPython datetime (oracle). chrono's parsers are modelled by hand (differentially tested, not proved); named time zones not modelled."
}

EPOCH = datetime.datetime(1970, 1, 1)


def corpus():
    return base.corpus_for(PROP)


def iso(t, nanos, rng):
    """A random RFC 3339 spelling of the instant t + nanos*1e-9."""
    off_min = rng.choice([0, 0, 60, -60, 330, -480, 14 * 60, -(23 * 60 + 59), 23 * 60 + 59, rng.range(-1439, 1439)])
    local = EPOCH + datetime.timedelta(seconds=t + off_min * 60)
    sep = rng.choice(["T", "T", "t", " "])
    s = f"{local.year:04d}-{local.month:02d}-{local.day:02d}{sep}{local.hour:02d}:{local.minute:02d}:{local.second:02d}"
    if nanos or rng.chance(1, 4):
        digs = rng.range(1, 12)
        f = f"{nanos:09d}"
        f = (f + "0" * 3)[:digs] if digs > 9 else f[:digs]
        # truncating digits keeps the floor unchanged
        s += "." + f
    if off_min == 0 and rng.chance(2, 3):
        s += rng.choice(["Z", "z"])
    else:
        sign = "+" if off_min >= 0 else rng.choice(["-", "-", "−"])
        a = abs(off_min)
        s += f"{sign}{a // 60:02d}:{a % 60:02d}"
    return s


def band(n):
    d = len(str(abs(n)))
    return "s" if d <= 11 else "ms" if d <= 14 else "us" if d <= 16 else "ns" if d <= 19 else "x"


def cases(rng, tier):
    n_inst = 400 if tier == "quick" else 40000
    out = []

    def add(kind, line, exp=None, show=None):
        out.append({"kind": kind, "line": line, "expect": exp, "show": show})

    lo = -62135596800 + 2 * 86400          # 0001-01-03
    hi = 253402300799 - 2 * 86400          # 9999-12-29
    edges = [0, -1, 1, 59, -59, 86399, 86400, -86400, -86401, 951782400, 951868800, 4107542400, -2208988800,
             10 ** 11 - 1, -(10 ** 11) + 1, 99999999999, 100000000, -100000001, lo, hi]
    for k in range(n_inst):
        r = rng.below(10)
        if r < 2:
            t = rng.choice(edges)
        elif r < 5:
            t = rng.range(-3 * 10 ** 9, 5 * 10 ** 9)
        elif r < 7:
            t = rng.range(lo, hi)
        elif r < 8:
            t = rng.choice([1, -1]) * (10 ** rng.range(7, 10)) + rng.range(-2, 2)
        else:
            t = rng.range(-10 ** 8 - 5000, 10 ** 8 + 5000)
        t = max(lo, min(hi, t))
        nanos = rng.choice([0, 0, 500000000, 1, 999999999, rng.below(10 ** 9), rng.below(1000) * 10 ** 6])
        kind = rng.choice(["dt", "d"])
        # ISO spellings
        for _ in range(2):
            s = iso(t, nanos, rng)
            add("iso", f"time_str {kind} {hx(s)}", t, s)
        pad = rng.choice(["", "", " ", "\t", "  \n"])
        s = pad + iso(t, nanos, rng) + rng.choice(["", " "])
        add("iso_json", f"time_jstr {kind} {hx(s)}", t, s)
        # date-only when the instant is a midnight
        if rng.chance(1, 4):
            d = EPOCH + datetime.timedelta(seconds=t - t % 86400)
            s = rng.choice([f"{d.year:04d}-{d.month:02d}-{d.day:02d}", f"{d.year}-{d.month}-{d.day}" if d.year >= 1000 else f"{d.year:04d}-{d.month}-{d.day}",
                            f"+{d.year}-{d.month:02d}-{d.day:02d}", f" {d.year:04d}- {d.month}- {d.day}"])
            add("date", f"time_str {kind} {hx(s)}", t - t % 86400, s)
        # integer spellings: seconds / ms / us / ns, only asserted when inside their band
        for unit, mul in (("s", 1), ("ms", 10 ** 3), ("us", 10 ** 6), ("ns", 10 ** 9)):
            n = t * mul + nanos // (10 ** 9 // mul)
            exp = t if band(n) == unit else None
            s = str(n)
            if rng.chance(1, 2):
                add("int_" + unit + ("" if exp is not None else "_offband"), f"time_str {kind} {hx(s)}", exp, s)
            else:
                add("jint_" + unit + ("" if exp is not None else "_offband"), f"time_json {kind} {hx(s)}", exp, s)
        # float seconds (JSON): floor
        if rng.chance(1, 3) and abs(t) < 10 ** 10:
            frac = f"{nanos:09d}"[:rng.range(1, 4)]
            # value = t + 0.frac  (written with sign handling)
            num = t * 10 ** len(frac) + int(frac)
            sgn = "-" if num < 0 else ""
            a = abs(num)
            s = f"{sgn}{a // 10 ** len(frac)}.{a % 10 ** len(frac):0{len(frac)}d}"
            add("jfloat", f"time_json {kind} {hx(s)}", num // 10 ** len(frac), s)
    # digit-band boundaries, both signs
    for p in (10, 11, 12, 13, 14, 15, 16, 17, 18, 19, 20, 38, 39, 40, 45):
        for d in (-2, -1, 0, 1):
            for sg in (1, -1):
                n = sg * (10 ** p + d)
                add("edge", f"time_str dt {hx(str(n))}", None, str(n))
                if abs(n) < 2 ** 64 and n >= -2 ** 63:
                    add("jedge", f"time_json dt {hx(str(n))}", None, str(n))
    # malformed stream: mutations of valid spellings
    n_mal = 300 if tier == "quick" else 30000
    alphabet = "0123456789-+:.TtZz \t/,_eE−"
    for k in range(n_mal):
        t = rng.range(-3 * 10 ** 9, 5 * 10 ** 9)
        s = rng.choice([iso(t, rng.below(10 ** 9), rng), str(t * rng.choice([1, 1000, 10 ** 6, 10 ** 9])),
                        (EPOCH + datetime.timedelta(seconds=t)).strftime("%Y-%m-%d")])
        for _ in range(rng.range(1, 2)):
            op = rng.below(4)
            pos = rng.below(len(s) + 1)
            if op == 0 and s:
                pos = min(pos, len(s) - 1)
                s = s[:pos] + s[pos + 1:]
            elif op == 1:
                s = s[:pos] + rng.choice(alphabet) + s[pos:]
            elif op == 2 and s:
                pos = min(pos, len(s) - 1)
                s = s[:pos] + rng.choice(alphabet) + s[pos + 1:]
            else:
                s = s[:pos] + s[pos:pos + 2] + s[pos:]
        add("malformed", f"time_str {rng.choice(['dt', 'd'])} {hx(s)}", None, s)
    return out


def run_sides(cases_, model_ok):
    return base.run_sides_fn(cases_, model_ok)


def same(c, impl, model):
    return impl == model


def oracle(c, impl):
    """Direct property oracle: a spelling of instant t that lies in its band must be stored as floor(t)."""
    exp = c.get("expect")
    if exp is None:
        if impl in ("PANIC", "ABORT"):
            return f"implementation {impl} on {c.get('show')!r}"
        return None
    if impl != f"S {exp}":
        return f"spelling {c.get('show')!r} of the instant with floor second {exp} was normalised to {impl}"
    return None


def classify(c, impl):
    # a JSON integer literal below i64::MIN is kept by serde_json as f64 and then read as float SECONDS
    if c.get("kind", "").startswith("jint") and int(c["show"]) < -2 ** 63:
        return "JsonIntegerBelowI64ReadAsFloatSeconds"
    return None


def nontrivial_key(c, impl):
    if impl and impl.startswith("S "):
        return (c["kind"], impl)
    return None
