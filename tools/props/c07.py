"""C07 — stored values come back unchanged from every storage tier."""
import concurrent.futures, json, struct, datetime
from fractions import Fraction
import vlib, engine
from vlib import hx
from props import base

PROP = "C07"
PROPS_V = "theories/Props/C07.v"
THEOREMS = ["C07_roundtrip_refuted", "C07_roundtrip_outside_known", "C07_roundtrip_outside_known_example",
            "C07_known_classes_fail", "C07_tiers_agree_refuted", "C07_tiers_agree_outside_known",
            "C07_zone_pointwise", "C07_zone_roundtrip", "C07_compaction_fixpoint", "C07_string_retyped_characterised",
            "C07_projection", "C07_projection_example", "C07_memtable_flow_exact", "C07_wal_exact",
            "C07_restart_invisible", "C07_former_witnesses_pass", "C07_sink_agrees",
            "C07_core_roundtrip_outside_known", "C07_core_known_fails", "C07_core_refuted", "C07_core_tiers_agree",
            "C07_for_selects_exact", "C07_core_sink_characterised", "C07_where_return_exact", "C07_where_return_example"]
RULE = ("function level: JSON texts / scalars / cell texts through the real STORE parser, ScalarValue::from / to_json, "
        "WalEntry serde round trip, EventBuilder and real column blocks (ColumnGroupBuilder -> decoder -> both "
        "materialisations -> values_to_scalar); engine level: one schema with every field type (string, int, u64, float, "
        "bool, enum, datetime, date and their optional variants), events with generated conforming values (nasty strings, "
        "i64/u64 boundaries, integral/huge/tiny floats, nulls, absent keys), read by QUERY and REPLAY with and without RETURN "
        "before FLUSH, after a WAL-recovering restart, after FLUSH, after a compaction round and after a restart; every "
        "returned cell is compared with the model's prediction and, independently, with the stored value. Non-trivial = a "
        "cell observed outside the plain memtable (WAL-recovered or in a segment) or a function-level case the "
        "implementation answered; distinct by (field type, stored value, layout) resp. the case line. Context ids and event type "
        "names are drawn from spelling families that look like something else (leading zeros, signs, exponents, hex, keywords, "
        "huge digit strings, surrounding blanks, JSON text) and are compared as cells in every tier incl. the passive buffer; "
        "reads FOR <ctx> are checked in both directions; QUERY ... WHERE <1-3 integer/enum conditions, AND/OR> RETURN [...] with the "
        "filtered fields at every position of the RETURN list (last, first, middle, absent, duplicated, core names mixed in) is "
        "issued in every tier and every returned cell is compared under its column NAME (rows identified by event_id)")
ASSUMPTIONS = [
    "Rust's Display for f64 followed by str::parse::<f64> is the identity (std guarantee); modelled as the identity for F64 blocks",
    "the column block codec (lz4, mmap reader) is the identity on typed cell lists (exercised by the value_block probe and the engine runs, not modelled)",
    "str::parse::<f64> saturates exponents above 65536 digits-value; strings that long are not generated",
    "time fields enter the model already normalised to epoch seconds (C16 covers the normalisation); the oracle computes the expected seconds with CPython's datetime",
    "schema field names do not collide with the core field names; Optional(Enum) is not definable through DEFINE",
    "sonic-rs (STORE parser, renderer) is modelled only for scalar tokens: correctly rounded floats, -0.0 read as +0.0",
    "with float_roundtrip, ryu's shortest digits read back by a correctly rounded reader give the same double (WAL floats modelled as the identity; tied by the value_wal probe and the engine restarts)",
]
TRUSTED = [
    "Coq 8.16.1 kernel + coqc; vm_compute for closed witnesses; no native_compute",
    "translator tools/params/p50_value.py (to_json threshold, add_payload_field keywords, field type -> physical type arms, var-bytes blocks without null bitmap, serde_json float_roundtrip feature in Cargo.toml, Vec vs HashSet in SelectionProjection::compute)",
    "extraction: ExtrOcamlBasic only; ocaml/driver.ml, conv.ml, p_value.ml (parsing/printing)",
    "correspondence harness /verif/harness (vharn fn value_*, vharn life) built against /repo with --cfg sneldb_verif; tools/engine.py",
    "python oracle: CPython json, float and int arithmetic (independent of model and implementation)",
]
CLAIMED = True
MANIFEST = {
 "level_text": "Theorems over the value-path model (all field types, all schema-conforming values, all layouts = {memtable, WAL-recovered} x {in memory, flushed, flushed and compacted n times}, all zone compositions): the round trip is refuted with four witnesses, one per remaining mechanism (to_json re-parses strings that are JSON arrays/objects/large integers; EventBuilder re-types var-bytes cells that read as keywords, integers or finite floats after Unicode trimming; null in a var-bytes column becomes the empty string; integers in float fields are rounded to doubles on flush), and proved exact outside these four decidable classes; tiers agree outside the three tier-dependent classes; the WAL line is exact for every scalar and a restart is invisible (after fix 32b7370, float_roundtrip, read from Cargo.toml); compaction is a fixpoint of the flushed cell; a zone column is read back pointwise; RETURN keeps every core column unchanged and adds only requested schema fields, in the segment flow and (after fix f2ae870, RETURN order read from strategies.rs) in the memtable flow under any RETURN list. The model (incl. a byte-level model of serde_json::from_str, Rust's integer/float grammars, Unicode trim, IEEE rounding and shortest float printing) is run against the real ScalarValue / WalEntry / EventBuilder / column block code and against the engine (QUERY and REPLAY in every tier, with and without RETURN).",
 "design_ref": "DESIGN.md \u00a76 C07",
 "level_note": "Trusted: Coq kernel; tools/params/p50_value.py; ExtrOcamlBasic extraction + OCaml driver; the Rust harness and tools/engine.py; CPython json/float (oracle). Assumed, not proved: Rust Display/parse round trip of f64, the block codec as identity, sonic-rs scalar parsing as modelled. Time normalisation is C16's."
}

# ------------------------------------------------------------------ canonical forms


def fbits(x):
    return struct.unpack("<Q", struct.pack("<d", x))[0]


def bits_f(b):
    return struct.unpack("<d", struct.pack("<Q", b))[0]


def hexs(b):
    if isinstance(b, str):
        b = b.encode("utf-8", "surrogatepass")
    return b.hex()


def canon_json(v):
    """Canonical form of a JSON value as CPython parsed it."""
    if v is None:
        return "n"
    if v is True:
        return "b1"
    if v is False:
        return "b0"
    if isinstance(v, int):
        return f"i{v}"
    if isinstance(v, float):
        return "f%016x" % fbits(v)
    if isinstance(v, str):
        return "s" + hexs(v)
    if isinstance(v, list):
        return "[" + ",".join(canon_json(x) for x in v) + "]"
    if isinstance(v, dict):
        items = sorted(((k.encode("utf-8", "surrogatepass"), x) for k, x in v.items()), key=lambda kv: kv[0])
        return "{" + ",".join(k.hex() + ":" + canon_json(x) for k, x in items) + "}"
    raise ValueError(v)


def canon_scalar(v):
    if v is None:
        return "N"
    if v is True:
        return "B1"
    if v is False:
        return "B0"
    if isinstance(v, int):
        return f"I{v}"
    if isinstance(v, float):
        return "F%016x" % fbits(v)
    return "U" + hexs(v)


def json_text(v, rng=None):
    """JSON text the client sends for a stored value (no '+' in exponents: the command tokenizer rejects it)."""
    if isinstance(v, float):
        t = repr(v)
        if "e" in t and not (rng and rng.chance(1, 2)):
            # CPython writes 1e+300; both spellings are sent (the tokenizer accepts '+' since b3737c8)
            m, e = t.split("e")
            e = e.replace("+", "")
            t = m + "e" + e
        return t
    if isinstance(v, str):
        return json.dumps(v, ensure_ascii=bool(rng.chance(1, 2)) if rng else True)
    return json.dumps(v)


ABSENT = "<absent>"


def stored_canon(v):
    return "a" if v is ABSENT else canon_json(v)


# ------------------------------------------------------------------ value generators
WS = [" ", "\t", "\n", "\r", "\x0b", "\x0c", "\u0085", "\u00a0", "\u1680", "\u2000", "\u2003", "\u200a", "\u2028", "\u2029",
      "\u202f", "\u205f", "\u3000"]
NOT_WS = ["\u200b", "\u180e", "\ufeff", "\u2060", "\x1f", "\x00"]
NASTY = ["true", "false", "null", "TRUE", "True", "Null", "123", "9", "-5", "+5", "007", "-0", "+0", "0", "1e3", "1E3", "1e-3", ".5", "5.",
         "-.5", "1.5", "1.50", " 7 ", "\t7\n", "\u00a07\u00a0", "\u30007", "7\u2003", "\u200b7", "7\ufeff", "[1]", "[1, 2.50]", "{\"a\":1}",
         "{\"b\":{\"a\":[]},\"a\":\"x\"}", "[]", "{}", " [1] ", "\u00a0[1]", "9999999999999999999", "18446744073709551615",
         "18446744073709551616", " 9999999999999999999 ", "\u00a09999999999999999999", "+9999999999999999999", "09999999999999999999",
         "9223372036854775807", "9223372036854775808", "-9223372036854775808", "-9223372036854775809", "NaN", "nan", "inf", "-inf",
         "+inf", "infinity", "Infinity", "-Infinity", "1e999", "-1e999", "1e-999", "0e999", "0x10", "1_000", "1,000", "", " ", "  ", "a", "é", "😀",
         "0.1", "1.7976931348623157e308", "1.7976931348623159e308", "2.4703282292062327e-324", "2.4703282292062328e-324", "5e-324",
         "123456789012345678901234567890", "[1e400]", "[1e308]", "[\"\\ud800\"]", "[\"\\ud83d\\ude00\"]", "\"quoted\"", "tru", "truee", "true ",
         " null", "nul", "[1,]", "{\"a\":1,\"a\":2}", "[-0]", "[-0.0, 1E2, 1e+2]", "[0.1, 446.19296929045356]", "[18446744073709551615, 18446744073709551616]",
         "[-9223372036854775808, -9223372036854775809]", "[1.5e-7, 123456789012345678901234567890]", "{\"k\\u0041\":null}", "[true,false,null]",
         "[ ]", "{ }", "[1 ,2]", "[01]", "[1.]", "[.5]", "[+1]", "{\"a\"}", "{a:1}", "['a']", "[1] x", "1e", "1e+", "e5", "--5", "+-5", "5-", "1.2.3",
         "4.5e10", "-4.5E-10", "１２３", "٣", "1e5\u00a0", "0.30000000000000004", "9007199254740993", "-9007199254740993.0",
         "}{", "a}b", "a{b", "{", "[" * 127 + "]" * 127, "[" * 128 + "]" * 128, "{\"a\":" * 126 + "1" + "}" * 126, "x" * 3000, "7" * 400, "0." + "0" * 400 + "1",
         "1" + "0" * 310, "1" + "0" * 308, "1e308", "1e309", "17976931348623158" + "0" * 292, "179769313486231580793728971405303415079934132710037826936173778980444968292764750946649017977587207096330286416692887910946555547851940402630657488671505820681908902000708383676273854845817711531764475730270069855571366959622842914819860834936475292719074168444365510704342711559699508093042880177904174497791.9999999999999999999999999999999",
         "179769313486231580793728971405303415079934132710037826936173778980444968292764750946649017977587207096330286416692887910946555547851940402630657488671505820681908902000708383676273854845817711531764475730270069855571366959622842914819860834936475292719074168444365510704342711559699508093042880177904174497792"]


def gen_string(rng):
    r = rng.below(100)
    if r < 45:
        return rng.choice(NASTY)
    if r < 60:
        # numeric-looking text with decoration
        body = rng.choice([str(rng.range(-10 ** 6, 10 ** 6)), str(rng.range(0, 2 ** 64 + 5)), str(rng.range(-2 ** 63 - 3, -2 ** 63 + 3)),
                           repr(rng.range(-10 ** 9, 10 ** 9) / 1000.0), "%de%d" % (rng.range(-99, 99), rng.range(-330, 330)),
                           "%d.%de%d" % (rng.range(0, 9), rng.range(0, 10 ** 17), rng.range(-320, 310)),
                           "0" * rng.range(1, 3) + str(rng.range(0, 999)), "true", "false", "null"])
        pre = "".join(rng.choice(WS + NOT_WS[:2] + ["+", "-", ""]) for _ in range(rng.range(0, 2)))
        post = "".join(rng.choice(WS + NOT_WS[:2] + ["", "x"]) for _ in range(rng.range(0, 2)))
        return pre + body + post
    if r < 72:
        # JSON-looking text
        def j(d):
            k = rng.below(8 if d < 3 else 5)
            if k == 0:
                return str(rng.range(-5, 2 ** 64 + 2))
            if k == 1:
                return rng.choice(["1.5", "-0.0", "1e2", "446.19296929045356", "2.5E-3", "1e400", "0.1"])
            if k == 2:
                return rng.choice(["true", "false", "null"])
            if k == 3:
                return json.dumps(rng.choice(["a", "é", "\"", "\\", "\n", "😀", ""]), ensure_ascii=rng.chance(1, 2))
            if k == 4:
                return rng.choice(["tru", "01", "1.", "'a'", "[", "}"])
            if k in (5, 6):
                return "[" + rng.choice(["", " "]) + ",".join(j(d + 1) for _ in range(rng.range(0, 3))) + "]"
            return "{" + ",".join(json.dumps(rng.choice(["a", "b", "a", "é"])) + rng.choice([":", " : "]) + j(d + 1) for _ in range(rng.range(0, 3))) + "}"
        t = j(0)
        if not (t.startswith("[") or t.startswith("{")):
            t = "[" + t + "]"
        return rng.choice(["", "", " ", "\n", "\u00a0"]) + t + rng.choice(["", "", " ", "x"])
    if r < 90:
        n = rng.range(0, 12)
        alphabet = "abcXYZ019 -_.,:;'!?é\u00a0😀\t{}[]"
        s = "".join(rng.choice(alphabet) for _ in range(n))
        return s
    return rng.choice(["x", "é", "😀", " "]) * rng.range(1, 2000)


def braces_ok(s):
    # since fced25a the STORE payload scanner ignores braces inside string literals: every string is sent
    return True
    d = 0
    for ch in s:
        if ch == "{":
            d += 1
        elif ch == "}":
            d -= 1
            if d < 0:
                return False
    return d == 0


I64_EDGES = [0, 1, -1, 2 ** 63 - 1, -2 ** 63, 2 ** 53, 2 ** 53 + 1, -(2 ** 53) - 1, 2 ** 31, -2 ** 31, 10 ** 18, 9007199254740993, 123456789]
U64_EDGES = [0, 1, 2 ** 63 - 1, 2 ** 63, 2 ** 63 + 1, 2 ** 64 - 1, 2 ** 64 - 2, 10 ** 19, 2 ** 53 + 1]
F_EDGES = [0.0, 1.0, -1.0, 1.5, 0.1, 3.0, 1e22, 1e23, 1e300, -1e-300, 5e-324, 2.2250738585072014e-308, 1.7976931348623157e308, 446.19296929045356,
           9007199254740991.0, 9007199254740992.0, 9007199254740994.0, 0.30000000000000004, 123456789012345680.0, 1e15, 1e16, 1e17, 100000.5, 1e-5, 1e-7,
           -2.5, 4.35, 0.000001, 1234567.0, 2.0 ** 63, 2.0 ** 64, 1.0000000000000002, 9.5e15, 123456.789e3]


def gen_float(rng):
    r = rng.below(10)
    if r < 3:
        return rng.choice(F_EDGES) * rng.choice([1, 1, -1])
    if r < 6:
        return rng.range(-10 ** 9, 10 ** 9) / rng.choice([1.0, 10.0, 1000.0, 3.0, 7.0, 1e6])
    if r < 7:
        return float(rng.range(-2 ** 55, 2 ** 55))
    while True:
        b = rng.next() & 0x7FFFFFFFFFFFFFFF
        x = bits_f(b | ((rng.next() & 1) << 63))
        if x == x and x not in (float("inf"), float("-inf")):
            return x


def gen_i64(rng):
    r = rng.below(10)
    if r < 4:
        return rng.choice(I64_EDGES)
    if r < 7:
        return rng.range(-1000, 1000)
    return rng.range(-2 ** 63, 2 ** 63 - 1)


def gen_u64(rng):
    r = rng.below(10)
    if r < 5:
        return rng.choice(U64_EDGES)
    if r < 7:
        return rng.range(0, 1000)
    return rng.range(0, 2 ** 64 - 1)


ENUM_VARIANTS = ["aa", "true", "12", "1e3", "null", "Bb", "-7"]
EPOCH = datetime.datetime(1970, 1, 1)


def gen_time(rng, date):
    """(JSON value sent, expected epoch seconds)"""
    t = rng.range(86400 * 366, 4102444800)       # 1971 .. 2100
    if date:
        t -= t % 86400
    d = EPOCH + datetime.timedelta(seconds=t)
    k = rng.below(4)
    if k == 0:
        return t, t
    if k == 1 and date:
        return d.strftime("%Y-%m-%d"), t
    if k == 2:
        off = rng.choice([0, 60, -330, 120])
        loc = d + datetime.timedelta(minutes=off)
        sign = "+" if off >= 0 else "-"
        return loc.strftime("%Y-%m-%dT%H:%M:%S") + "%s%02d:%02d" % (sign, abs(off) // 60, abs(off) % 60), t
    return d.strftime("%Y-%m-%dT%H:%M:%SZ"), t


# field name, type token for the model, DEFINE spec
FIELDS = [
    ("zid", "i64", '"int"'),
    ("s", "str", '"string"'), ("s2", "str", '"string"'), ("os", "ostr", '"string | null"'), ("os2", "ostr", '"string | null"'),
    ("i", "i64", '"int"'), ("oi", "oi64", '"int | null"'),
    ("u", "u64", '"u64"'), ("ou", "ou64", '"u64 | null"'),
    ("f", "f64", '"float"'), ("of", "of64", '"float | null"'),
    ("b", "bool", '"bool"'), ("ob", "obool", '"bool | null"'),
    ("k", "enum:" + ",".join(hexs(v) for v in ENUM_VARIANTS), "[" + ", ".join(json.dumps(v) for v in ENUM_VARIANTS) + "]"),
    ("d", "dt", '"datetime"'), ("od", "odt", '"datetime | null"'),
    ("dd", "date", '"date"'), ("odd", "odate", '"date | null"'),
]
FTYPE = {n: t for n, t, _ in FIELDS}
OPTIONAL = [n for n, t, _ in FIELDS if t.startswith("o")]
CORE = ["context_id", "event_type", "timestamp", "event_id"]


def gen_value(rng, name):
    """-> (json value to send, expected python value) for a non-null, present entry"""
    t = FTYPE[name].lstrip("o") if FTYPE[name].startswith("o") else FTYPE[name]
    if t == "str":
        while True:
            s = gen_string(rng)
            if braces_ok(s):
                return s, s
    if t == "i64":
        v = gen_i64(rng)
        return v, v
    if t == "u64":
        v = gen_u64(rng)
        return v, v
    if t == "f64":
        r = rng.below(10)
        if r < 7:
            v = gen_float(rng)
            if v == 0.0:
                v = 0.0           # the STORE parser reads -0.0 as +0.0 (numerically equal); keep the sign out of the tie
            return v, v
        if r < 9:
            v = gen_i64(rng)
            return v, v
        v = gen_u64(rng)
        return v, v
    if t == "bool":
        v = rng.chance(1, 2)
        return v, v
    if t.startswith("enum"):
        v = rng.choice(ENUM_VARIANTS)
        return v, v
    if t == "dt":
        return gen_time(rng, False)
    if t == "date":
        return gen_time(rng, True)
    raise ValueError(t)


# ------------------------------------------------------------------ cases
# Context ids and event type names that "look like something else".  A context id is an identifier or a string
# literal without '"' (no escapes); it must not be blank.  Spelling families: the same integer in several spellings.
CTX_FAMILIES = [["0042", "42", "+42", " 42", "42 ", "042"], ["00123", "123"], ["+7", "7", "07", " 7 ", "7.0"], ["-0", "0", "+0", "00", "000", "0.0"],
                ["-5", "-05", "-5 "], ["1e3", "1E3", "1000", "1e+3"], ["1.0", "1", "01"], ["9999999999999999999", "09999999999999999999", "+9999999999999999999"],
                ["18446744073709551615", "18446744073709551616", "99999999999999999999"], ["9223372036854775807", "9223372036854775808", "-9223372036854775808"],
                ["true", "True", "TRUE"], ["null", "NULL", "nil"], ["[1]", "[ 1 ]", "[1"], ["{}", "{ }", "{\\"], ["0x10", "16", "0x1"], ["NaN", "nan", "inf", "-inf"],
                ["c0", "C0", "c0 "], ["\u00a07", "\u30007", "7\u2003"], ["\u00e9", "e\u0301"], [".5", "0.5", "5."], ["\U0001F600", "a b", "a  b"]]
ETYPES = ["t", "t", "null", "true", "NaN", "inf", "Infinity", "e3", "False", "nan", "x0", "T", "i64"]


def ctx_ok(cx):
    return cx.strip() != "" and '"' not in cx and "\n" not in cx and "\r" not in cx


def quote_ctx(cx, rng=None):
    import re as _re
    if rng is not None and _re.fullmatch(r"[A-Za-z_][A-Za-z0-9_]*", cx) and rng.chance(1, 2):
        return cx
    return '"' + cx + '"'


def gen_contexts(rng):
    """3-5 context ids of one history: two spelling families (so that contexts differing only in spelling coexist)."""
    out = []
    for fam in (rng.choice(CTX_FAMILIES), rng.choice(CTX_FAMILIES)):
        k = rng.range(2, 3)
        picks = list(fam)
        while len(picks) > k:
            picks.pop(rng.below(len(picks)))
        out += picks
    if rng.chance(1, 3):
        n = rng.range(0, 10 ** rng.range(1, 21))
        out += [str(n), "0" * rng.range(1, 3) + str(n)]
    out = [cx for i, cx in enumerate(out) if ctx_ok(cx) and cx not in out[:i]]
    return out or ["c0", "c1"]


def corpus():
    return base.corpus_for(PROP)


def fn_cases(rng, tier):
    out = []

    def add(kind, line, show=None, **kw):
        d = {"kind": kind, "line": line, "show": show if show is not None else line}
        d.update(kw)
        out.append(d)

    n = 1 if tier == "quick" else 25
    strings = list(NASTY)
    for _ in range(300 * n):
        strings.append(gen_string(rng))
    for s in strings:
        h = hx(s.encode("utf-8"))
        add("tojson_str", f"value_tojson U{'' if h == '-' else h}", s[:80], expect="s" + hexs(s))
        add("builder_var", f"value_builder var {h}", s[:80], expect="U" + hexs(s))
        add("fromjson", f"value_fromjson {h}", s[:80])
        if braces_ok(s):
            add("parse_str", f"value_parse {hx(json.dumps(s, ensure_ascii=rng.chance(1, 2)).encode())}", s[:80], expect="s" + hexs(s))
    floats = list(F_EDGES) + [-x for x in F_EDGES] + [gen_float(rng) for _ in range(400 * n)]
    for x in floats:
        b = "%016x" % fbits(x)
        add("wal_float", f"value_wal F{b}", repr(x), expect="F" + b)
        add("tojson_float", f"value_tojson F{b}", repr(x), expect="f" + b)
        add("builder_f64", f"value_builder f64 {b}", repr(x), expect="F" + b)
        t = json_text(x)
        add("parse_num", f"value_parse {hx(t)}", t, expect=canon_json(x) if x != 0 else "f0000000000000000")
        add("fromjson", f"value_fromjson {hx(t)}", t)
    for _ in range(150 * n):
        z = rng.choice([gen_i64(rng), gen_u64(rng), rng.range(-2 ** 70, 2 ** 70)])
        t = str(z)
        add("fromjson", f"value_fromjson {hx(t)}", t)
        if -2 ** 63 <= z < 2 ** 64:
            add("parse_num", f"value_parse {hx(t)}", t, expect=f"i{z}")
        if -2 ** 63 <= z < 2 ** 63:
            add("wal_int", f"value_wal I{z}", t, expect=f"I{z}")
            add("tojson_int", f"value_tojson I{z}", t, expect=f"i{z}")
            add("builder_i64", f"value_builder i64 {z}", t, expect=f"I{z}")
        if 0 <= z < 2 ** 64:
            add("builder_u64", f"value_builder u64 {z}", t, expect=f"I{z}" if z < 2 ** 63 else "U" + hexs(str(z)))
    for s in ["N", "B0", "B1"]:
        add("wal_misc", f"value_wal {s}", s, expect=s)
        add("tojson_misc", f"value_tojson {s}", s, expect={"N": "n", "B0": "b0", "B1": "b1"}[s])
    for s in strings[:200 * n]:
        add("wal_str", f"value_wal U{hexs(s)}", s[:80], expect="U" + hexs(s))
    # number texts for the JSON reader (serde_json grammar incl. malformed)
    for _ in range(300 * n):
        m = rng.choice(["", "-"]) + rng.choice(["0", str(rng.range(1, 10 ** rng.range(1, 25))), "00", "01"])
        if rng.chance(2, 3):
            m += "." + "".join(rng.choice("0123456789") for _ in range(rng.range(0, 22)))
        if rng.chance(1, 2):
            m += rng.choice(["e", "E"]) + rng.choice(["", "-", "+"]) + str(rng.range(0, rng.choice([5, 30, 330, 5000, 3 * 10 ** 9])))
        m = rng.choice(["", "", " "]) + m + rng.choice(["", "", " ", "x"])
        add("fromjson_num", f"value_fromjson {hx(m)}", m)
    # core string columns (context_id / event_type) of a flushed zone through the REAL evaluator
    core_pool = [cx for fam in CTX_FAMILIES for cx in fam] + ETYPES + ["", " ", "-", "+", "--1", "1_0", "١٢٣"]
    for k in range(60 * n):
        texts = [rng.choice(core_pool) if rng.chance(3, 4) else gen_string(rng)[:200] for _ in range(rng.range(1, 6))]
        texts = [t for t in texts if " " not in t.strip() or True]
        fld = rng.choice(["context_id", "context_id", "event_type"])
        add("core_block", f"value_core {fld} {rng.range(0, 2)} " + " ".join(hexs(t) or "-" for t in texts), f"{fld} {texts!r}"[:160], texts=texts)
    # real column blocks
    phys = ["var", "i64", "u64", "f64", "bool"]
    for _ in range(120 * n):
        p = rng.choice(phys)
        vals = []
        for _ in range(rng.range(1, 9)):
            k = rng.below(6)
            if k == 0:
                vals.append("N")
            elif k == 1:
                vals.append(rng.choice(["B0", "B1"]))
            elif k == 2:
                vals.append(f"I{gen_i64(rng)}")
            elif k == 3:
                vals.append("F%016x" % fbits(gen_float(rng)))
            else:
                s = rng.choice(strings)
                if len(s) > 300:
                    s = s[:300]
                vals.append("U" + hexs(s))
        add("block", f"value_block {p} {rng.range(0, 2)} " + " ".join(vals), f"{p} x{len(vals)}")
    return out


CFGS = [
    # (engine configuration, zone mode): "single" = every flushed batch is one zone, optional keys may be absent in some rows
    ({"fill_factor": 2, "event_per_zone": 8}, "single"),
    ({"fill_factor": 8, "event_per_zone": 2}, "covered"),
    ({"fill_factor": 5, "event_per_zone": 3}, "covered"),
    ({"fill_factor": 16, "event_per_zone": 1}, "covered"),
]


def gen_where_returns(rng, events, n):
    """WHERE + RETURN reads: 1-3 filter columns (AND / OR) and a RETURN list in which the filtered fields stand at
    every position (last, first, in the middle, absent), with core fields mixed in and duplicates.  The conditions are
    simple integer / enum comparisons that hold for most rows; which rows they select is C02's business, the cells of
    the rows that do come back are ours."""
    zids = [e["zid"] for e in events] or [0]
    conds = {
        "zid": lambda: rng.choice(["zid >= 0", "zid <= 100000", "zid = %d" % rng.choice(zids), "zid >= %d" % rng.choice(zids)]),
        "i": lambda: rng.choice(["i <= 9223372036854775807", "i >= -9223372036854775807"]),
        "u": lambda: "u >= 0",
        "oi": lambda: rng.choice(["oi <= 9223372036854775807", "oi >= -9223372036854775807"]),
        "k": lambda: 'k = "%s"' % rng.choice(ENUM_VARIANTS[:2]),
    }
    names = [f for f, _, _ in FIELDS]
    out = []
    for v in range(n):
        nf = 1 + (v % 3)
        fl = list(conds)
        filt = []
        while len(filt) < nf:
            f = fl.pop(rng.below(len(fl)))
            filt.append(f)
        ops = [rng.choice(["AND", "OR"]) for _ in filt[1:]]
        if "k" in filt and "OR" not in ops and len(filt) > 1:
            ops[0] = "OR"            # keep the conjunctions satisfiable for most rows
        text = conds[filt[0]]()
        for op, f in zip(ops, filt[1:]):
            text += f" {op} {conds[f]()}"
        others = []
        while len(others) < rng.range(1, 3):
            f = rng.choice(names)
            if f not in filt and f not in others:
                others.append(f)
        shape = v % 7
        if shape == 0:
            ret = others + filt
        elif shape == 1:
            ret = filt + others
        elif shape == 2:
            ret = others[:1] + filt + others[1:]
        elif shape == 3:
            ret = list(others)
        elif shape == 4:
            ret = ["timestamp"] + others[:1] + list(reversed(filt)) + ["context_id"] + others[1:]
        elif shape == 5:
            ret = others[:1] + filt + others[:1] + filt[:1]
        else:
            ret = others + filt[-1:] + ["nosuch"] + filt[:-1]
        if rng.chance(1, 3) and "zid" not in ret:
            ret.insert(rng.below(len(ret) + 1), "zid")
        out.append({"where": text, "filter": filt, "ret": ret})
    return out


def engine_cases(rng, tier):
    out = []
    n = 8 if tier == "quick" else 200
    for h in range(n):
        cfg, mode = CFGS[h % len(CFGS)] if h < 8 else rng.choice(CFGS)
        passive = (h % 3 == 1)
        if passive:
            # the 4th STORE fills the memtable; the flush worker is parked and the rows are read from the PASSIVE buffer
            cfg, mode = {"fill_factor": 1, "event_per_zone": 4}, "covered"
        cap = cfg["fill_factor"] * cfg["event_per_zone"]
        maxb = min(cap - 1, cfg["event_per_zone"] if mode == "single" else 7, 5 if tier == "quick" else 8)
        nb = rng.range(2, 3) if tier == "quick" else rng.range(2, 4)
        # optional-key policy per field for the whole history
        pol = {}
        for f in OPTIONAL:
            pol[f] = "covered" if mode == "covered" else rng.choice(["covered", "mixed"])
        if h >= 4 and not passive and rng.chance(3, 10):
            # a key that no event of the history carries: the column file is never written (and compaction fails)
            for _ in range(rng.range(1, 2)):
                pol[rng.choice(OPTIONAL)] = "never"
        events, batches = [], []
        ctxs = gen_contexts(rng) if h % 4 != 3 else ["c0", "c1", "c2"]
        etype = rng.choice(ETYPES) if h % 2 == 0 else "t"
        for b in range(nb):
            ids = []
            for _ in range(cap if (passive and b == 0) else rng.range(2, maxb)):
                ev = {"zid": len(events), "ctx": rng.choice(ctxs), "send": {}, "exp": {}}
                for name, _t, _ in FIELDS:
                    if name == "zid":
                        ev["send"][name] = ev["exp"][name] = ev["zid"]
                        continue
                    if name in OPTIONAL:
                        p = pol[name]
                        if p == "never" or (p == "mixed" and rng.chance(1, 3)):
                            ev["exp"][name] = ABSENT
                            continue
                        if rng.chance(1, 3):
                            ev["send"][name] = None
                            ev["exp"][name] = None
                            continue
                    ev["send"][name], ev["exp"][name] = gen_value(rng, name)
                ids.append(len(events))
                events.append(ev)
            # in mixed mode every batch carries each mixed key at least once (else the column file is missing and compaction fails)
            if rng.chance(4, 5):
                for f in OPTIONAL:
                    if pol[f] == "mixed" and all(events[i]["exp"][f] is ABSENT for i in ids):
                        events[ids[0]]["send"][f] = None
                        events[ids[0]]["exp"][f] = None
            batches.append(ids)
        # reads are also issued FOR spellings under which nothing was stored (the other members of the families)
        probes = [cx for fam in CTX_FAMILIES if any(x in fam for x in ctxs) for cx in fam if cx not in ctxs and ctx_ok(cx)]
        plan = {"wal_restart_first": rng.chance(2, 3), "restart_end": rng.chance(2, 3), "compact": rng.chance(4, 5),
                "passive": passive, "probes": probes[:4], "wheres": gen_where_returns(rng, events, 14),
                "ret": [rng.choice([n_ for n_, _, _ in FIELDS]) for _ in range(rng.range(1, 4))] + rng.choice([[], ["nosuch"], ["timestamp"], ["s", "s"]])}
        for ev in events:
            ev["line"] = "STORE %s FOR %s PAYLOAD {%s}" % (etype, quote_ctx(ev["ctx"], rng), ", ".join(json.dumps(k) + ": " + json_text(v, rng) for k, v in ev["send"].items()))
            ev["expc"] = {k: stored_canon(v) for k, v in ev["exp"].items()}
            del ev["send"], ev["exp"]
        out.append({"kind": "engine", "cfg": cfg, "mode": mode, "etype": etype, "events": events, "batches": batches, "plan": plan,
                    "show": f"engine type={etype} contexts={ctxs} cap={cfg['fill_factor']}x{cfg['event_per_zone']} {mode} batches={[len(b) for b in batches]} plan={plan}"})
    return out


BENIGN = {"s": "plain", "s2": "x y", "os": "v", "os2": "w", "i": 1, "oi": 2, "u": 3, "ou": 4, "f": 1.5, "of": 2.5, "b": True, "ob": False,
          "k": "aa", "d": 1700000000, "od": 1700000001, "dd": 1699920000, "odd": 1699920000}


def hand_case(overrides, ret, show, cfg=None, ctxs=None, etype="t", plan_extra=None):
    """A small hand-written history: one batch, read from memory and after FLUSH. overrides: list of {field: value | ABSENT}."""
    events = []
    for n, ov in enumerate(overrides):
        vals = dict(BENIGN)
        vals.update(ov)
        vals["zid"] = n
        send = {k: v for k, v in vals.items() if v is not ABSENT}
        order = [f for f, _, _ in FIELDS]
        cx = ctxs[n % len(ctxs)] if ctxs else "c%d" % (n % 2)
        ev = {"zid": n, "ctx": cx,
              "line": "STORE %s FOR %s PAYLOAD {%s}" % (etype, quote_ctx(cx), ", ".join(json.dumps(k) + ": " + json_text(send[k]) for k in order if k in send)),
              "expc": {k: stored_canon(vals.get(k, ABSENT)) for k in order}}
        events.append(ev)
    plan = {"wal_restart_first": False, "restart_end": False, "compact": False, "ret": ret, "short": True}
    plan.update(plan_extra or {})
    return {"kind": "engine_corpus", "cfg": cfg or {"fill_factor": 2, "event_per_zone": 8}, "mode": "single", "etype": etype, "events": events,
            "batches": [list(range(len(events)))], "plan": plan, "show": show}


def cases(rng, tier):
    return fn_cases(rng.fork("fn"), tier) + engine_cases(rng.fork("engine"), tier)


# ------------------------------------------------------------------ engine driver
def define_line(etype="t"):
    return "DEFINE " + etype + " FIELDS { " + ", ".join(f'"{n}": {spec}' for n, _t, spec in FIELDS) + " }"


def py_of_canon(c):
    """python value of a stored canon (scalars only)"""
    if c == "a" or c == "n":
        return None
    if c[0] == "b":
        return c == "b1"
    if c[0] == "i":
        return int(c[1:])
    if c[0] == "f":
        return bits_f(int(c[1:], 16))
    return bytes.fromhex(c[1:]).decode("utf-8", "surrogatepass")


def run_history(c):
    res = {"obs": [], "notes": [], "stored": [], "rejected": []}
    eng = engine.Engine(segments_per_merge=2, **c["cfg"])
    try:
        eng.start()
        r = eng.cmd(define_line(c.get("etype", "t")))
        if '"status":200' not in r.get("out", ""):
            res["notes"].append(f"DEFINE failed: {r}")
            return res
        layout = {}          # zid -> [via_wal, seg (None | n), batch index]
        segs = []            # flushed batches: lists of zids sharing the segment (zone composition for col_present)
        plan = c["plan"]

        et = c.get("etype", "t")
        res["times"] = {}

        def store(ids):
            import time as _t
            for i in ids:
                ev = c["events"][i]
                t0 = int(_t.time())
                r = eng.cmd(ev["line"])
                if '"status":200' in r.get("out", ""):
                    layout[i] = [False, None, None]
                    res["stored"].append(i)
                    res["times"][str(i)] = [t0 - 1, int(_t.time()) + 1]
                else:
                    res["rejected"].append([i, json.dumps(r)[:200]])

        def observe(tag, wait=True):
            if wait:
                eng.cmd("!flushwait")
            ctxs = sorted({c["events"][i]["ctx"] for i in layout})
            cmds = [(f"QUERY {et}", None, None), (f"QUERY {et} RETURN [%s]" % ", ".join(plan["ret"]), plan["ret"], None)]
            if ctxs:
                k = len(res["obs"])
                pool = ctxs + list(plan.get("probes") or [])
                q1, q2, q3 = pool[k % len(pool)], pool[(k + 1) % len(pool)], pool[(k + 2) % len(pool)]
                cmds.append((f"QUERY {et} FOR {quote_ctx(q1)}", None, q1))
                cmds.append((f"REPLAY {et} FOR {quote_ctx(q2)}", None, q2))
                cmds.append((f"REPLAY FOR {quote_ctx(q3)} RETURN [%s]" % ", ".join(plan["ret"]), plan["ret"], q3))
            wh = plan.get("wheres") or []
            for j in range(2 if wh else 0):
                w_ = wh[(2 * (len(res["obs"]) // 5) + j) % len(wh)]
                cmds.append((f"QUERY {et} WHERE {w_['where']} RETURN [%s]" % ", ".join(w_["ret"]), w_["ret"], None))
            lay = {str(i): list(v) for i, v in layout.items()}
            groups = [list(g) for g in segs]
            for cmd, ret, scope in cmds:
                r = eng.rows(cmd)
                for _ in range(3):
                    # a read that hits the harness's 15 s command timeout on the overloaded machine is repeated
                    if r.get("error") != "TIMEOUT":
                        break
                    res["notes"].append(f"retry after TIMEOUT: {cmd} [{tag}]")
                    r = eng.rows(cmd)
                rows = []
                for row in r["rows"]:
                    rows.append([[k, canon_json(v)] for k, v in row.items()])
                res["obs"].append({"tag": tag, "cmd": cmd, "ret": ret, "scope": scope, "where": " WHERE " in cmd, "status": r["status"], "rows": rows, "layout": lay,
                                   "groups": groups, "err": r.get("error")})

        def seg_dirs():
            return sorted(d for d in eng.dir_digest(False).get("shard-0", {}).get("segs", {}))

        def mark_flushed(ids, before, how):
            """The layout follows what the engine DID: the rows count as flushed only if a new segment directory appeared."""
            live = [i for i in ids if i in layout and layout[i][1] is None]
            after = seg_dirs()
            if not live:
                return
            if [d for d in after if d not in before]:
                for i in live:
                    layout[i][1] = 0
                segs.append(live)
            else:
                res["notes"].append(f"{how}: no new segment directory ({before} -> {after}); rows stay in memory")

        def flush(ids):
            before = seg_dirs()
            eng.cmd("FLUSH")
            eng.cmd("!flushwait")
            mark_flushed(list(layout), before, "FLUSH")

        batches = c["batches"]
        if plan.get("passive"):
            # read while the rows sit in the PASSIVE buffer: the STORE that fills the memtable rotates it, the flush
            # worker is parked before it writes anything (no earlier segment exists, so the known C03
            # read-during-flush finding cannot interfere)
            store(batches[0][:-1])
            before = seg_dirs()
            pk = eng.cmd("!park fw_begin")
            store(batches[0][-1:])
            w = eng.cmd("!wait_parked fw_begin 3000") if pk.get("ok") else {}
            if w.get("parked"):
                observe("passive", wait=False)
                eng.cmd("!release fw_begin")
                eng.cmd("!flushwait")
                mark_flushed(batches[0], before, "rotation")
            else:
                # a rejected STORE left the memtable short of its capacity: nothing rotated, flush explicitly
                res["notes"].append(f"flush worker did not park at fw_begin: {pk} {w}")
                eng.cmd("!release fw_begin")
                flush(batches[0])
            observe("seg")
            batches = [[]] + list(batches[1:])
        store(batches[0])
        observe("mem")
        if plan["wal_restart_first"]:
            eng.cmd("!flushwait")
            eng.restart(clean=True)
            for i in batches[0]:
                if i in layout:
                    layout[i][0] = True
            observe("wal")
        flush(batches[0])
        observe("seg")
        if plan.get("short"):
            return res
        for k, b in enumerate(batches[1:]):
            store(b)
            if k == 0:
                observe("mem+seg")
            flush(b)
        observe("segs")
        if plan["compact"]:
            before = sorted(eng.dir_digest(False).get("shard-0", {}).get("segs", {}))
            r = eng.cmd("!compact 0")
            after = sorted(eng.dir_digest(False).get("shard-0", {}).get("segs", {}))
            res["notes"].append(f"compact: {json.dumps(r)[:160]} {before}->{after}")
            if r.get("plans") and not r.get("error") and before != after:
                # merged inputs: every flushed segment of the level (2 per plan); rows whose directory disappeared were rewritten
                gone = [s for s in before if s not in after]
                # segments are named 00000, 00001, ... in flush order (manual flushes of an empty memtable consume ids too,
                # so map by order of non-empty flushes recorded in segs)
                names = before
                merged = []
                for name, g in zip([s for s in names if int(s) < 10000], segs):
                    if name in gone:
                        merged.append(g)
                if merged:
                    newg = [i for g in merged for i in g]
                    for i in newg:
                        layout[i][1] += 1
                    segs[:] = [g for g in segs if g not in merged] + [newg]
                res["compacted"] = bool(merged)
            observe("compacted")
        if plan["restart_end"]:
            eng.cmd("!flushwait")
            eng.restart(clean=True)
            observe("restarted")
    except engine.Crashed as e:
        res["notes"].append(f"engine crashed at {e}")
        res["crashed"] = True
    finally:
        eng.destroy()
    return res


def eid_map(impl):
    """event_id -> zid, learned from the unrestricted reads (RETURN reads may mislabel the zid column itself)"""
    m = {}
    for o in impl.get("obs", []):
        if o["ret"] is None:
            for row in o["rows"]:
                d = dict(row)
                z, e = d.get("zid"), d.get("event_id")
                if z and e and z.startswith("i") and z[1:] in o["layout"]:
                    m[e] = z
    return m


def row_zid(d, o, emap):
    if o["ret"] is None:
        return d.get("zid")
    return emap.get(d.get("event_id"))


def cell_checks(c, impl):
    """Flattens the observations into per-cell records:
    {zid, field, ftype, layout token, cp, stored canon, got canon, obs index}."""
    out = []
    evs = c["events"]
    emap = eid_map(impl)
    for oi, o in enumerate(impl.get("obs", [])):
        lay = o["layout"]
        group_of = {}
        for g in o["groups"]:
            for i in g:
                group_of[i] = g
        for row in o["rows"]:
            d = dict(row)
            z = row_zid(d, o, emap)
            if z is None or not z.startswith("i") or z[1:] not in lay:
                continue
            i = int(z[1:])
            w, s, _ = lay[z[1:]]
            for name, got in row:
                if name in ("context_id", "event_type"):
                    text = evs[i]["ctx"] if name == "context_id" else c.get("etype", "t")
                    out.append({"zid": i, "field": name, "src": name, "ft": "core", "lay": "w%ds%s" % (1 if w else 0, "-" if s is None else s), "cp": True,
                                "st": "s" + hexs(text), "got": got, "obs": oi, "mem": s is None})
                    continue
                if name in CORE or name not in FTYPE:
                    continue
                st = evs[i]["expc"][name]
                if s is None:
                    cp = True
                else:
                    cp = any(evs[j]["expc"][name] != "a" for j in group_of.get(i, [i]))
                out.append({"zid": i, "field": name, "src": name, "ft": FTYPE[name], "lay": "w%ds%s" % (1 if w else 0, "-" if s is None else s), "cp": cp,
                            "st": st, "got": got, "obs": oi, "mem": s is None})
    return out


def order_dependent(ret):
    """RETURN entries whose column position depends on the HashSet order (no WHERE clause in these reads)."""
    out = []
    for f in ret or []:
        if f in FTYPE and f not in out:
            out.append(f)
    return out


def assign_sources(c, r, modelval):
    """The memtable flow names its columns by one HashSet order and fills them by another: find, per RETURN
    observation, the arrangement under which every in-memory row is explained (identity first)."""
    import itertools
    evs = c["events"]
    by_obs = {}
    for x in r["cells"]:
        by_obs.setdefault(x["obs"], []).append(x)
    for oi, o in enumerate(r["obs"]):
        dep = order_dependent(o["ret"])
        if len(dep) < 2:
            continue
        cells = [x for x in by_obs.get(oi, []) if x["mem"] and x["field"] in dep]
        if not cells:
            continue

        def mv(x, src):
            return (modelval.get(f"value_cell {FTYPE[src]} {x['lay']} 1 {evs[x['zid']]['expc'][src]}") or "").split(" ")[0]

        for perm in itertools.permutations(dep):
            pi = dict(zip(dep, perm))
            if all(mv(x, pi[x["field"]]) == x["got"] for x in cells):
                for x in cells:
                    x["src"] = pi[x["field"]]
                o["perm"] = pi
                break


def cell_line(x):
    if x["ft"] == "core":
        return f"value_corecell {x['lay']} {x['st'][1:] or '-'}"
    return f"value_cell {x['ft']} {x['lay']} {1 if x['cp'] else 0} {x['st']}"


def src_line(c, x):
    """the model line of the field whose value the cell shows"""
    if x["src"] == x["field"]:
        return cell_line(x)
    return f"value_cell {FTYPE[x['src']]} {x['lay']} 1 {c['events'][x['zid']]['expc'][x['src']]}"


def proj_line(cols, ret):
    fields = ",".join(hexs(n) for n, _, _ in FIELDS)
    return "value_proj " + ",".join(hexs(k) for k in cols) + " " + (",".join(hexs(k) for k in ret) if ret else "=") + " " + fields


def run_sides(cases_, model_ok):
    fn_idx = [i for i, c in enumerate(cases_) if c.get("line")]
    en_idx = [i for i, c in enumerate(cases_) if not c.get("line")]
    impl = [None] * len(cases_)
    model = [None] * len(cases_)
    lines = [cases_[i]["line"] for i in fn_idx]
    fi = vlib.run_lines(vlib.VHARN, ["fn"], lines, timeout=900)
    fm = vlib.run_lines(vlib.MODEL_RUN, [], lines, timeout=900) if model_ok else [None] * len(lines)
    for k, i in enumerate(fn_idx):
        impl[i], model[i] = fi[k], fm[k]
    if en_idx:
        def run_retry(c):
            r = run_history(c)
            if r.get("crashed") and not r.get("obs"):
                # the engine child did not come up (overloaded machine): one more attempt
                r2 = run_history(c)
                r2.setdefault("notes", []).append("second attempt after: " + "; ".join(r.get("notes", [])))
                return r2
            return r

        import os as _os
        try:
            idle = _os.getloadavg()[0] < (_os.cpu_count() or 8)
        except OSError:
            idle = False
        with concurrent.futures.ThreadPoolExecutor(max_workers=10 if (idle and len(en_idx) > 20) else 6) as ex:
            rs = list(ex.map(run_retry, [cases_[i] for i in en_idx]))
        want = {}
        for i, r in zip(en_idx, rs):
            r["cells"] = cell_checks(cases_[i], r)
            r["projs"] = []
            full_cols = {}
            for oi, o in enumerate(r["obs"]):
                if o["rows"] and o["ret"] is None:
                    full_cols[o["tag"]] = [k for k, _ in o["rows"][0]]
            for oi, o in enumerate(r["obs"]):
                if o["rows"] and o["ret"] is not None and o["tag"] in full_cols:
                    r["projs"].append({"obs": oi, "line": proj_line(full_cols[o["tag"]], o["ret"]), "got": ",".join(hexs(k) for k, _ in o["rows"][0]),
                                       "cols": full_cols[o["tag"]]})
            r["fors"] = []
            emap = eid_map(r)
            for oi, o in enumerate(r["obs"]):
                if o.get("scope") is None:
                    continue
                got = set()
                for row in o["rows"]:
                    z = row_zid(dict(row), o, emap)
                    if z and z.startswith("i"):
                        got.add(z[1:])
                for zs, (w, sg, _b) in o["layout"].items():
                    lay = "w%ds%s" % (1 if w else 0, "-" if sg is None else sg)
                    line = f"value_for {lay} {hexs(o['scope']) or '-'} {hexs(cases_[i]['events'][int(zs)]['ctx']) or '-'}"
                    r["fors"].append({"obs": oi, "zid": int(zs), "line": line, "got": "1" if zs in got else "0"})
                    want[line] = None
            for x in r["cells"]:
                want[cell_line(x)] = None
                if x["mem"]:
                    for f in order_dependent(r["obs"][x["obs"]]["ret"]):
                        want[f"value_cell {FTYPE[f]} {x['lay']} 1 {cases_[i]['events'][x['zid']]['expc'][f]}"] = None
            for p in r["projs"]:
                want[p["line"]] = None
            impl[i] = r
        if model_ok:
            ls = list(want)
            outs = vlib.run_lines(vlib.MODEL_RUN, [], ls, timeout=900)
            want = dict(zip(ls, outs))
        for i in en_idx:
            r = impl[i]
            # (assign_sources, which explained in-memory RETURN rows by a per-read column permutation, is no longer
            #  applied: since fix f2ae870 a mislabelled cell is a disagreement and an oracle failure)
            for x in r["cells"]:
                m = want.get(src_line(cases_[i], x))
                x["model"] = m
                x["own_model"] = want.get(cell_line(x))
            for p in r["projs"]:
                p["model"] = want.get(p["line"])
            for f in r["fors"]:
                f["model"] = want.get(f["line"])
            model[i] = "engine" if model_ok else None
    return impl, model


# ------------------------------------------------------------------ comparison and oracle
def diffs(c, impl, model):
    if c.get("line"):
        return [] if impl == model else [f"impl {impl!r} model {model!r}"]
    if model is None:
        return []
    out = []
    if impl.get("crashed") or not impl.get("obs"):
        out.append("harness: " + "; ".join(impl.get("notes", [])))
    for x in impl.get("cells", []):
        m = (x.get("model") or "").split(" ")
        if m[0] != x["got"]:
            out.append(f"event {x['zid']} field {x['field']} ({x['ft']}, {x['lay']}, cp={x['cp']}, stored {x['st'][:60]}): engine {x['got'][:80]} model {m[0][:80]} [{impl['obs'][x['obs']]['cmd']}]")
        elif x["src"] != x["field"] and x["field"] == "zid":
            pass
        elif len(m) > 2 and m[2] != "ok":
            out.append(f"event {x['zid']} field {x['field']}: generated value {x['st'][:60]} is not conforming in the model")
    for f in impl.get("fors", []):
        if f["model"] is not None and f["model"] != f["got"]:
            out.append(f"{impl['obs'][f['obs']]['cmd']} [{impl['obs'][f['obs']]['tag']}]: event {f['zid']} stored under {c['events'][f['zid']]['ctx']!r}: "
                       f"engine {'returns' if f['got'] == '1' else 'omits'} it, model {f['model']}")
    for p in impl.get("projs", []):
        if p["model"] != p["got"]:
            out.append(f"projection {impl['obs'][p['obs']]['cmd']}: engine columns {p['got']} model {p['model']}")
    return out


def same(c, impl, model):
    return not diffs(c, impl, model)


def value_equal(exp, got):
    """The property's equality: numbers numerically, strings byte-wise, null as null, booleans as booleans."""
    if exp is None or got is None:
        return exp is None and got is None
    if isinstance(exp, bool) or isinstance(got, bool):
        return isinstance(exp, bool) and isinstance(got, bool) and exp == got
    if isinstance(exp, (int, float)) and isinstance(got, (int, float)):
        for v in (exp, got):
            if isinstance(v, float) and (v != v or v in (float("inf"), float("-inf"))):
                return False
        return Fraction(exp) == Fraction(got)
    if isinstance(exp, str) and isinstance(got, str):
        return exp == got
    return False


def py_of_json_canon(s):
    """python value of a canonical JSON string (nested allowed); returns (value, rest)"""
    if s[0] == "n":
        return None, s[1:]
    if s[0] == "b":
        return s[1] == "1", s[2:]
    if s[0] in "if":
        j = 1
        while j < len(s) and s[j] not in ",]}":
            j += 1
        return (int(s[1:j]) if s[0] == "i" else bits_f(int(s[1:j], 16))), s[j:]
    if s[0] == "s":
        j = 1
        while j < len(s) and s[j] not in ",]}":
            j += 1
        return bytes.fromhex(s[1:j]).decode("utf-8", "surrogatepass"), s[j:]
    if s[0] == "[":
        out, r = [], s[1:]
        while r[0] != "]":
            v, r = py_of_json_canon(r)
            out.append(v)
            if r[0] == ",":
                r = r[1:]
        return out, r[1:]
    if s[0] == "{":
        out, r = {}, s[1:]
        while r[0] != "}":
            j = r.index(":")
            k = bytes.fromhex(r[:j]).decode("utf-8", "surrogatepass")
            v, r = py_of_json_canon(r[j + 1:])
            out[k] = v
            if r[0] == ",":
                r = r[1:]
        return out, r[1:]
    raise ValueError(s)


def engine_failures(c, impl):
    """Direct property oracle on the engine's own outputs. Returns a list of (description, cell or None)."""
    fails = []
    if impl.get("crashed"):
        return [("engine crashed: " + "; ".join(impl.get("notes", [])), None)]
    evs = c["events"]
    first = {}
    core_first = {}
    emap = eid_map(impl)
    for oi, o in enumerate(impl.get("obs", [])):
        if o["status"] != 200 and o["rows"] == [] and o["layout"]:
            fails.append((f"{o['cmd']} [{o['tag']}] answered status {o['status']} {o.get('err')}", None))
            continue
        seen = set()
        scope = o.get("scope")
        for row in o["rows"]:
            d = dict(row)
            z = row_zid(d, o, emap)
            if z is None:
                fails.append((f"{o['cmd']} [{o['tag']}]: row that matches no stored event {row!r}"[:300], None))
                continue
            i = int(z[1:]) if z.startswith("i") else None
            if i is None or str(i) not in o["layout"]:
                fails.append((f"{o['cmd']} [{o['tag']}]: row with unknown zid {z}", None))
                continue
            seen.add(i)
            ev = evs[i]
            # core fields present and unchanged
            for k in CORE:
                if k not in d:
                    fails.append((f"{o['cmd']} [{o['tag']}]: core field {k} missing from the row of event {i}", None))
            # (context_id and event_type are compared as cells below, like every payload value)
            # a read FOR q returns only what was stored under exactly q: spellings stay apart
            if scope is not None and ev["ctx"] != scope:
                fails.append((f"{o['cmd']} [{o['tag']}]: event {i}, stored for context {ev['ctx']!r}, is returned by a read FOR {scope!r}", None))
            ts = d.get("timestamp")
            tr = (impl.get("times") or {}).get(str(i))
            if ts is not None and ts.startswith("i") and tr and not (tr[0] <= int(ts[1:]) <= tr[1]):
                fails.append((f"{o['cmd']} [{o['tag']}]: event {i} stored at {tr} is returned with timestamp {ts[1:]}", None))
            for k in ("timestamp", "event_id"):
                v = d.get(k)
                if v is not None:
                    if not v.startswith("i"):
                        fails.append((f"{o['cmd']} [{o['tag']}]: event {i} core field {k} is not an integer: {v}", None))
                    if core_first.setdefault((i, k), v) != v:
                        fails.append((f"{o['cmd']} [{o['tag']}]: event {i} core field {k} changed from {core_first[(i, k)]} to {v}", None))
            # RETURN restricts payload columns to the requested schema fields
            keys = [k for k, _ in row]
            if o["ret"] is not None:
                allowed = set(CORE) | {f for f in o["ret"] if f in FTYPE}
                for k in keys:
                    if k not in allowed:
                        fails.append((f"{o['cmd']} [{o['tag']}]: column {k} returned although not requested", None))
                for f in o["ret"]:
                    if f in FTYPE and f not in keys:
                        fails.append((f"{o['cmd']} [{o['tag']}]: requested column {f} missing", None))
            else:
                for f in FTYPE:
                    if f not in keys:
                        fails.append((f"{o['cmd']} [{o['tag']}]: schema column {f} missing from an unrestricted read", None))
        # every stored event in scope is returned
        for zs in o["layout"]:
            i = int(zs)
            if o.get("where"):
                break         # which rows a WHERE clause selects is C02's property; the cells of the returned rows are checked
            if (scope is None or evs[i]["ctx"] == scope) and i not in seen:
                fails.append((f"{o['cmd']} [{o['tag']}]: stored event {i} (context {evs[i]['ctx']!r}) not returned", None))
    for x in impl.get("cells", []):
        exp = py_of_canon(x["st"])
        got, _ = py_of_json_canon(x["got"])
        o = impl["obs"][x["obs"]]
        if not value_equal(exp, got):
            fails.append((f"{o['cmd']} [{o['tag']}, {x['lay']}]: event {x['zid']} field {x['field']} ({x['ft']}) stored {json.dumps(exp, ensure_ascii=False)[:120]} "
                          f"returned {json.dumps(got, ensure_ascii=False)[:120]}", x))
        key = (x["zid"], x["field"])
        if key not in first:
            first[key] = (x["got"], o)
        elif first[key][0] != x["got"]:
            a, _ = py_of_json_canon(first[key][0])
            if not (isinstance(a, (int, float)) and not isinstance(a, bool) and isinstance(got, (int, float)) and not isinstance(got, bool) and value_equal(a, got)):
                fails.append((f"{o['cmd']} [{o['tag']}, {x['lay']}]: event {x['zid']} field {x['field']} ({x['ft']}) returned {json.dumps(got, ensure_ascii=False)[:100]} "
                              f"but {json.dumps(a, ensure_ascii=False)[:100]} by {first[key][1]['cmd']} [{first[key][1]['tag']}]", x))
    return fails


def cell_classes(x):
    m = (x.get("model") or "").split(" ")
    cls = [k for k in m[1].split(",") if k != "-"] if len(m) > 1 else []
    return cls


def pick_failure(c, impl):
    fails = engine_failures(c, impl)
    if not fails:
        return None
    # report an unexplained failure first (the classes come from the model; the detection above does not)
    for why, x in fails:
        if x is None or not cell_classes(x):
            return why, x
    return fails[0]


# fixed classes are never returned: FloatWalReparsedInexact (32b7370), ReturnColumnsMislabelledInMemory (f2ae870)
FN_CLASS = {"tojson_str": "Utf8ReparsedOnRender", "builder_var": "StringRetyped"}


def core_block_failure(c, impl):
    """(description, only the render rule failed?) for a value_core line"""
    rows = impl.split(" | ")[0].split(" ")
    if len(rows) != len(c["texts"]):
        return f"{c['line'][:80]}: {impl[:120]}", False
    for t, r in zip(c["texts"], rows):
        a, _sink, js = r.split(";")
        if a != "U" + hexs(t):
            return f"a flushed {c['line'].split()[1]} holding {t!r} is materialised as {a}", False
    for t, r in zip(c["texts"], rows):
        a, _sink, js = r.split(";")
        if js != "s" + hexs(t):
            return f"the {c['line'].split()[1]} {t!r} is rendered as {js[:60]}", True
    return None


def oracle(c, impl):
    if c.get("line"):
        if impl in ("PANIC", "ABORT"):
            return f"implementation {impl} on {c.get('show')!r}"
        if c.get("kind") == "core_block":
            f = core_block_failure(c, impl)
            return f[0] if f else None
        exp = c.get("expect")
        if exp is None or impl == "ERR":
            return None
        if impl != exp:
            if c["kind"] == "builder_var":
                return f"a var-bytes cell holding the text {c.get('show')!r} is materialised as {impl} instead of the string"
            if c["kind"] == "tojson_str":
                return f"to_json of the string {c.get('show')!r} renders {impl}"
            if c["kind"] == "wal_float":
                return f"the float {c.get('show')} ({exp}) comes back from the WAL line as {impl}"
            return f"{c['kind']} {c.get('show')!r}: expected {exp}, got {impl}"
        return None
    f = pick_failure(c, impl)
    return f[0] if f else None


def classify(c, impl, model=None):
    if c.get("line"):
        # a function-level failure belongs to its class only when the model predicts exactly this output
        if impl in ("PANIC", "ABORT") or (model is not None and model != impl):
            return None
        if c.get("kind") == "core_block":
            f = core_block_failure(c, impl)
            return "Utf8ReparsedOnRender" if f and f[1] else None
        return FN_CLASS.get(c.get("kind"))
    f = pick_failure(c, impl)
    if not f:
        return None
    why, x = f
    if x is None:
        return None
    cls = cell_classes(x)
    return cls[0] if cls else None


def nontrivial_key(c, impl):
    if c.get("line"):
        return c["line"] if impl not in (None, "ERR", "UNKNOWN_PROBE", "BADCASE") else None
    n = len({(x["ft"], x["st"], x["lay"]) for x in impl.get("cells", []) if x["lay"] != "w0s-"})
    return (c["show"], n) if n else None
