"""C20 — every response encoding carries the same rows and values."""
import json, math, os, struct
from decimal import Decimal
import vlib
from vlib import hx
from props import base

PROP = "C20"
PROPS_V = "theories/Props/C20.v"
THEOREMS = [
    "C20_row_count_matches",
    "C20_writer_spec",
    "C20_writer_same_rows",
    "C20_cells_agree_typed",
    "C20_agree_refuted",
    "C20_responses_agree_refuted",
    "C20_arrow_paths_disagree_refuted",
    "C20_arrow_paths_agree_int_in_float",
    "C20_known_class_exact",
    "C20_agree_outside_known",
    "C20_error_status_same_body",
    "C20_http_text_status_correct",
    "C20_http_status_correct_outside_known",
    "C20_http_status_same_refuted",
    "C20_http_status_outside_known",
]
RULE = ("ColumnBatch streams built with the real BatchPool (schemas over every logical type name that either copy of logical_to_arrow_type "
        "mentions or the engine assigns to a column - read from the Rust text on every run - plus unknown, prefix and near-miss names, each "
        "emitted as a whole batch and partially; cells of every ScalarValue variant in every column type: nulls, i64/u64 limits, 2^53 neighbours, "
        "integral / subnormal / non-finite floats, numeric-looking, boolean-looking, whitespace-padded, non-ASCII and JSON-document "
        "strings, binary; string cells, column names, document members and error messages over the edges of the string encodings: "
        "supplementary-plane code points (emoji, ZWJ / flag sequences, U+10000, U+10FFFF, planes 2, 14-16), BMP edges (U+D7FF, U+E000, "
        "U+FFFD-U+FFFF, BOM), combining marks next to their precomposed forms, the characters JSON must escape (quote, backslash, "
        "C0 controls incl. NUL, DEL), U+2028/2029/0085, and literal text that looks like an escape) x batch splits incl. empty batches x event_id columns with duplicate / negative / textual / null ids x "
        "LIMIT / OFFSET in {absent, 0, 1, small, beyond the end} x streaming_batch_size in {0, 1, 3, 1000} (one harness process group per "
        "value) x QueryResponseWriter and ShowResponseWriter (materialized-frame counts, watermark filtering) x JsonRenderer, UnixRenderer, "
        "ArrowRenderer; the encoders called directly with explicit row indices; error responses (7 status codes x messages around the "
        "sniffing limits) through the three renderers and the HTTP status derivation.  JSON / text streams are decoded by CPython's json "
        "(every frame parsed; names and string cells compared as the UTF-8 bytes of the DECODED string, so any escape spelling that decodes "
        "to the same string is accepted and any other is a violation naming the cell), Arrow streams by arrow_ipc::reader::StreamReader.  A case is non-trivial when it emitted at least one row (or is an error case); "
        "distinct by (kind, decoded streams)")
ASSUMPTIONS = [
    "serde_json's reading of a Utf8 cell as array/object, Rust's str::parse::<f64> and f64::to_string are inputs of the model, not modelled (computed by the generator with CPython and cross-checked by the differential run)",
    "every batch of a stream carries the schema the writer was built with (the engine's mergers check compatibility); column names are pairwise different",
    "the JSON / text streams are decoded with CPython's json module (exact float parsing); serde_json 1.0.140 without float_roundtrip is not a correctly rounding reader and is not used as the decoder",
    "I/O errors of the sink are not modelled (the sink is a Vec<u8>)",
]
TRUSTED = [
    "Coq 8.16.1 kernel + coqc; vm_compute for closed witnesses; no native_compute",
    "translator tools/params/p50_render.py (both logical_to_arrow_type tables, the accepted ScalarValue variants of every Arrow builder of both paths, the to_json threshold, status codes and HTTP sniffing constants are read from the Rust text)",
    "extraction: ExtrOcamlBasic only; ocaml/driver.ml, conv.ml, p_render.ml (parsing/printing)",
    "correspondence harness /verif/harness (vharn fn render_run/render_enc/render_err) built against /repo with --cfg sneldb_verif; hooks QueryBatchStream::verif_from_receiver, ShowResponseWriter re-export, verif_http_status_of_output",
    "readers: CPython json (JSON and text streams), arrow-ipc 54 StreamReader (Arrow streams); python oracle = pairwise comparison of the decodings (text vs JSON and JSON vs Arrow, cell by cell); tools/c20_oracle_selftest.py re-spells the real text streams with correct and wrong escapes and checks the verdicts",
]

CLAIMED = True
MANIFEST = {
 "level_text": "Theorems over the model of the shared response writers and the three encoders (all schemas, cells, batch splits, LIMIT/OFFSET, batch sizes): the announced row count equals the rows emitted; the accepted rows are LIMIT(OFFSET(first-occurrence dedup)) and identical for every encoder; a cell whose runtime kind matches the declared type decodes alike from JSON, text and both Arrow paths; the full agreement claim is refuted with witnesses and the set of disagreeing cells is characterised exactly by eight classes; error bodies carry one status in all encodings; since fix c214409 the HTTP status derived from the body is the error's own status for text errors of any length and for JSON / Arrow errors below 500 bytes, and still wrong (200) for longer JSON / Arrow bodies. The model's encoder tables are regenerated from the Rust match arms on every run, and the model is run against the real QueryResponseWriter / ShowResponseWriter / renderers on generated ColumnBatch streams, decoded by independent readers.",
 "design_ref": "DESIGN.md §6 C20",
 "level_note": "Trusted: Coq kernel; p50_render.py; ExtrOcamlBasic extraction + OCaml driver; the Rust harness and three add-only hooks; CPython json and arrow-ipc StreamReader as decoders. serde_json's document reading, f64 parsing and printing are inputs of the model. Engine-level production of the mixed-kind cells is not part of this check."
}

# ------------------------------------------------------------------ logical type names: read from the Rust text
# Every name that either copy of logical_to_arrow_type mentions (exact arms, and for a prefix arm the bare prefix and two
# completions), every name the engine itself assigns to a column (field_type_to_logical, logical_type_for_builtin, the
# aggregate / sequence schema builders: string literals assigned to `logical_type`), plus near-miss and unknown names.
# A name added to one table only (the two copies drifting apart) is generated automatically, for whole-batch and partial
# emissions; the oracle then compares the Arrow rows with the JSON rows for it like for every other name.
FALLBACK_NAMES = ["Integer", "Number", "Float", "Boolean", "Timestamp", "String", "JSON", "Object", "Array", "UInt64"]
NEAR_MISS = ["UInt8", "UInt", "Binary", "Null", "Datetime", "integer", "Uint64", "Int", "Floa", "Floats", "x", "Optional(Integer)", "Enum(a|b)"]
ARROW_OF = {"DataType::Int64": "Int64", "DataType::Float64": "Float64", "DataType::Boolean": "Boolean",
            "DataType::Timestamp(TimeUnit::Millisecond, None)": "TimestampMs", "DataType::LargeUtf8": "LargeUtf8"}


def _read_repo(rel):
    try:
        return open(os.path.join(vlib.REPO, rel), encoding="utf-8").read()
    except OSError:
        return ""


def _table(src):
    """(exact {name: arrow type}, [(prefix, arrow type)], default) of one logical_to_arrow_type"""
    import re
    m = re.search(r"fn\s+logical_to_arrow_type[^{]*\{\s*match\s+logical_type\s*\{(.*?)\n\s*\}\s*\n\}", src, re.S)
    exact, pref, dflt = {}, [], "LargeUtf8"
    if not m:
        return exact, pref, dflt
    body = re.sub(r"//[^\n]*", "", m.group(1))
    for arm in re.finditer(r"((?:\"[^\"]*\"\s*\|?\s*)+|other\s+if\s+other\.starts_with\(\"([^\"]*)\"\)|_)\s*=>\s*(DataType::\w+(?:\([^)]*\))?),", body):
        pat, pfx, ty = arm.group(1).strip(), arm.group(2), ARROW_OF.get(arm.group(3).strip(), "LargeUtf8")
        if pat == "_":
            dflt = ty
        elif pfx is not None:
            pref.append((pfx, ty))
        else:
            for name in re.findall(r"\"([^\"]*)\"", pat):
                exact.setdefault(name, ty)
    return exact, pref, dflt


def _load_types():
    import re
    ta = _table(_read_repo("src/shared/response/arrow.rs"))
    tb = _table(_read_repo("src/engine/core/read/flow/batch.rs"))
    names = []
    for exact, pref, _ in (ta, tb):
        names += list(exact)
        for p, _t in pref:
            names += [p + "64", p, p + "8"]
    produced = []
    for rel in ("src/engine/core/read/flow/operators/memtable_source.rs",):
        src = _read_repo(rel)
        for fn in ("field_type_to_logical", "logical_type_for_builtin"):
            m = re.search(r"fn\s+" + fn + r"\b.*?\n\}", src, re.S)
            if m:
                produced += re.findall(r"=>\s*\"(\w+)\"\.into\(\)", m.group(0))
    for rel in ("src/engine/core/read/flow/operators/agg/schema_builder.rs", "src/engine/core/read/result.rs",
                "src/engine/query/execution_engine.rs", "src/command/handlers/query/merge/sequence_stream.rs"):
        produced += re.findall(r"logical_type:\s*\"(\w+)\"\.to_string\(\)", _read_repo(rel))
    core = []
    for n in names + produced:
        if n and n not in core:
            core.append(n)
    if not core:
        core = list(FALLBACK_NAMES)
    return core, ta, tb


CORE_NAMES, TABLE_SCHEMA, TABLE_BATCH = _load_types()
TYPE_NAMES = CORE_NAMES + [n for n in NEAR_MISS if n not in CORE_NAMES]


def _lookup(tbl, name):
    exact, pref, dflt = tbl
    if name in exact:
        return exact[name]
    for p, t in pref:
        if name.startswith(p):
            return t
    return dflt


def atype(name):
    """Arrow type of the stream schema (arrow.rs table); see atype_batch for the whole-batch arrays"""
    return _lookup(TABLE_SCHEMA, name) if TABLE_SCHEMA[0] else \
        ("Int64" if name in ("Integer", "Number") or name.startswith("UInt") else
         {"Float": "Float64", "Boolean": "Boolean", "Timestamp": "TimestampMs"}.get(name, "LargeUtf8"))


def atype_batch(name):
    return _lookup(TABLE_BATCH, name) if TABLE_BATCH[0] else atype(name)


def corpus():
    return base.corpus_for(PROP)


# ------------------------------------------------------------------ library behaviours supplied with the values
def fbits(x):
    return struct.unpack("<Q", struct.pack("<d", x))[0]


def bits_f(b):
    return struct.unpack("<d", struct.pack("<Q", b))[0]


def rust_display_f64(bits):
    """f64::to_string: shortest round-trip digits, never an exponent, integral values without '.0'."""
    x = bits_f(bits)
    if math.isnan(x):
        return "NaN"
    if math.isinf(x):
        return "inf" if x > 0 else "-inf"
    if x == 0:
        return "-0" if bits >> 63 else "0"
    t = format(Decimal(repr(x)), "f")
    if "." in t:
        t = t.rstrip("0").rstrip(".")
    return t


def rust_parse_f64(s):
    """str::parse::<f64>: [+-]? (digits [. digits*]? | . digits) ([eE] [+-]? digits)? | [+-]? inf|infinity|nan (any case)."""
    i = 0
    n = len(s)
    if i < n and s[i] in "+-":
        i += 1
    body = s[i:]
    if body.lower() in ("inf", "infinity", "nan"):
        if body.lower() == "nan":
            # sign of NaN is kept by Rust; the differential run compares bit patterns
            return fbits(float("nan")) | ((1 << 63) if s[0] == "-" else 0)
        return fbits(float(s))
    j = i
    while j < n and s[j].isascii() and s[j].isdigit():
        j += 1
    nd = j - i
    if j < n and s[j] == ".":
        j += 1
        k = j
        while j < n and s[j].isascii() and s[j].isdigit():
            j += 1
        nd += j - k
    if nd == 0:
        return None
    if j < n and s[j] in "eE":
        j += 1
        if j < n and s[j] in "+-":
            j += 1
        k = j
        while j < n and s[j].isascii() and s[j].isdigit():
            j += 1
        if j == k:
            return None
    if j != n:
        return None
    try:
        return fbits(float(s))
    except (ValueError, OverflowError):
        return None


class NotSerde(Exception):
    pass


def _pint(t):
    v = int(t)
    if t == "-0":
        return -0.0
    if -2 ** 63 <= v < 2 ** 64:
        return v
    return float(t)


def _pfloat(t):
    v = float(t)
    if math.isinf(v):
        raise NotSerde()
    return v


def _pconst(t):
    raise NotSerde()


def _has_surrogate(v):
    if isinstance(v, str):
        return any(0xD800 <= ord(c) <= 0xDFFF for c in v)
    if isinstance(v, list):
        return any(_has_surrogate(x) for x in v)
    if isinstance(v, dict):
        return any(_has_surrogate(k) or _has_surrogate(x) for k, x in v.items())
    return False


def canon_doc(v):
    return json.dumps(v, sort_keys=True, separators=(",", ":"), ensure_ascii=False)


def serde_doc(s):
    """canonical text of the array/object serde_json reads from s, else None"""
    if not s.strip(" \t\n\r") or s.strip(" \t\n\r")[0] not in "[{":
        return None
    if s.strip(" \t\n\r") != s.strip():
        return None     # python would strip more kinds of whitespace than JSON allows
    try:
        v = json.loads(s, parse_int=_pint, parse_float=_pfloat, parse_constant=_pconst)
    except (ValueError, NotSerde, RecursionError):
        return None
    if not isinstance(v, (list, dict)) or _has_surrogate(v):
        return None
    return canon_doc(v)


# ------------------------------------------------------------------ cell tokens
def tok_null():
    return "n"


def tok_bool(b):
    return "b1" if b else "b0"


def tok_int(z):
    return f"i{z}"


def tok_ts(z):
    return f"t{z}"


def tok_float(bits):
    return f"f{bits}:{hx(rust_display_f64(bits))}"


def tok_str(s):
    t = "s" + hx(s)
    d = serde_doc(s)
    if d is not None:
        t += ":d" + hx(d)
    f = rust_parse_f64(s)
    if f is not None:
        t += f":f{f}"
    return t


def tok_bin(b):
    return "x" + hx(bytes(b))


I64_MIN, I64_MAX = -2 ** 63, 2 ** 63 - 1
INT_EDGES = [0, 1, -1, 2, 7, 42, I64_MAX, I64_MIN, I64_MAX - 1, I64_MIN + 1, 2 ** 53, 2 ** 53 + 1, 2 ** 53 - 1, -(2 ** 53) - 1,
             2 ** 62 + 1, 10 ** 18, 1609459200000, 2 ** 63 - 513, 2 ** 63 - 512, 2 ** 63 - 1024 - 512, 2 ** 54 + 2, 2 ** 54 + 6]
FLOAT_EDGES = [0.0, -0.0, 1.0, -1.0, 1.5, -2.75, 0.1, 1 / 3, 1e20, 1e21, 1e22, 1e23, 1e-7, 1.5e-10, 5e-324, 2.2250738585072014e-308,
               1.7976931348623157e308, 9007199254740992.0, 9007199254740993.0, 9.223372036854775807e18, 1.8446744073709552e19,
               123456789.0, 100.0, 2.5e-5, 4.35, 0.30000000000000004]
FLOAT_NONFINITE = [0x7FF0000000000000, 0xFFF0000000000000, 0x7FF8000000000000, 0xFFF8000000000000, 0x7FF0000000000001, 0x7FFFFFFFFFFFFFFF]
STR_EDGES = ["", "hi", "héllo", "日本", "a\nb", "q\"uote\\", "\x01\x1f", "\x7f", " ", "0", "1", "42", "-7", "+5", "007", "-0", "+0", "00",
             "9223372036854775807", "9223372036854775808", "-9223372036854775808", "-9223372036854775809", "18446744073709551615",
             "18446744073709551616", " 18446744073709551615", "18446744073709551615\n", "\t9223372036854775808 ", "+18446744073709551615",
             "018446744073709551615", "18446744073709551615.0", "1.8446744073709551615e19", "10000000000000000000", "99999999999999999999",
             "1.5", "1e5", "1E5", ".5", "5.", "+.5e-3", "1e", "e5", ".", "-", "+", "inf", "-inf", "+inf", "Infinity", "infinity", "INF", "NaN", "nan", "-nan", "1_0", " 1.5", "0x10",
             "true", "TRUE", "True", "false", "False", "FALSE", "tRuE", "yes", "t", "null",
             "[1,2]", " [1, 2] ", "[]", "{}", "{\"a\":1}", "{\"b\":[true,null],\"a\":\"x\"}", "[1,", "{\"a\"}", "[1.5,-2]", "\"x\"", "[\"é\"]",
             "[1e2]", "[NaN]", "{\"a\":1,\"a\":2}", "[-0]", "[18446744073709551616]", "\n[1]\n", "\x0b[1]", "[1]x", "[[[]]]", "[\"a\\nb\"]"]


# ------------------------------------------------------------------ strings whose encodings differ between the three renderers
# JSON / text frames carry a string inside a JSON string literal (the serializer may write any character raw or as an
# escape: \uXXXX, a UTF-16 surrogate pair beyond the BMP, the short escapes), Arrow carries its UTF-8 bytes.  The property
# is about the DECODED string, so these families aim at every place where an escaping serializer can go wrong: code points
# >= U+10000 (need a surrogate pair), the BMP edges around the surrogate block and the non-characters, combining marks
# (no normalisation may happen), the characters JSON must escape, the line separators, and literal text that looks like
# an escape.  Used as cell values, as column names (schema frame, keys of row frames, Arrow field names) and inside
# JSON-document strings.
UNI_CPS = [0x1F600, 0x10000, 0x10FFFF, 0x1F468, 0x200D, 0x1F469, 0x20000, 0x2FA1D, 0xE0001, 0xF0000, 0x100000, 0x1F1EF, 0x1F1F5,
           0xFFFF, 0xFFFE, 0xFFFD, 0xFDD0, 0xD7FF, 0xE000, 0xF8FF, 0xFEFF, 0xFE0F, 0x0301, 0x0300, 0x20DD, 0x0308,
           0x2028, 0x2029, 0x85, 0xA0, 0x80, 0xFF, 0x7FF, 0x800, 0x22, 0x5C, 0x2F, 0x00, 0x01, 0x08, 0x0C, 0x0A, 0x0D, 0x09, 0x1F, 0x7F,
           0x61, 0x30, 0x75, 0x20, 0x65, 0xE9, 0x65E5]
UNI_EDGES = ["smile \U0001F600!", "\U0001F600", "\U00010000", "\U0010FFFF", "x\U0010FFFFy", "\U0001F600\U0001F600a", "a\U00010000\uFFFF\U0010FFFF0",
             "\U0001F468\u200D\U0001F469\u200D\U0001F467", "\U0001F1EF\U0001F1F5", "\U00020000\u5B57", "\U000E0001", "\U000F0000\U00100000",
             "\U0001F600\u0301", "\U0001F44D\U0001F3FD", "\u2764\uFE0F",
             "\uFFFF", "\uFFFE", "\uFFFD", "\uFDD0", "\uD7FF", "\uE000", "\uD7FF\uE000", "\uFEFFbom", "\u07FF\u0800", "\x7f\x80\xff",
             "e\u0301", "\xe9", "a\u0300\u0301", "\u0301", "\u1100\u1161\u11A8", "\uAC01", "\u212B\xC5",
             "\u2028", "\u2029", "a\u2028b\u2029c", "\x85\xa0",
             "\x00", "a\x00b", "\x08\x0c\n\r\t", "\x1f\x7f", "\"", "\\", "\\\\\"", "/", "</script>", "\"\\/\x08\x0c\n\r\t\u2028\U0001F600",
             "\\ud83d\\ude00", "\\u1f600", "\\uD83D", "\\u{1f600}", "\\U0001F600", "&#128512;", "%F0%9F%98%80", "\\x00",
             "[\"\U0001F600\"]", "[\"\\ud83d\\ude00\"]", "[\"\\ud83d\"]", "[\"\\u1f600\"]", "{\"\U00010000\":\"\U0010FFFF\"}", "[\"e\u0301\",\"\xe9\"]",
             "[\"\u2028\"]", "{\"k\\u0000\":\"\\u0000\"}"]
UNI_NAMES = ["col_\U0001F600", "\U00010000", "n\U0010FFFF", "\U0001F468\u200D\U0001F469", "\U00020000\u5B57", "e\u0301", "\xe9", "\uFFFF", "\uFFFD", "\uE000x",
             "\uD7FF", "\u0301", "q\"uote", "back\\slash", "tab\there", "line\nbreak", "\u2028", "\u2029sep", "\x01ctl", "nul\x00", "a/b",
             "\\ud83d\\ude00", "\\u1f600", "\uFEFFname", " ", "\x7f", "k,:;=|{}"]


def gen_cp(rng):
    r = rng.below(10)
    if r < 5:
        return rng.choice(UNI_CPS)
    if r < 7:
        return rng.range(0x10000, 0x10FFFF)
    if r < 8:
        c = rng.range(0x80, 0xFFFF)
        return c if not 0xD800 <= c <= 0xDFFF else 0xFFFD
    if r < 9:
        return rng.choice([0x10000, 0x10001, 0x1FFFF, 0x20000, 0xFFFFF, 0x100000, 0x10FFFE, 0x10FFFF, 0x103FF, 0x10400, 0x1F600, 0x1D11E])
    return rng.range(0, 0x7F)


def gen_uni_str(rng):
    if rng.chance(1, 4):
        return rng.choice(UNI_EDGES)
    return "".join(chr(gen_cp(rng)) for _ in range(rng.range(1, 6)))


def show_text(s):
    """unambiguous spelling of a decoded string: ASCII with \\x / \\u / \\U escapes, plus the code points when any is not
    printable ASCII (so that U+2000 followed by '0' cannot be misread as U+20000)"""
    if all(0x20 <= ord(c) < 0x7F for c in s):
        return ascii(s)
    return ascii(s) + " <" + " ".join("U+%04X" % ord(c) for c in s[:24]) + (" ..." if len(s) > 24 else "") + ">"


def gen_float_bits(rng):
    r = rng.below(10)
    if r < 4:
        return fbits(rng.choice(FLOAT_EDGES))
    if r < 5:
        return rng.choice(FLOAT_NONFINITE)
    if r < 7:
        return fbits(float(rng.range(-10 ** 6, 10 ** 6)) * rng.choice([1.0, 0.5, 0.001, 1e10]))
    if r < 8:
        return fbits(float(rng.choice(INT_EDGES)))
    return rng.next() & 0xFFFFFFFFFFFFFFFF


def gen_int(rng):
    r = rng.below(10)
    if r < 4:
        return rng.choice(INT_EDGES)
    if r < 7:
        return rng.range(-1000, 1000)
    v = rng.next() & 0xFFFFFFFFFFFFFFFF
    return v - 2 ** 64 if v >= 2 ** 63 else v


def gen_doc_text(rng, depth=0):
    def val(d):
        r = rng.below(8 if d < 2 else 6)
        if r == 0:
            return rng.range(-50, 50)
        if r == 1:
            return rng.choice(["a", "", "x y", "é", "q\"", "1", "\U0001F600", "e\u0301", "\u2028", "\U0010FFFF\uFFFF"])
        if r == 2:
            return rng.choice([True, False, None])
        if r == 3:
            return rng.choice([1.5, -0.25, 100.0, 1e20])
        if r == 4:
            return rng.choice([2 ** 63, 2 ** 64 - 1, I64_MIN])
        if r == 5:
            return rng.range(0, 9)
        if r == 6:
            return [val(d + 1) for _ in range(rng.below(3))]
        return {rng.choice(["a", "b", "k", "", "zé", "\U00010000"]): val(d + 1) for _ in range(rng.below(3))}
    v = [val(1) for _ in range(rng.below(3))] if rng.chance(1, 2) else {rng.choice(["a", "b", "c"]): val(1) for _ in range(rng.below(3))}
    sep = rng.choice([(",", ":"), (", ", ": "), (" ,", " : "), (",\n", ":\t")])
    t = json.dumps(v, separators=sep, ensure_ascii=rng.chance(1, 3))
    pad = rng.choice(["", "", " ", "\n", "\t "])
    t = pad + t + rng.choice(["", "", " ", "\r\n"])
    if rng.chance(1, 6):
        t = t[:max(1, len(t) - 1 - rng.below(2))]      # broken
    return t


def gen_str(rng):
    r = rng.below(14)
    if r >= 12:
        return gen_uni_str(rng)
    if r < 6:
        return rng.choice(STR_EDGES)
    if r < 8:
        return gen_doc_text(rng)
    if r < 9:
        return str(gen_int(rng))
    if r < 10:
        return str(rng.range(2 ** 63 - 3, 2 ** 64 + 3))
    if r < 11:
        return rng.choice(["", " ", "\n"]) + str(rng.range(2 ** 63, 2 ** 64 - 1)) + rng.choice(["", " ", "\t", "\r\n", "x"])
    return "".join(rng.choice("ab 19.e-+é[]{}\",:") for _ in range(rng.range(1, 6)))


def gen_cell(rng, kind=None):
    k = kind if kind is not None else rng.below(8)
    if k == 0:
        return tok_null()
    if k == 1:
        return tok_bool(rng.chance(1, 2))
    if k == 2:
        return tok_int(gen_int(rng))
    if k == 3:
        return tok_float(gen_float_bits(rng))
    if k == 4:
        return tok_ts(gen_int(rng))
    if k in (5, 6):
        return tok_str(gen_str(rng))
    return tok_bin([rng.below(256) for _ in range(rng.below(7))])


def matching_kind(rng, tname):
    # aim at the declared type; when the two tables type the name differently, aim at either
    a = atype(tname) if rng.chance(1, 2) else atype_batch(tname)
    if rng.chance(1, 6):
        return 0
    return {"Int64": rng.choice([2, 4]), "TimestampMs": rng.choice([4, 2]), "Float64": 3, "Boolean": 1,
            "LargeUtf8": rng.choice([5, 5, 7])}[a]


def cols_tok(cols):
    return ",".join(f"{hx(n)}:{hx(t)}" for n, t in cols)


def gen_schema(rng, with_id):
    n = rng.range(1, 4)
    names = ["a", "b", "c", "v", "ts", "ké", "event_type", "context_id", "timestamp", "count", "x y", "event_id2", "Event_id"]
    cols = []
    used = set()
    for _ in range(n):
        nm = rng.choice(names) if rng.chance(5, 6) else rng.choice(UNI_NAMES)
        while nm in used:
            nm = nm + "_"
        used.add(nm)
        cols.append((nm, rng.choice(CORE_NAMES) if rng.chance(3, 4) else rng.choice(TYPE_NAMES)))
    if with_id:
        pos = rng.below(len(cols) + 1)
        cols.insert(pos, ("event_id", rng.choice(["Integer", "Number", "Integer", "String", "UInt64", "Float"])))
    return cols


def gen_id_cell(rng, pool):
    r = rng.below(14)
    if r < 8:
        return tok_int(rng.choice(pool))
    if r < 9:
        return tok_ts(rng.choice(pool))
    if r < 10:
        return tok_str(rng.choice(["", "+"]) + str(rng.choice(pool)))       # "+5" parses as u64 5
    if r < 11:
        return tok_int(-rng.choice(pool) - 1)                               # negative: no id
    if r < 12:
        return tok_null()
    if r < 13:
        return tok_str(rng.choice(["x", "", "-0", "1.0", " 1", "00" + str(rng.choice(pool)), "18446744073709551615", "18446744073709551616"]))
    return tok_float(fbits(float(rng.choice(pool))))


def gen_run(rng, tier_big):
    with_id = rng.chance(2, 3)
    cols = gen_schema(rng, with_id)
    nb = rng.choice([0, 1, 1, 2, 3, 4])
    pool = [rng.range(0, 6) for _ in range(4)] + [2 ** 63 - 1, 0]
    mismatch = rng.chance(1, 3)
    batches = []
    total = 0
    for _ in range(nb):
        nr = rng.choice([0, 1, 2, 3, 5]) if not tier_big else rng.choice([0, 1, 4, 9])
        rows = []
        for _ in range(nr):
            row = []
            for nm, ty in cols:
                if nm == "event_id":
                    row.append(gen_id_cell(rng, pool))
                elif mismatch and rng.chance(1, 3):
                    row.append(gen_cell(rng))
                else:
                    row.append(gen_cell(rng, matching_kind(rng, ty)))
            rows.append(",".join(row))
        total += nr
        batches.append(";".join(rows) if rows else "E")
    lim = rng.choice(["-", "-", "0", "1", "2", str(rng.range(0, total + 2)), str(total), "4294967295"])
    off = rng.choice(["-", "-", "0", "1", str(rng.range(0, total + 2)), "4294967295"])
    bs = rng.choice(["0", "1", "3", "1000"])
    kind = "q" if rng.chance(3, 5) else "s" + str(rng.choice([0, 0, 1, 2, 5])) + rng.choice(["n", "n", "w"])
    line = f"render_run {kind} {bs} {lim} {off} {cols_tok(cols)} {'/'.join(batches) if batches else '-'}"
    return {"kind": "run_" + ("query" if kind == "q" else "show") + ("_mixed" if mismatch else ""), "line": line}


def gen_enc(rng, typed):
    ncol = rng.range(1, 3)
    cols = [(f"c{i}", rng.choice(CORE_NAMES) if rng.chance(4, 5) else rng.choice(TYPE_NAMES)) for i in range(ncol)]
    if rng.chance(1, 4):
        cols = [(rng.choice(UNI_NAMES) + (str(i) if i else ""), t) for i, (_, t) in enumerate(cols)]
    nr = rng.range(1, 5)
    rows = []
    for _ in range(nr):
        rows.append(",".join(gen_cell(rng, matching_kind(rng, ty)) if typed else gen_cell(rng) for _, ty in cols))
    if rng.chance(1, 2):
        sel = "W"
    else:
        ix = [i for i in range(nr) if rng.chance(2, 3)] or [rng.below(nr)]
        sel = ",".join(map(str, ix))
    return {"kind": "enc_typed" if typed else "enc_mixed", "line": f"render_enc {sel} {cols_tok(cols)} {';'.join(rows)}"}


MSG_WORDS = ["Event type not found", "status", "Invalid status value", "x", "", "ok", "abcdef", "abcdefg", "No such schema: orders",
             "q\"uote", "line\nbreak", "tab\there", "ééé", "back\\slash", "\x01ctl", "{\"status\":200}", "200 OK", "a status",
             "no such type \U0001F600", "\U00010000\U0010FFFF", "e\u0301 \u2028 \uFFFF"]


def gen_err(rng):
    st = rng.below(7)
    r = rng.below(8)
    if r < 4:
        msg = rng.choice(MSG_WORDS)
    elif r < 6:
        msg = rng.choice(["e", "é", "ab ", "\""]) * rng.choice([1, 5, 6, 7, 8, 20, 40, 100, 430, 440, 445, 446, 447, 448, 449, 450, 455, 460, 470, 600])
    elif r < 7:
        msg = "m" * rng.range(0, 30) + rng.choice(["status", "statu", "Status"]) + "z" * rng.range(0, 480)
    else:
        msg = "".join(rng.choice("ab \"\\\nés") for _ in range(rng.range(0, 60)))
    return {"kind": "err", "line": f"render_err {st} {hx(msg)}", "show": f"status#{st} message {msg[:60]!r} ({len(msg.encode())} bytes)"}


def uni_cases(rng, quick):
    """strings and column names at the edges of the encodings (see UNI_EDGES), through the encoders called directly
    (schema frame, batch frame, row frames whose keys are the column names, Arrow field names and LargeUtf8 cells) and
    through both response writers (batch frames and, with streaming_batch_size 0, whatever the writer emits then)"""
    out = []

    def show(cols, cells):
        return "column names " + ", ".join(show_text(n) for n, _ in cols) + "; string cells " + ", ".join(show_text(x) for x in cells)
    for sv in UNI_EDGES:
        for ty in ("String", "JSON", rng.choice(["Integer", "Float", "Boolean", "Timestamp"])):
            cols = [("c", ty)]
            out.append({"kind": "uni_cell", "line": f"render_enc {rng.choice(['W', '0'])} {cols_tok(cols)} {tok_str(sv)}", "show": show(cols, [sv])})
        cols = [("v", "String")]
        out.append({"kind": "uni_cell_run", "show": show(cols, [sv]),
                    "line": f"render_run {rng.choice(['q', 's0n', 's1w'])} {rng.choice(['0', '1', '3', '1000'])} - - {cols_tok(cols)} {tok_str(sv)};{tok_str('plain')}"})
    for nm in UNI_NAMES:
        other = rng.choice([x for x in UNI_NAMES if x != nm])
        cols = [(nm, "String"), (other, rng.choice(["Integer", "String"]))]
        cells = [gen_uni_str(rng) for _ in range(2)]
        rows = ";".join(f"{tok_str(c)},{gen_cell(rng, matching_kind(rng, cols[1][1]))}" for c in cells)
        out.append({"kind": "uni_name", "line": f"render_enc {rng.choice(['W', '0,1', '1'])} {cols_tok(cols)} {rows}", "show": show(cols, cells)})
        for kind in ("q", rng.choice(["s0n", "s2n", "s0w"])):
            out.append({"kind": "uni_name_run", "show": show(cols, cells),
                        "line": f"render_run {kind} {rng.choice(['0', '1', '3', '1000'])} {rng.choice(['-', '-', '1', '5'])} {rng.choice(['-', '-', '1'])} {cols_tok(cols)} {rows}"})
    for _ in range(150 if quick else 6000):
        n = rng.range(1, 3)
        names = []
        while len(names) < n:
            nm = rng.choice(UNI_NAMES) if rng.chance(1, 2) else "".join(chr(gen_cp(rng)) for _ in range(rng.range(1, 4)))
            if nm not in names and nm != "event_id":
                names.append(nm)
        cols = [(nm, rng.choice(["String", "String", "JSON", "Object", "Array"] + CORE_NAMES[:3])) for nm in names]
        cells, rows = [], []
        for _ in range(rng.range(1, 4)):
            row = []
            for _nm, ty in cols:
                if atype(ty) == "LargeUtf8" or rng.chance(1, 5):
                    sv = gen_uni_str(rng)
                    cells.append(sv)
                    row.append(tok_str(sv))
                else:
                    row.append(gen_cell(rng, matching_kind(rng, ty)))
            rows.append(",".join(row))
        if rng.chance(1, 2):
            nr = len(rows)
            sel = "W" if rng.chance(1, 2) else ",".join(str(i) for i in range(nr) if rng.chance(2, 3)) or "0"
            line = f"render_enc {sel} {cols_tok(cols)} {';'.join(rows)}"
        else:
            k = rng.below(len(rows) + 1)
            body = ";".join(rows[:k]) + "/" + ";".join(rows[k:]) if 0 < k < len(rows) else ";".join(rows)
            line = (f"render_run {rng.choice(['q', 'q', 's0n', 's1n', 's0w'])} {rng.choice(['0', '1', '3', '1000'])} "
                    f"{rng.choice(['-', '-', '1', '2'])} {rng.choice(['-', '-', '1'])} {cols_tok(cols)} {body}")
        out.append({"kind": "uni_random", "line": line, "show": show(cols, cells)})
    return out


def cases(rng, tier):
    quick = tier == "quick"
    out = []
    # every (column type, cell kind) combination, both Arrow paths
    for ty in CORE_NAMES:
        for kind in range(8):
            for _ in range(3 if quick else 40):
                cell = gen_cell(rng, kind)
                other = gen_cell(rng, matching_kind(rng, ty))
                out.append({"kind": "cell_whole", "line": f"render_enc W {cols_tok([('c', ty)])} {cell};{other}"})
                out.append({"kind": "cell_row", "line": f"render_enc 0 {cols_tok([('c', ty)])} {cell};{other}"})
    # every logical type name through the real writer: the whole batch emitted (to_record_batch, batch.rs table) and a
    # partial emission (LIMIT / OFFSET / a duplicate event id -> row indices, arrow.rs table), with cells of the matching kind
    for ty in TYPE_NAMES:
        for rep in range(1 if quick else 6):
            rows = [gen_cell(rng, matching_kind(rng, ty)) for _ in range(3)]
            body = ";".join(rows)
            ct = cols_tok([("v", ty)])
            bs = rng.choice(["0", "1000"])
            out.append({"kind": "type_whole", "line": f"render_run q {bs} - - {ct} {body}"})
            out.append({"kind": "type_partial", "line": f"render_run q {bs} 2 - {ct} {body}"})
            out.append({"kind": "type_partial", "line": f"render_run {rng.choice(['q', 's0n'])} {bs} 5 1 {ct} {body}"})
            ids = ";".join(f"{tok_int(i)},{c}" for i, c in zip([1, 1, 2], rows))
            out.append({"kind": "type_partial", "line": f"render_run q {bs} - - {cols_tok([('event_id', 'Integer'), ('v', ty)])} {ids}"})
    for s in STR_EDGES:
        for ty in ("String", "Integer", "Float", "Boolean", "Timestamp", "JSON"):
            out.append({"kind": "cell_str", "line": f"render_enc {rng.choice(['W', '0'])} {cols_tok([('c', ty)])} {tok_str(s)}"})
    out += uni_cases(rng, quick)
    for b in [fbits(x) for x in FLOAT_EDGES] + FLOAT_NONFINITE:
        for ty in ("Float", "String", "Integer"):
            out.append({"kind": "cell_float", "line": f"render_enc {rng.choice(['W', '0'])} {cols_tok([('c', ty)])} {tok_float(b)}"})
    for z in INT_EDGES:
        out.append({"kind": "cell_int", "line": f"render_enc 0 {cols_tok([('c', 'Float')])} {tok_int(z)}"})
        out.append({"kind": "cell_int", "line": f"render_enc W {cols_tok([('c', rng.choice(['Integer', 'Timestamp', 'String', 'Boolean']))])} {tok_int(z)}"})
    for _ in range(300 if quick else 20000):
        out.append(gen_enc(rng, rng.chance(1, 2)))
    for _ in range(1500 if quick else 60000):
        out.append(gen_run(rng, (not quick) and rng.chance(1, 4)))
    for _ in range(300 if quick else 10000):
        out.append(gen_err(rng))
    return out


# ------------------------------------------------------------------ decoding the implementation's bytes (independent readers)
def _pairs(p):
    return ("OBJ", p)


def _undoc(v):
    """pairs-hook structure -> plain python (dict keeps the last of duplicate keys, as serde_json's Map)"""
    if isinstance(v, tuple) and len(v) == 2 and v[0] == "OBJ":
        return {k: _undoc(x) for k, x in v[1]}
    if isinstance(v, list):
        return [_undoc(x) for x in v]
    return v


def cell_of_json(v):
    if v is None:
        return "n"
    if v is True:
        return "b1"
    if v is False:
        return "b0"
    if isinstance(v, int):
        return f"i{v}"
    if isinstance(v, float):
        return f"f{fbits(v)}"
    if isinstance(v, str):
        return "s" + hx(v)
    return "d" + hx(canon_doc(_undoc(v)))


def decode_json_stream(h):
    """hex of a JSON / text stream -> canonical frames.

    Both the JSON renderer and the line-oriented text renderer stream one JSON document per line.  Each frame is PARSED
    (CPython json) and only the decoded content is kept: column names and string cells as the hex of the UTF-8 bytes of
    the decoded string, numbers by value.  A renderer is therefore free to write a character raw or as any escape that
    decodes to it (\\u00e9, a surrogate pair, \\/), and an escape that decodes to something else (a 5-digit \\u, half
    a surrogate pair, a dropped or normalised character) shows as a different cell / name.  The model
    (Model/Render.v) works on decoded content as well: its frames carry the cell's bytes, not a JSON spelling, so
    the correspondence compares after decoding on both sides.  A frame that is not UTF-8, not JSON, or decodes to a
    string with an unpaired surrogate (no UTF-8 form, cannot equal any Arrow cell) is a BAD frame."""
    if h.startswith("ERR"):
        return h
    raw = vlib.unhx(h)
    frames = []
    for ln in raw.split(b"\n"):
        if not ln:
            continue
        try:
            tag, obj = json.loads(ln.decode("utf-8"), object_pairs_hook=_pairs)
            d = dict(obj)
            ty = d.get("type")
            if ty == "schema":
                fr = "S" + ",".join(f"{hx(dict(c[1])['name'])}:{hx(dict(c[1])['logical_type'])}" for c in d["columns"])
            elif ty == "batch":
                fr = "B" + ";".join(",".join(cell_of_json(c) for c in r) for r in d["rows"])
            elif ty == "row":
                fr = "R" + ",".join(f"{hx(k)}={cell_of_json(v)}" for k, v in d["values"][1])
            elif ty == "end":
                fr = f"E{int(d['row_count'])}"
            else:
                fr = "BAD:" + ln[:40].hex()
        except Exception:       # not UTF-8 / not JSON / not the frame shape / unpaired surrogate (hx cannot encode it)
            fr = "BAD:" + ln[:40].hex()
        frames.append(fr)
    return "|".join(frames)


def decode_arrow(a):
    if a.startswith("ERR"):
        return a
    parts = a.split("|")
    return "|".join(["S" + parts[0]] + ["B" + ("" if p == "E" else p) for p in parts[1:]])


def decode_err_body(enc, h):
    raw = vlib.unhx(h)
    try:
        if enc == "u":
            line = raw.decode("utf-8")
            num = ""
            for ch in line:
                if ch.isdigit() and ch.isascii():
                    num += ch
                else:
                    break
            return num or "-"
        d = json.loads(raw.decode("utf-8"))
        return str(d.get("status", "-"))
    except Exception:
        return "BAD"


def canon_impl(line, raw):
    if raw in ("PANIC", "ABORT", "BADCFG", "UNKNOWN_PROBE") or raw is None:
        return raw
    t = dict(p.split(":", 1) for p in raw.split(" "))
    if line.startswith("render_err"):
        outs = []
        for enc, key in (("j", "J"), ("u", "U"), ("a", "A")):
            body, http = t[key].rsplit(":", 1)
            outs.append(f"B{body} S{decode_err_body(enc, body)} H{http}")
        return "json{%s} text{%s} arrow{%s}" % tuple(outs)
    return "json{%s} text{%s} arrow{%s}" % (decode_json_stream(t["J"]), decode_json_stream(t["U"]), decode_arrow(t["A"]))


# ------------------------------------------------------------------ running both sides (one harness process group per batch size)
def bs_of(line):
    p = line.split()
    return p[2] if p[0] == "render_run" else "1000"


def run_sides(cases_, model_ok):
    lines = [c["line"] for c in cases_]
    impl = [None] * len(lines)
    tmp = os.path.join(vlib.WORK, f"render-{os.getpid()}")
    os.makedirs(tmp, exist_ok=True)
    try:
        for bs in sorted(set(bs_of(l) for l in lines)):
            idx = [i for i, l in enumerate(lines) if bs_of(l) == bs]
            res = vlib.run_lines(vlib.VHARN, ["fn"], [lines[i] for i in idx], timeout=900, env={"RENDER_BS": bs, "TMPDIR": tmp})
            for i, r in zip(idx, res):
                try:
                    impl[i] = canon_impl(lines[i], r)
                except Exception as e:          # undecodable output is an observation, not a crash of the check
                    impl[i] = f"UNDECODABLE {type(e).__name__} {str(r)[:200]}"
    finally:
        import shutil
        shutil.rmtree(tmp, ignore_errors=True)
    model = vlib.run_lines(vlib.MODEL_RUN, [], lines, timeout=900) if model_ok else [None] * len(lines)
    return impl, model


def same(c, impl, model):
    return model is not None and impl == model.split(" #K:")[0]


# ------------------------------------------------------------------ direct property oracle (independent of the model)
def parse_section(impl, name):
    i = impl.index(name + "{") + len(name) + 1
    j = impl.index("}", i)
    return impl[i:j]


def f64_exact_int(bits):
    x = bits_f(bits)
    if math.isnan(x) or math.isinf(x) or x != math.floor(x):
        return None
    return int(x)


def cells_agree(a, b):
    """numbers numerically equal, nulls as nulls, strings byte-identical"""
    ka, kb = a[0], b[0]
    if ka == "n" or kb == "n":
        return a == b
    if ka == "b" or kb == "b" or ka == "s" or kb == "s" or ka == "d" or kb == "d":
        return a == b
    if ka == "i" and kb == "i":
        return int(a[1:]) == int(b[1:])
    if ka == "f" and kb == "f":
        x, y = bits_f(int(a[1:])), bits_f(int(b[1:]))
        return x == y
    if ka == "i":
        a, b = b, a
    return f64_exact_int(int(a[1:])) == int(b[1:])


def json_rows(sec):
    """(names, batch-frame rows, row-frame rows, announced) of a decoded JSON/text stream"""
    names, brow, rrow, end = None, [], [], None
    for f in sec.split("|"):
        if f.startswith("S"):
            names = [c.split(":")[0] for c in f[1:].split(",")]
        elif f.startswith("B") and not f.startswith("BAD"):
            brow += [r.split(",") for r in f[1:].split(";")] if f[1:] else []
        elif f.startswith("R"):
            rrow.append([kv.split("=", 1) for kv in f[1:].split(",")])
        elif f.startswith("E"):
            end = int(f[1:])
        else:
            return None
    return names, brow, rrow, end


def arrow_rows(sec):
    names, rows = None, []
    for f in sec.split("|"):
        if f.startswith("S"):
            names = [c.split(":")[0] for c in f[1:].split(",")]
        elif f.startswith("B"):
            rows += [r.split(",") for r in f[1:].split(";")] if f[1:] else []
        else:
            return None
    return names, rows


def failing(c, impl):
    """list of (row, col, description); row/col None for structural failures"""
    if impl in ("PANIC", "ABORT") or impl is None or impl.startswith("UNDECODABLE"):
        return [(None, None, f"implementation {impl}")]
    if impl in ("BADCFG", "UNKNOWN_PROBE"):
        return [(None, None, f"harness: {impl}")]
    line = c["line"]
    js, ts, ars = parse_section(impl, "json"), parse_section(impl, "text"), parse_section(impl, "arrow")
    if line.startswith("render_err"):
        f = lambda s: dict((p[0], p[1:]) for p in s.split(" "))
        j, t, a = f(js), f(ts), f(ars)
        out = []
        if not (j["S"] == t["S"] == a["S"]):
            out.append((None, None, f"error body status differs: json {j['S']} text {t['S']} arrow {a['S']}"))
        if not (j["H"] == t["H"] == a["H"]):
            out.append((0, 0, f"HTTP status derived from the error body differs: json {j['H']} text {t['H']} arrow {a['H']} (body status {j['S']})"))
        return out
    if "ERR" in impl:
        J = json_rows(js) if "ERR" not in js else None
        n = (len(J[1]) + len(J[2])) if J else "?"
        which = [nm for nm, sec in (("JSON", js), ("text", ts), ("Arrow", ars)) if "ERR" in sec]
        return [(None, None, f"the {'/'.join(which)} encoding of this result failed ({ars if 'ERR' in ars else js}) while "
                             f"{'the JSON stream carries ' + str(n) + ' row(s)' if 'JSON' not in which else 'another encoding succeeded'}: {impl[:160]}")]
    J, T, A = json_rows(js), json_rows(ts), arrow_rows(ars)
    if J is None or T is None or A is None:
        bad = [nm for nm, v in (("JSON", J), ("text", T), ("Arrow", A)) if v is None]
        return [(None, None, f"undecodable frame in the {'/'.join(bad)} stream (not UTF-8, not JSON, or a string with an unpaired surrogate): {impl[:200]}")]
    out = []
    jn, jb, jr, jend = J
    tn, tb, tr, tend = T
    an, ar = A
    enc = line.startswith("render_enc")

    def names_txt(ns):
        return "[" + ", ".join(show_name(n) for n in ns) + "]" if ns is not None else "no schema frame"
    if jn != an:
        out.append((None, None, f"column names differ: json {names_txt(jn)} arrow {names_txt(an)}"))
    if tn != jn:
        out.append((None, None, f"column names differ: text {names_txt(tn)} json {names_txt(jn)} arrow {names_txt(an)}"))

    def views_of(label, names, b, r, end):
        rr = [[kv[1] for kv in x] for x in r]
        for x in r:
            if [kv[0] for kv in x] != names:
                out.append((None, None, f"{label} row frame keys {names_txt([kv[0] for kv in x])} differ from the schema {names_txt(names)}"))
        if enc:
            if end != len(b):
                out.append((None, None, f"{label}: announced row count {end} but {len(b)} rows"))
            return [(label + " batch frame", b), (label + " row frames", rr)]
        if b and rr:
            out.append((None, None, f"{label}: both batch and row frames in one stream"))
        if end != len(b) + len(rr):
            out.append((None, None, f"{label}: announced row count {end} but {len(b) + len(rr)} rows were emitted"))
        return [(label, b + rr)]
    jviews = views_of("json", jn, jb, jr, jend)
    tviews = views_of("text", tn, tb, tr, tend)
    for nm, rows in jviews:
        if len(rows) != len(ar):
            out.append((None, None, f"{nm} carries {len(rows)} rows, arrow {len(ar)}"))
            continue
        for ri, (x, y) in enumerate(zip(rows, ar)):
            if len(x) != len(y):
                out.append((None, None, f"row {ri}: {len(x)} cells in {nm}, {len(y)} in arrow"))
                continue
            for ci, (p, q) in enumerate(zip(x, y)):
                if not cells_agree(p, q):
                    out.append((ri, ci, f"row {ri} column {ci}: {nm} decodes {show_cell(p)}, arrow decodes {show_cell(q)}"))
    # the text rendering against the JSON frames, cell by cell on the decoded values (and, to name the odd one out,
    # against Arrow).  These entries carry no (row, column) key on purpose: the known classes are disagreements between
    # JSON and Arrow; a text cell that differs from the JSON cell is never one of them.
    for (tnm, trows), (jnm, jrows) in zip(tviews, jviews):
        if len(trows) != len(jrows):
            out.append((None, None, f"{tnm} carries {len(trows)} rows, {jnm} {len(jrows)}"))
            continue
        for ri, (x, y) in enumerate(zip(trows, jrows)):
            if len(x) != len(y):
                out.append((None, None, f"row {ri}: {len(x)} cells in {tnm}, {len(y)} in {jnm}"))
                continue
            for ci, (p, q) in enumerate(zip(x, y)):
                if not cells_agree(p, q):
                    a = ar[ri][ci] if len(ar) == len(jrows) and ci < len(ar[ri]) else None
                    col = show_name(jn[ci]) if jn and ci < len(jn) else "?"
                    out.append((None, None, f"row {ri} column {ci} ({col}): {tnm} decodes {show_cell(p)}, {jnm} decodes {show_cell(q)}"
                                            + (f", arrow decodes {show_cell(a)}" if a is not None else "")))
    if js != ts and not out:
        out.append((None, None, "the JSON stream and the text stream decode differently (frame structure)"))
    return out


def show_name(hexname):
    try:
        return show_text(vlib.unhx(hexname).decode("utf-8"))
    except Exception:
        return "hex:" + hexname


def show_cell(t):
    k = t[0]
    if k == "s":
        return "string " + show_text(vlib.unhx(t[1:]).decode("utf-8", "replace"))
    if k == "d":
        return "document " + vlib.unhx(t[1:]).decode("utf-8", "replace")
    if k == "f":
        return f"float {bits_f(int(t[1:]))!r}"
    if k == "i":
        return "integer " + t[1:]
    return {"n": "null", "b1": "true", "b0": "false"}.get(t, t)


def oracle(c, impl):
    f = failing(c, impl)
    if not f:
        return None
    return "; ".join(x[2] for x in f[:3]) + (f" (+{len(f) - 3} more)" if len(f) > 3 else "")


def classify(c, impl, model=None):
    f = failing(c, impl)
    if not f or model is None or " #K:" not in model:
        return None
    k = model.split(" #K:")[1]
    if c["line"].startswith("render_err"):
        cls = set()
        for r, _, _ in f:
            if r is None:
                return None
            cls.add(k if k != "-" else None)
        return None if None in cls else next(iter(cls))
    mat = [r.split(",") for r in k.split(";")] if k else []
    found = []
    for r, ci, _ in f:
        if r is None or r >= len(mat) or ci >= len(mat[r]) or mat[r][ci] == "-":
            return None
        found.append(mat[r][ci])
    return found[0]


def nontrivial_key(c, impl):
    if not impl or impl in ("PANIC", "ABORT", "BADCFG"):
        return None
    if c["line"].startswith("render_err"):
        return ("err", impl)
    try:
        a = arrow_rows(parse_section(impl, "arrow"))
    except ValueError:
        return None
    if a and a[1]:
        return (c.get("kind"), impl)
    return None
