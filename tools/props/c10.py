import re, json
"""C10 — ORDER BY / LIMIT / OFFSET return the right slice in the right order (function-level core)."""
import math
from vlib import hx
import vlib
from props import base
from props import ordlib as L

PROP = "C10"
PROPS_V = "theories/Props/C10.v"
THEOREMS = ["C10_kmerge_sorted_perm", "C10_topk_of_parts", "C10_cmp_total_on_kind", "C10_cmp_total_refuted",
            "C10_cmp_total_outside_known", "C10_ordered_query_slice", "C10_ordered_query_full",
            "C10_unordered_limit", "C10_offset_requires_limit"]
RULE = ("(1) value triples of every runtime kind (Null, Boolean, Int64, Float64, Timestamp, Utf8 incl. numeric-/bool-looking, "
        "Binary), pure per column kind and mixed, compared by the real ScalarValue::compare in all six orders; "
        "(2) single values through as_u64/as_i64/as_f64/as_bool/to_string_repr (Rust's parse::<u64|i64|f64> vs the byte-level model); "
        "(3) 1..6 generated streams (sorted in the typed order, or unsorted as the malformed stream), asc/desc, offset, limit, "
        "batch size, through the real flow-level OrderedStreamMerger; (4) two-level runs: per shard a merge with limit n+m, "
        "then a coordinator merge with offset m / limit n fed with the implementation's own shard outputs. "
        "A case is non-trivial when it exercises a comparison or emits a row; distinct by (probe, kind, canonical result)")
ASSUMPTIONS = [
    "f64::to_string() is an input of the model (checked against the real formatting on every case: BADREPR otherwise); ryu-style shortest printing is not modelled",
    "Rust's dec2flt is modelled as correct rounding of the exact decimal value; strings longer than 64 KiB (exponent accumulator saturation) are not generated",
    "BinaryHeap is modelled as 'pop the greatest item'; with a non-transitive comparator and 3+ streams the pop order depends on the heap layout, so those cases compare the emitted row set only (probe ord_mergeset)",
    "QueryResponseWriter and the handler's OFFSET-without-LIMIT rule have no function-level probe (QueryBatchStream::new is pub(crate); the handler needs a ShardManager): theorem + translator tripwire only, engine-level probes are the maintainer's",
    "the per-flow sort_unstable_by + truncate inside MemTableSource / SegmentQueryRunner is private; it is covered by the model (flow_sort) and by feeding the merger with streams sorted by an independent reference",
]
TRUSTED = [
    "Coq 8.16.1 kernel + coqc; vm_compute for closed witnesses; no native_compute",
    "translator tools/params/p60_order.py (OFFSET-without-LIMIT rule, where limit/offset are applied, HeapItem::cmp shape)",
    "extraction: ExtrOcamlBasic only; ocaml/driver.ml, conv.ml, p_order.ml (parsing/printing)",
    "correspondence harness /verif/harness (vharn fn ord_cmp/ord_acc/ord_merge/ord_mergeset) built against /repo with --cfg sneldb_verif",
    "python oracle tools/props/ordlib.py: typed reference order (exact rationals for floats), CPython float()/repr() for decimal<->double",
]

CLAIMED = True
MANIFEST = {
 "level_text": "Theorems (unbounded): the heap-driven k-way merge of sorted streams is a sorted permutation; per-part sort + truncate to n+m, merge, slice m..m+n equals (key-wise, up to ties) the slice of the sorted whole for every total preorder, partition, n, m; the two-level pipeline (flows -> shard merge with limit n+m -> coordinator offset m/limit n) returns rows m..m+n of the sorted selection on columns of one kind; ScalarValue::compare is the typed total order on each column kind and is refuted as a total preorder in general (\"9\" < \"10\" < \"1a\" < \"9\") with the strongest statement outside the known classes; unordered LIMIT/OFFSET emits min(n, distinct-m) distinct rows; OFFSET without LIMIT is rejected. The model's compare/accessors and merger are run against the real ScalarValue and OrderedStreamMerger.",
 "design_ref": "DESIGN.md §6 C10",
 "level_note": "Function-level core only (engine-level probes over shards x tiers are added separately). Trusted: Coq kernel; tools/params/p60_order.py; ExtrOcamlBasic extraction + OCaml driver; the Rust harness; Python reference order. f64 Display is an input checked per case; BinaryHeap modelled as pop-the-greatest; RLTE zone pre-selection, QueryResponseWriter and the handler rule are not probed at function level."
}


def corpus():
    return base.corpus_for(PROP)


# ------------------------------------------------------------------ generators
INT_EDGES = [0, 1, -1, 2, 9, 10, 99, 100, -10, 2 ** 31, 2 ** 53 - 1, 2 ** 53, 2 ** 53 + 1, -(2 ** 53) - 1, 2 ** 62,
             L.I64_MAX, L.I64_MAX - 1, L.I64_MIN, L.I64_MIN + 1]
FLOAT_EDGES = [0.0, -0.0, 1.0, -1.0, 0.5, 1.5, 2.5, 1e21, 1e22, 1e-7, 5e-324, -5e-324, 2.2250738585072014e-308, 1.7976931348623157e308,
               float("inf"), float("-inf"), 9007199254740992.0, 9007199254740994.0, 0.1, 0.2, 0.30000000000000004, 123456.789, 1e15, 1e16, 1e17]
NUMSTR = [b"0", b"1", b"9", b"10", b"007", b"+5", b"-0", b"-7", b"1.5", b".5", b"5.", b"1e3", b"1E-2", b"inf", b"-Infinity", b"nan", b"NaN",
          b"true", b"TRUE", b"False", b"18446744073709551615", b"18446744073709551616", b"9223372036854775807", b"9223372036854775808",
          b"-9223372036854775808", b"-9223372036854775809", b"00", b"1e400", b"1e-400", b"0.1", b"100", b"99", b"9.0", b"1a", b"a1", b"",
          b"9007199254740993", b"1_0", b" 1", b"1 ", b"+", b"-", b".", b"e5", b"1e", b"1e+", b"0x10", b"+.5e-3", b"123456789012345678901234567890",
          b"4.9e-324", b"2.4703282292062327e-324", b"2.4703282292062328e-324", b"1.7976931348623158e308", b"1.7976931348623159e308", b"infinit"]
WORDS = [b"a", b"b", b"ab", b"abc", b"B", b"Z", b"z", b"", b"zz", "é".encode(), "ß".encode(), "日本".encode(), b"x1", b"1x", b"-", b"_", b" ", b"tru", b"nul", b"in"]


def g_int(rng):
    r = rng.below(5)
    if r == 0:
        return ("i", rng.choice(INT_EDGES))
    if r == 1:
        return ("i", rng.range(-20, 20))
    if r == 2:
        return ("t", rng.range(0, 2 * 10 ** 9))
    if r == 3:
        return ("i", rng.range(L.I64_MIN, L.I64_MAX))
    return ("i", rng.choice([1, -1]) * (2 ** rng.range(0, 62)) + rng.range(-2, 2))


def g_u64(rng):
    r = rng.below(4)
    if r == 0:
        return ("i", rng.range(0, 50))
    if r == 1:
        return ("i", rng.choice([0, L.I64_MAX, L.I64_MAX - 1, 2 ** 53 + 1]))
    if r == 2:
        return ("s", str(rng.choice([L.I64_MAX + 1, L.U64_MAX, L.U64_MAX - 1, 10 ** 19, 10 ** 19 - 1, rng.range(L.I64_MAX + 1, L.U64_MAX)])).encode())
    return ("i", rng.range(0, L.I64_MAX))


def g_float(rng, nan=False):
    r = rng.below(5)
    if r == 0:
        f = rng.choice(FLOAT_EDGES)
        return ("f", L.bits_from_f64(f))
    if r == 1:
        return ("f", L.bits_from_f64(rng.range(-1000, 1000) / rng.choice([1, 2, 4, 8, 10, 100])))
    if r == 2:
        b = rng.below(2 ** 64)
        if math.isnan(L.f64_from_bits(b)) and not nan:
            b &= ~(1 << 62)
        return ("f", b)
    if r == 3:
        return ("f", L.bits_from_f64(float(rng.range(-2 ** 54, 2 ** 54))))
    return ("f", L.bits_from_f64(rng.range(-10 ** 6, 10 ** 6) * 10.0 ** rng.range(-30, 30)))


def g_plain(rng):
    for _ in range(20):
        if rng.chance(1, 2):
            s = rng.choice(WORDS)
        else:
            s = bytes(rng.choice(b"abcxyzABZ _-09.") for _ in range(rng.range(0, 5)))
        if L.plain_string(s) or s == b"":
            if s == b"" or L.plain_string(s):
                return ("s", s)
    return ("s", b"q")


def g_numstr(rng):
    r = rng.below(4)
    if r == 0:
        return ("s", rng.choice(NUMSTR))
    if r == 1:
        return ("s", str(rng.range(-30, 30)).encode())
    if r == 2:
        return ("s", (rng.choice(["", "+", "-"]) + str(rng.range(0, 10 ** rng.range(1, 21))) + rng.choice(["", "", ".0", "e0", ".5"])).encode())
    return ("s", bytes(rng.choice(b"0123456789+-.eEaxinfINFt ") for _ in range(rng.range(0, 6))))


def g_any(rng):
    r = rng.below(10)
    if r == 0:
        return ("n",)
    if r == 1:
        return ("b", rng.chance(1, 2))
    if r == 2:
        return g_int(rng)
    if r == 3:
        return g_float(rng, nan=True)
    if r == 4:
        return ("t", rng.range(-5, 2 * 10 ** 9))
    if r == 5:
        return g_plain(rng)
    if r in (6, 7):
        return g_numstr(rng)
    if r == 8:
        return ("x", bytes(rng.below(256) for _ in range(rng.range(0, 5))))
    return g_u64(rng)


KIND_GEN = {"KInt": g_int, "KU64": g_u64, "KFloat": g_float, "KBool": lambda rng: ("b", rng.chance(1, 2)), "KStr": g_plain,
            "KNum": lambda rng: g_float(rng) if rng.chance(1, 2) else ("i", rng.range(-2 ** 53, 2 ** 53) if rng.chance(1, 3) else rng.range(-50, 50)),
            "STR": lambda rng: g_numstr(rng) if rng.chance(1, 2) else g_plain(rng),
            "NUMX": lambda rng: g_float(rng) if rng.chance(1, 2) else ("i", rng.choice([2 ** 53 + 1, 2 ** 53, -(2 ** 53) - 1, 2 ** 62 + 1, L.I64_MAX, rng.range(-5, 5)])),
            "ANY": g_any}


def g_col(rng, kind, n, nulls=True, dups=True):
    out = []
    for _ in range(n):
        if nulls and rng.chance(1, 8):
            out.append(("n",))
        elif dups and out and rng.chance(1, 5):
            out.append(rng.choice(out))
        else:
            out.append(KIND_GEN[kind](rng))
    return out


def enc_streams(streams):
    if not streams:
        return "-"
    return "/".join(",".join(L.tok(v) for v in s) if s else "e" for s in streams)


def ref_sort(vals, asc):
    """reference: stable sort under the typed order of the column's family; None when there is no such order"""
    fam = L.column_family(vals)
    if fam is None:
        return None, None
    try:
        keys = [L.ref_key(fam, v) for v in vals]
    except (ValueError, OverflowError):
        return None, None
    order = sorted(range(len(vals)), key=lambda i: keys[i], reverse=not asc)
    return order, keys


def merge_case(rng, kind, tier, nstreams=None, sorted_streams=True, two_level=False):
    k = nstreams if nstreams is not None else rng.choice([1, 2, 2, 3, 3, 4, 6])
    streams = [g_col(rng, kind, rng.choice([0, 1, 2, 3, 5, 8, 13])) for _ in range(k)]
    asc = rng.chance(1, 2)
    flat = [v for s in streams for v in s]
    fam = L.column_family(flat)
    if sorted_streams and fam is not None:
        try:
            streams = [sorted(s, key=lambda v: L.ref_key(fam, v), reverse=not asc) for s in streams]
        except (ValueError, OverflowError):
            pass
    total = len(flat)
    offset = rng.choice([0, 0, 0, 1, 2, total, total + 3, rng.range(0, max(1, total))])
    limit = rng.choice([None, None, 0, 1, 2, 3, total, total + 5, rng.range(0, max(1, total))])
    batch = rng.choice([1, 2, 3, 4, 7, 1024])
    return streams, asc, offset, limit, batch


def cases(rng, tier):
    q = tier == "quick"
    out = []

    def add(kind, line, **kw):
        d = {"kind": kind, "line": line}
        d.update(kw)
        out.append(d)

    # (1) compare triples
    for kind, n in (("KInt", 250), ("KU64", 200), ("KFloat", 250), ("KNum", 300), ("KBool", 40), ("KStr", 250),
                    ("STR", 500), ("NUMX", 200), ("ANY", 900)):
        for _ in range(n if q else n * 60):
            vs = g_col(rng, kind, 3, nulls=True, dups=True)
            add("cmp_" + kind, "ord_cmp " + " ".join(L.tok(v) for v in vs), show=" , ".join(L.show(v) for v in vs))
    # (2) accessors
    for _ in range(900 if q else 60000):
        v = rng.choice([g_numstr, g_numstr, g_any])(rng)
        add("acc", "ord_acc " + L.tok(v), show=L.show(v))
    for s in NUMSTR:
        add("acc", "ord_acc " + L.tok(("s", s)), show=L.show(("s", s)))
    # (3) merges
    for kind, n, srt in (("KInt", 300, True), ("KU64", 150, True), ("KFloat", 250, True), ("KNum", 300, True), ("KBool", 60, True),
                         ("KStr", 300, True), ("KInt", 120, False), ("KStr", 120, False), ("STR", 300, True), ("NUMX", 150, True), ("ANY", 200, False)):
        for _ in range(n if q else n * 35):
            streams, asc, offset, limit, batch = merge_case(rng, kind, tier, sorted_streams=srt)
            flat = [v for s in streams for v in s]
            exact = L.classify_column(flat) is None or len(streams) <= 2
            probe = "ord_merge" if exact else "ord_mergeset"
            add(("merge_" if exact else "mergeset_") + kind + ("" if srt else "_unsorted"),
                f"{probe} {1 if asc else 0} {offset} {'-' if limit is None else limit} {batch} {enc_streams(streams)}",
                sorted=srt, show=f"asc={asc} off={offset} lim={limit} " + " | ".join(",".join(L.show(v) for v in s) for s in streams))
    # (4) two-level: shards x flows
    for kind, n in (("KInt", 120), ("KNum", 120), ("KStr", 120), ("KFloat", 60), ("KU64", 40)):
        for _ in range(n if q else n * 30):
            nsh = rng.choice([1, 2, 3])
            shards = [[g_col(rng, kind, rng.choice([0, 1, 2, 4, 7])) for _ in range(rng.choice([1, 2, 3]))] for _ in range(nsh)]
            asc = rng.chance(1, 2)
            flat = [v for sh in shards for fl in sh for v in fl]
            fam = L.column_family(flat)
            total = len(flat)
            m = rng.choice([0, 0, 1, 2, total, rng.range(0, max(1, total))])
            n_ = rng.choice([0, 1, 2, 3, total, total + 2, rng.range(0, max(1, total))])
            use_off = rng.chance(2, 3)
            add("two_level_" + kind, None, shards=[[[L.tok(v) for v in fl] for fl in sh] for sh in shards], asc=asc, offset=(m if use_off else None), limit=n_, fam=fam,
                batch=rng.choice([1, 2, 1024]), show=f"asc={asc} off={m if use_off else None} lim={n_} shards=" + " || ".join(" | ".join(",".join(L.show(v) for v in fl) for fl in sh) for sh in shards))
    return out


# ------------------------------------------------------------------ running (two-level cases need two passes)
def _parse_ids(res):
    if res is None or not res.startswith("R"):
        return None
    body = res[1:].strip()
    return [int(x) for x in body.split(",")] if body else []


def _two_level(cases_, binary, args):
    """stage 1: one merge per shard (flows sorted by the reference order, limit n+m, offset 0);
    stage 2: coordinator merge of the shard outputs the same binary produced."""
    idx = [i for i, c in enumerate(cases_) if c["line"] is None or c.get("two_level")]
    lines, owner = [], []
    flat_by_case = {}
    for i in idx:
        c = cases_[i]
        c["two_level"] = True
        fam = c["fam"]
        eff = "-" if c["limit"] is None else c["limit"] + (c["offset"] or 0)
        for sh in c["shards"]:
            flows = [sorted([_untok(t) for t in fl], key=lambda v: L.ref_key(fam, v), reverse=not c["asc"]) for fl in sh]
            lines.append(f"ord_merge {1 if c['asc'] else 0} 0 {eff} {c['batch']} {enc_streams(flows)}")
            owner.append((i, flows))
    res1 = vlib.run_lines(binary, args, lines) if lines else []
    per = {}
    for (i, flows), r in zip(owner, res1):
        per.setdefault(i, []).append((flows, _parse_ids(r)))
    lines2, order = [], []
    for i in idx:
        c = cases_[i]
        streams = []
        bad = False
        for flows, ids in per.get(i, []):
            flat = [v for fl in flows for v in fl]
            if ids is None:
                bad = True
                break
            streams.append([flat[j] for j in ids])
        if bad:
            lines2.append("ord_merge 1 0 - 1 BAD")
        else:
            lines2.append(f"ord_merge {1 if c['asc'] else 0} {c['offset'] or 0} {'-' if c['limit'] is None else c['limit']} {c['batch']} {enc_streams(streams)}")
        order.append((i, streams))
    res2 = vlib.run_lines(binary, args, lines2) if lines2 else []
    outm = {}
    for (i, streams), r in zip(order, res2):
        ids = _parse_ids(r)
        flat = [v for s in streams for v in s]
        if ids is None:
            outm[i] = r or "ABORT"
        else:
            # canonical: the emitted keys, as tokens (row identity across the two levels is the key itself)
            outm[i] = "K " + ",".join(L.tok(flat[j]) for j in ids)
    return outm


def run_sides(cases_, model_ok):
    for c in cases_:
        if c["line"] is None:
            c["two_level"] = True
            c["line"] = "two_level " + c["show"]
    simple = [i for i, c in enumerate(cases_) if not c.get("two_level")]
    lines = [cases_[i]["line"] for i in simple]
    impl = [None] * len(cases_)
    model = [None] * len(cases_)
    ri = vlib.run_lines(vlib.VHARN, ["fn"], lines, timeout=900)
    rm = vlib.run_lines(vlib.MODEL_RUN, [], lines, timeout=900) if model_ok else [None] * len(lines)
    for i, a, b in zip(simple, ri, rm):
        impl[i], model[i] = a, b
    for i, r in _two_level(cases_, vlib.VHARN, ["fn"]).items():
        impl[i] = r
    if model_ok:
        for i, r in _two_level(cases_, vlib.MODEL_RUN, []).items():
            model[i] = r
    return impl, model


def same(c, impl, model):
    return impl == model


# ------------------------------------------------------------------ oracle
PAIRS = [(0, 1), (1, 2), (0, 2), (1, 0), (2, 1), (2, 0)]
OPP = {"L": "G", "G": "L", "E": "E"}


def _has_nan(vs):
    return any(v[0] == "f" and math.isnan(L.f64_from_bits(v[1])) for v in vs)


def oracle_cmp(c, impl):
    vs = c["vals"]
    if impl is None or len(impl) != 6 or any(ch not in "LEG" for ch in impl):
        return f"compare did not answer: {impl}"
    fam = L.column_family(vs)
    if fam is not None and not _has_nan(vs):
        keys = [L.ref_key(fam, v) for v in vs]
        exp = "".join(L.cmp3(keys[i], keys[j]) for i, j in PAIRS)
        if impl != exp:
            return f"compare({c['show']}) over a {fam} column gives {impl} for pairs ab bc ac ba cb ca, the typed order gives {exp}"
        return None
    # no typed order for this mixture: the comparator must at least be a total preorder on the triple
    r = {p: impl[k] for k, p in enumerate(PAIRS)}
    for (i, j) in [(0, 1), (1, 2), (0, 2)]:
        if r[(j, i)] != OPP[r[(i, j)]]:
            return f"compare({c['show']}): cmp(x{j},x{i})={r[(j, i)]} is not the opposite of cmp(x{i},x{j})={r[(i, j)]}"
    le = lambda i, j: i == j or r[(i, j)] != "G"
    for i in range(3):
        for j in range(3):
            for k in range(3):
                if le(i, j) and le(j, k) and not le(i, k):
                    return f"compare({c['show']}) is not transitive: x{i}<=x{j}<=x{k} but x{i}>x{k} (pairs ab bc ac ba cb ca = {impl})"
    return None


def oracle_acc(c, impl):
    v = c["vals"][0]
    if impl is None or not impl.startswith("U "):
        return f"accessor probe did not answer: {impl}"
    if v[0] != "s":
        return None
    f = dict(zip(impl.split()[0::2], impl.split()[1::2]))
    s = v[1]
    eu, ei, ef, eb = L.parse_u64(s), L.parse_i64(s), L.parse_f64(s), L.as_bool_str(s)
    if f["U"] != ("-" if eu is None else str(eu)):
        return f"as_u64({c['show']}) = {f['U']}, expected {eu}"
    if f["I"] != ("-" if ei is None else str(ei)):
        return f"as_i64({c['show']}) = {f['I']}, expected {ei}"
    exp_f = "-" if ef is None else ("nan" if math.isnan(ef) else f"{L.bits_from_f64(ef):016x}")
    if f["F"] != exp_f:
        return f"as_f64({c['show']}) = {f['F']}, expected {exp_f}"
    if f["B"] != ("-" if eb is None else ("1" if eb else "0")):
        return f"as_bool({c['show']}) = {f['B']}, expected {eb}"
    return None


def _canon_keys(fam, vals):
    return [L.ref_key(fam, v) for v in vals]


def oracle_merge(c, impl):
    ids = _parse_ids(impl)
    streams = c["streams"]
    flat = [v for s in streams for v in s]
    if not streams:
        return None if impl == "ERR" else f"merge of zero receivers answered {impl}"
    total, off, lim = len(flat), c["offset"], c["limit"]
    want = max(0, total - off) if lim is None else min(lim, max(0, total - off))
    if c["line"].startswith("ord_mergeset"):
        return None if impl == f"N {want}" else f"merger emitted {impl}; expected {want} rows"
    if ids is None:
        return f"merger did not answer: {impl}"
    if len(ids) != want or len(set(ids)) != len(ids) or any(i < 0 or i >= total for i in ids):
        return f"merger emitted {len(ids)} rows ({impl}); expected {want} distinct input rows"
    fam = L.column_family(flat)
    if fam is None or _has_nan(flat) or not c.get("sorted", True):
        return None
    keys = _canon_keys(fam, flat)
    ref = sorted(keys, reverse=not c["asc"])
    exp = ref[off:] if lim is None else ref[off:off + lim]
    got = [keys[i] for i in ids]
    if got != exp:
        return (f"ordered merge ({c['show']}) returned keys at positions {off}..{off + len(got)} that differ from the slice of the "
                f"reference sort under the {fam} typed order: got {[flat[i] for i in ids][:6]}…")
    return None


def oracle_two_level(c, impl):
    if impl is None or not impl.startswith("K"):
        return f"two-level merge did not answer: {impl}"
    flat = [_untok(t) for sh in c["shards"] for fl in sh for t in fl]
    fam = c["fam"]
    toks = impl[1:].strip()
    got_toks = toks.split(",") if toks else []
    by_tok = {}
    for v in flat:
        by_tok.setdefault(L.tok(v), v)
    try:
        got = [L.ref_key(fam, by_tok[t]) for t in got_toks]
    except KeyError:
        return f"two-level merge returned a key that is not in the input: {impl}"
    if fam is None or _has_nan(flat):
        return None
    ref = sorted(_canon_keys(fam, flat), reverse=not c["asc"])
    m = c["offset"] or 0
    exp = ref[m:m + c["limit"]]
    if got != exp:
        return f"two-level ordered query ({c['show']}): keys {got_toks[:6]}… are not rows {m}..{m + c['limit']} of the reference sort"
    return None


def oracle(c, impl):
    if impl in ("PANIC", "ABORT"):
        return f"implementation {impl} on {c.get('show')}"
    k = c["kind"]
    if c.get("two_level"):
        return oracle_two_level(c, impl)
    line = c["line"]
    if line.startswith("ord_cmp"):
        return oracle_cmp(_with_vals(c), impl)
    if line.startswith("ord_acc"):
        return oracle_acc(_with_vals(c), impl)
    if line.startswith("ord_mergeset") or line.startswith("ord_merge"):
        return oracle_merge(_with_streams(c), impl)
    return None


# corpus cases carry only the line: rebuild the python values from the tokens
def _untok(t):
    tag, rest = t[0], t[1:]
    if tag == "n":
        return ("n",)
    if tag == "b":
        return ("b", rest == "1")
    if tag in "it":
        return (tag, int(rest))
    if tag == "f":
        return ("f", int(rest.split(".")[0], 16))
    return (tag, b"" if rest == "-" else bytes.fromhex(rest))


def _with_vals(c):
    c = dict(c)
    c["vals"] = [_untok(t) for t in c["line"].split()[1:]]
    c.setdefault("show", " , ".join(L.show(v) for v in c["vals"]))
    return c


def _with_streams(c):
    c = dict(c)
    t = c["line"].split()
    c["asc"], c["offset"], c["limit"] = t[1] == "1", int(t[2]), (None if t[3] == "-" else int(t[3]))
    c["streams"] = [] if t[5] == "-" else [[] if s == "e" else [_untok(x) for x in s.split(",")] for s in t[5].split("/")]
    c.setdefault("sorted", True)
    c.setdefault("show", c["line"])
    return c


def classify(c, impl):
    if c.get("two_level"):
        flat = [_untok(t) for sh in c["shards"] for fl in sh for t in fl]
    elif c["line"].startswith("ord_cmp") or c["line"].startswith("ord_acc"):
        flat = _with_vals(c)["vals"]
    else:
        flat = [v for s in _with_streams(c)["streams"] for v in s]
    return L.classify_column(flat)


def nontrivial_key(c, impl):
    if impl is None or impl in ("ERR", "R", "K", "PANIC", "ABORT"):
        return None
    return (c["line"].split()[0], c["kind"], impl)


# ---------------------------------------------------------------------------------------------
# Engine-level part (oracle only): ORDER BY / LIMIT / OFFSET over shards x memory / segments / compacted
# segments on the real engine; the oracle is a reference sort of the stored rows.
from props import englib as _E

_F = {"cases": cases, "run_sides": run_sides, "same": same, "oracle": oracle, "classify": classify,
      "nontrivial_key": nontrivial_key}


def _qblock(qtexts):
    """the queries of one run, followed by one planner probe per query (same quiescent state): whether the ORDER BY
    zone pre-selection (RLTE) is active for that query decides whether a wrong slice is the known finding"""
    return [("cmd", q) for q in qtexts] + [("raw", "!rlte " + q) for q in qtexts]


def _eng_cases(rng, tier):
    out = []
    n = 14 if tier == "quick" else 400
    for i in range(n):
        cfg = dict(rng.choice(_E.CFGS)); cfg["segments_per_merge"] = rng.choice([2, 3])
        evs, script = _E.gen_population(rng, rng.range(5, 40), rng.range(1, 5), rng.choice([3, 10, 1000]))
        total = len(evs)
        qs, qtexts = [], []
        for _ in range(6):
            desc = rng.chance(1, 2)
            n_ = rng.choice([0, 1, 2, 3, 5, total, total + 3, rng.below(total + 2)])
            m_ = rng.choice([0, 0, 1, 2, total, total + 1, rng.below(total + 2)])
            kind = rng.below(6)
            if kind == 0:
                q = f"QUERY t ORDER BY k{' DESC' if desc else ''} LIMIT {n_} OFFSET {m_}"; spec = ("ord", desc, n_, m_, None)
            elif kind == 1:
                q = f"QUERY t ORDER BY k{' DESC' if desc else ''} LIMIT {n_}"; spec = ("ord", desc, n_, 0, None)
            elif kind == 2:
                q = f"QUERY t ORDER BY k{' DESC' if desc else ''}"; spec = ("ord", desc, None, 0, None)
            elif kind == 3:
                q = f"QUERY t LIMIT {n_}"; spec = ("lim", False, n_, 0, None)
            elif kind == 4:
                q = f"QUERY t OFFSET {m_}"; spec = ("off", False, None, m_, None)
            else:
                thr = rng.below(10)
                q = f"QUERY t WHERE k >= {thr} ORDER BY k{' DESC' if desc else ''} LIMIT {n_} OFFSET {m_}"; spec = ("ord", desc, n_, m_, thr)
            qs.append(spec); qtexts.append(q)
        # run 1 on the generated (mixed) layout, run 2 once everything is in segments: the known class
        # OrderedLimitWrongSlice is a defect of the top-k zone selection over FLUSHED data; a wrong slice that
        # disappears after the flush is a different defect and is reported
        script += [("quiesce",), ("cmd", "QUERY t")] + _qblock(qtexts)
        script += [("cmd", "FLUSH"), ("quiesce",), ("cmd", "QUERY t")] + _qblock(qtexts)
        out.append({"kind": "engine", "line": "", "cfg": cfg, "script": [list(x) for x in script], "evs": evs, "qs": qs, "qtexts": qtexts,
                    "show": f"engine {cfg}: {total} events, " + "; ".join(qtexts)})
    # targeted: ordering by other columns (context_id, g) with a rotated memtable still waiting for its flush
    # (passive buffer) next to the active memtable and to segments
    for i in range(3 if tier == "quick" else 60):
        cfg = dict(rng.choice(_E.CFGS)); cfg["shards"] = 1; cfg["segments_per_merge"] = 2
        cap = cfg["fill_factor"] * cfg["event_per_zone"]
        script = [("cmd", f"DEFINE t FIELDS {_E.FIELDS}")]
        evs = []
        def st(i_):
            cx = rng.below(12); k = rng.below(50); g = f"g{rng.below(4)}"
            script.append(("cmd", f'STORE t FOR k{cx:02d} PAYLOAD {{"k": {k}, "g": "{g}"}}')); evs.append({"k": k})
        # no earlier segment: while the flush is parked the in-flight segment has no files, and reads of OTHER
        # segments are unreliable then (C03 finding ReadDuringFlushDropsSegmentFlow) - not what is tested here
        script += [("quiesce",), ("raw", "!park fw_begin")]
        for j in range(cap):
            st(j)
        script.append(("raw", "!wait_parked fw_begin 1500"))
        for j in range(rng.range(1, max(1, cap - 1))):
            st(j)
        field = rng.choice(["context_id", "g", "k"])
        qs, qtexts = [], []
        for n_ in (1, 3, rng.range(2, 8)):
            for desc in (False, True):
                qs.append(("ordf", desc, n_, 0, field)); qtexts.append(f"QUERY t ORDER BY {field}{' DESC' if desc else ''} LIMIT {n_}")
        script += [("cmd", "QUERY t")] + _qblock(qtexts)
        script += [("raw", "!release fw_begin"), ("cmd", "FLUSH"), ("quiesce",), ("cmd", "QUERY t")] + _qblock(qtexts)
        out.append({"kind": "engine", "line": "", "cfg": cfg, "script": [list(x) for x in script], "evs": evs, "qs": qs, "qtexts": qtexts,
                    "show": f"engine order-by-{field}-with-passive {cfg}: {len(evs)} events, " + "; ".join(qtexts)})
    # targeted: MISSING sort keys ("for all data sets with duplicate and missing sort keys"): a nullable sort field that
    # a third of the rows lack, rows spread over shards, memory and segments; the local sorts of the memory and the
    # segment tier and the two merge levels must agree on where a row without the key goes
    for i in range(4 if tier == "quick" else 80):
        cfg = dict(rng.choice(_E.CFGS)); cfg["segments_per_merge"] = 2
        script = [("cmd", 'DEFINE t FIELDS { k: "int", s: "int | null", g: "string" }')]
        evs = []
        nev = rng.range(8, 36)
        for j in range(nev):
            sv = None if rng.chance(1, 3) else rng.below(12)
            pl = f'{{"k": {j}, "g": "x"}}' if sv is None else f'{{"k": {j}, "s": {sv}, "g": "x"}}'
            script.append(("cmd", f"STORE t FOR c{rng.below(5)} PAYLOAD {pl}")); evs.append({"k": j, "s": sv})
            if rng.chance(1, 12):
                script += [("cmd", "FLUSH"), ("quiesce",)]
        qs, qtexts = [], []
        for _ in range(6):
            desc = rng.chance(1, 2)
            n_ = rng.choice([None, 1, 2, 3, 5, nev // 2, nev, nev + 2])
            m_ = 0 if n_ is None else rng.choice([0, 0, 1, 2, nev // 3])
            q = f"QUERY t ORDER BY s{' DESC' if desc else ''}" + (f" LIMIT {n_}" if n_ is not None else "") + (f" OFFSET {m_}" if m_ else "")
            if q not in qtexts:
                qs.append(("ordf", desc, n_, m_, "s")); qtexts.append(q)
        script += [("quiesce",), ("cmd", "QUERY t")] + _qblock(qtexts)
        script += [("cmd", "FLUSH"), ("quiesce",), ("cmd", "QUERY t")] + _qblock(qtexts)
        out.append({"kind": "engine", "line": "", "cfg": cfg, "script": [list(x) for x in script], "evs": evs, "qs": qs, "qtexts": qtexts,
                    "show": f"engine missing-sort-keys {cfg}: {nev} events, " + "; ".join(qtexts)})
    # targeted: deep pagination over one shard with thousands of flushed rows
    for i in range(1 if tier == "quick" else 6):
        cfg = dict(fill_factor=50, event_per_zone=100, shards=rng.choice([1, 1, 2]), segments_per_merge=2)
        script = [("cmd", f"DEFINE t FIELDS {_E.FIELDS}")]
        evs = []
        for j in range(rng.range(8400, 9500)):
            k = rng.below(1000000)
            script.append(("cmd", f'STORE t FOR c{j % 5} PAYLOAD {{"k": {k}, "g": "x"}}')); evs.append({"k": k})
        script += [("cmd", "FLUSH"), ("quiesce",)]
        qs, qtexts = [], []
        for (n_, m_) in ((100, 1100), (50, rng.range(100, 4000)), (1200, 0), (10, 4300)):
            qs.append(("ord", False, n_, m_, None)); qtexts.append(f"QUERY t ORDER BY k LIMIT {n_} OFFSET {m_}")
        script += [("cmd", "QUERY t")] + _qblock(qtexts)
        script += [("cmd", "FLUSH"), ("quiesce",), ("cmd", "QUERY t")] + _qblock(qtexts)
        out.append({"kind": "engine", "line": "", "cfg": cfg, "script": [list(x) for x in script], "evs": evs, "qs": qs, "qtexts": qtexts,
                    "show": f"engine deep-pagination {cfg}: {len(evs)} events, " + "; ".join(qtexts)})
    # targeted: every shard has flushed segments, then the smallest (largest) keys arrive for ONE context and stay
    # unflushed: an ordered LIMIT must still take them from that shard's memory (no shard may be skipped)
    for i in range(3 if tier == "quick" else 60):
        cfg = dict(rng.choice([c for c in _E.CFGS if c["shards"] > 1])); cfg["segments_per_merge"] = 2
        nctx = rng.range(4, 9)
        script = [("cmd", f"DEFINE t FIELDS {_E.FIELDS}")]
        evs = []
        for cx in range(nctx):
            for j in range(rng.range(2, 4)):
                k = 100 + 10 * cx + j
                script.append(("cmd", f'STORE t FOR c{cx} PAYLOAD {{"k": {k}, "g": "x"}}')); evs.append({"k": k})
        script += [("cmd", "FLUSH"), ("quiesce",)]
        low = rng.chance(1, 2)
        hot = rng.below(nctx)
        # fewer hot events than one memtable holds: they are certainly still in memory in the first run
        m = rng.range(1, max(1, min(3, cfg["fill_factor"] * cfg["event_per_zone"] - 1)))
        mem_keys = []
        for j in range(m):
            k = (1 + j) if low else (900 + j)
            mem_keys.append(k)
            script.append(("cmd", f'STORE t FOR c{hot} PAYLOAD {{"k": {k}, "g": "x"}}')); evs.append({"k": k})
        qs, qtexts = [], []
        for n_ in (1, m, m + 1):
            qs.append(("ord", not low, n_, 0, None)); qtexts.append(f"QUERY t ORDER BY k{'' if low else ' DESC'} LIMIT {n_}")
        # ... and with OFFSET: the page must still come out of that shard's memory (its local top-k has n+m rows)
        for (n_, m_) in ((1, max(0, m - 1)), (m + 1, 1)):
            qs.append(("ord", not low, n_, m_, None)); qtexts.append(f"QUERY t ORDER BY k{'' if low else ' DESC'} LIMIT {n_} OFFSET {m_}")
        script += [("quiesce",), ("cmd", "QUERY t")] + _qblock(qtexts)
        script += [("cmd", "FLUSH"), ("quiesce",), ("cmd", "QUERY t")] + _qblock(qtexts)
        out.append({"kind": "engine", "line": "", "cfg": cfg, "script": [list(x) for x in script], "evs": evs, "qs": qs, "qtexts": qtexts,
                    "mem_keys": mem_keys,
                    "show": f"engine topk-unflushed-shard {cfg}: {len(evs)} events, " + "; ".join(qtexts)})
    # targeted (the configuration in which a seeded change showed): three shards, ONE busy context whose 60 events are
    # flushed by automatic rotation (so at most two shards ever get a segment), then fresh contexts with two unflushed
    # rows each, some of them on a shard without any segment; scoped and unscoped ordered pages with OFFSET
    for i in range(1 if tier == "quick" else 20):
        cfg = dict(fill_factor=3, event_per_zone=1, shards=3, segments_per_merge=2)
        script = [("cmd", f"DEFINE t FIELDS {_E.FIELDS}")]
        evs = []
        nb = rng.range(55, 70)
        for j in range(nb):
            script.append(("cmd", f'STORE t FOR busy{i} PAYLOAD {{"k": {1000 + j}, "g": "x"}}')); evs.append({"k": 1000 + j})
        script += [("cmd", "FLUSH"), ("quiesce",)]
        mem_keys = []
        nq = rng.range(5, 7)
        for q in range(nq):
            for a in (1, 2):
                k = 10 * q + a
                mem_keys.append(k)
                script.append(("cmd", f'STORE t FOR quiet{q} PAYLOAD {{"k": {k}, "g": "x"}}')); evs.append({"k": k})
        qs, qtexts = [], []
        for q in range(nq):
            qs.append(("ordc", False, 1, 1, f"quiet{q}")); qtexts.append(f"QUERY t FOR quiet{q} ORDER BY k LIMIT 1 OFFSET 1")
        for (n_, m_) in ((1, 1), (2, 1), (1, 3)):
            qs.append(("ord", False, n_, m_, None)); qtexts.append(f"QUERY t ORDER BY k LIMIT {n_} OFFSET {m_}")
        script += [("quiesce",), ("cmd", "QUERY t")] + _qblock(qtexts)
        script += [("cmd", "FLUSH"), ("quiesce",), ("cmd", "QUERY t")] + _qblock(qtexts)
        out.append({"kind": "engine", "line": "", "cfg": cfg, "script": [list(x) for x in script], "evs": evs, "qs": qs, "qtexts": qtexts,
                    "mem_keys": mem_keys,
                    "show": f"engine pages-from-segmentless-shard {cfg}: {len(evs)} events, " + "; ".join(qtexts[:3]) + " ..."})
    # targeted: many shards, only a few of them hold flushed segments; the smallest keys arrive for fresh contexts, most
    # of which live on shards that have NO segment at all (no entry in any zone plan) and stay in memory: ordered pages
    # with OFFSET must still be cut from those shards' memory
    for i in range(2 if tier == "quick" else 40):
        cfg = dict(fill_factor=2, event_per_zone=2, shards=rng.choice([6, 8]), segments_per_merge=2)
        script = [("cmd", f"DEFINE t FIELDS {_E.FIELDS}")]
        evs = []
        for cx in range(3):
            for j in range(rng.range(16, 24)):
                k = 1000 + 40 * cx + j
                script.append(("cmd", f'STORE t FOR c{cx} PAYLOAD {{"k": {k}, "g": "x"}}')); evs.append({"k": k})
        script += [("cmd", "FLUSH"), ("quiesce",)]
        mem_keys = []
        nh = rng.range(3, 5)
        for h in range(nh):
            for j in range(2):
                k = 1 + 2 * h + j
                mem_keys.append(k)
                script.append(("cmd", f'STORE t FOR h{h}x{rng.below(1000)} PAYLOAD {{"k": {k}, "g": "x"}}')); evs.append({"k": k})
        qs, qtexts = [], []
        for (n_, m_) in ((1, 1), (2, 1), (1, 3), (3, 0), (2, 2 * nh - 2)):
            qs.append(("ord", False, n_, m_, None)); qtexts.append(f"QUERY t ORDER BY k LIMIT {n_} OFFSET {m_}")
        script += [("quiesce",), ("cmd", "QUERY t")] + _qblock(qtexts)
        script += [("cmd", "FLUSH"), ("quiesce",), ("cmd", "QUERY t")] + _qblock(qtexts)
        out.append({"kind": "engine", "line": "", "cfg": cfg, "script": [list(x) for x in script], "evs": evs, "qs": qs, "qtexts": qtexts,
                    "mem_keys": mem_keys,
                    "show": f"engine topk-unflushed-empty-shard {cfg}: {len(evs)} events, " + "; ".join(qtexts)})
    return out


def cases(rng, tier):
    return _F["cases"](rng, tier) + _eng_cases(rng.fork("engine"), tier)


def run_sides(cases_, model_ok):
    fn = [c for c in cases_ if c.get("kind") != "engine"]
    en = [c for c in cases_ if c.get("kind") == "engine"]
    fi, fm = _F["run_sides"](fn, model_ok) if fn else ([], [])
    ei = _E.run_scripts(en) if en else []
    it_f, it_m, it_e = iter(fi), iter(fm), iter(ei)
    impl, model = [], []
    for c in cases_:
        if c.get("kind") == "engine":
            impl.append(next(it_e)); model.append(None)
        else:
            impl.append(next(it_f)); model.append(next(it_m))
    return impl, model


def same(c, impl, model):
    return True if c.get("kind") == "engine" else _F["same"](c, impl, model)


def _nk(v):
    return (v is not None, 0 if v is None else v)


def _judge_query(spec, r, sel, selrows=None):
    kind, desc, n_, m_, thr = spec
    if kind == "ordf":
        field = thr
        if r["status"] != 200:
            return f"{spec}: status {r['status']} {r.get('message')}"
        got = [x.get(field) for x in r["rows"]]
        # a row without the sort field sorts before every row that has it (the typed order puts Null first)
        pool = sorted((x.get(field) for x in (selrows or [])), key=_nk, reverse=bool(desc))
        exp = pool[m_:] if n_ is None else pool[m_:m_ + n_]
        if got != exp:
            return f"ORDER BY {field}{' DESC' if desc else ''} LIMIT {n_}: returned {got}, the first {n_} of the typed order are {exp}"
        return None
    if kind == "ordc":
        # ORDER BY k LIMIT n OFFSET m scoped to one context (thr = the context id)
        if r["status"] != 200:
            return f"{spec}: status {r['status']} {r.get('message')}"
        got = [x.get("k") for x in r["rows"]]
        pool = sorted((x.get("k") for x in (selrows or []) if x.get("context_id") == thr), reverse=bool(desc))
        exp = pool[m_:m_ + n_]
        if got != exp:
            return f"FOR {thr} ORDER BY k{' DESC' if desc else ''} LIMIT {n_} OFFSET {m_}: returned {got}, rows {m_}..{m_}+{n_} of the context's order are {exp}"
        return None
    if kind == "off":
        return f"OFFSET {m_} without LIMIT was answered with status 200" if r["status"] == 200 else None
    if r["status"] != 200:
        return f"{spec}: status {r['status']} {r.get('message')}"
    keys = [x["k"] for x in r["rows"]]
    pool = sorted((k for k in sel if thr is None or k >= thr), reverse=bool(desc))
    if kind == "ord":
        exp = pool[m_:] if n_ is None else pool[m_:m_ + n_]
        if keys != exp:
            return f"ORDER BY k{' DESC' if desc else ''} LIMIT {n_} OFFSET {m_} WHERE>={thr}: returned keys {keys}, rows {m_}..{m_}+{n_} of the typed order are {exp}"
    else:
        want = min(n_, len(pool))
        ids = [x["event_id"] for x in r["rows"]]
        if len(keys) != want or len(set(ids)) != len(ids):
            return f"LIMIT {n_}: returned {len(keys)} rows ({len(set(ids))} distinct), expected {want}"
    return None


def _eng_failures(c, impl):
    """-> list of (run, j, why, keys) for every query whose answer is not the right slice"""
    n = len(c["qs"])
    res = impl["res"]
    if "qtexts" not in c:                      # corpus cases of the first format: one run only
        base_r = res[-n - 1]
        if base_r["status"] != 200:
            return []
        sel = [x["k"] for x in base_r["rows"]]
        return [(2, j, w, [x["k"] for x in r["rows"]]) for j, (spec, r) in enumerate(zip(c["qs"], res[-n:]))
                for w in [_judge_query(tuple(spec), r, sel)] if w]
    out = []
    # positions of the two base selections ("QUERY t") in the script; the n queries follow each of them
    bases = [i for i, st in enumerate(c["script"]) if st[0] == "cmd" and st[1] == "QUERY t"]
    if len(bases) < 2:
        return []
    b1, b2 = bases[-2], bases[-1]
    for run, base_r, rs in ((1, res[b1], res[b1 + 1:b1 + 1 + n]), (2, res[b2], res[b2 + 1:b2 + 1 + n])):
        if not base_r or base_r["status"] != 200:
            continue
        sel = [x["k"] for x in base_r["rows"]]
        for j, (spec, r) in enumerate(zip(c["qs"], rs)):
            if r is None:
                continue
            w = _judge_query(tuple(spec), r, sel, base_r["rows"])
            if w:
                col = spec[4] if spec[0] == "ordf" and spec[4] in ("k", "s") else "k"
                out.append((run, j, ("mixed layout: " if run == 1 else "all flushed: ") + w, [x.get(col) for x in r["rows"]]))
    return out


def _eng_plans(c, impl):
    """{(run, j): planner probe answer} for scripts that carry the probes (None = pre-selection not active)"""
    n = len(c["qs"])
    res = impl["res"]
    bases = [i for i, st in enumerate(c["script"]) if st[0] == "cmd" and st[1] == "QUERY t"]
    plans = {}
    if len(bases) < 2:
        return plans
    for run, b in ((1, bases[-2]), (2, bases[-1])):
        for j in range(n):
            i = b + 1 + n + j
            if i < len(res) and isinstance(res[i], dict) and "rlte" in res[i]:
                plans[(run, j)] = res[i]["rlte"]
    return plans


def _eng_oracle(c, impl):
    if not impl.get("ok"):
        return "engine harness: " + str(impl.get("err"))
    f = _eng_failures(c, impl)
    if f and c.get("pinned"):
        # histories with a pinned list of known failing inputs: a failure that is not on the list is named first
        listed = {(r, j): k for r, j, k in c.get("pinned_fail", [])}
        f = sorted(f, key=lambda x: listed.get((x[0], x[1])) == x[3])
        if listed.get((f[0][0], f[0][1])) != f[0][3]:
            return f[0][2] + " (a pinned history: this query/answer is not among the failures listed for it under OrderedLimitWrongSlice)"
    return f[0][2] if f else None


def oracle(c, impl):
    return _eng_oracle(c, impl) if c.get("kind") == "engine" else _F["oracle"](c, impl)


def classify(c, impl):
    if c.get("kind") == "engine":
        if not impl.get("ok"):
            return None
        f = _eng_failures(c, impl)
        if not f:
            return None
        flushed = {j: keys for (run, j, w, keys) in f if run == 2}
        if c.get("pinned"):
            # corpus/C10/rlte_pinned.json: deterministic layouts; the known finding is identified on them by the exact
            # (run, query, answer) triples that fail on the unchanged tree - anything else is a different violation
            listed = {(r, j): k for r, j, k in c.get("pinned_fail", [])}
            return "OrderedLimitWrongSlice" if all(listed.get((run, j)) == keys for (run, j, w, keys) in f) else None
        plans = _eng_plans(c, impl)
        if plans:
            # The known finding is the unsound ORDER BY zone pre-selection (RLTE planner: it estimates from the ladders
            # which zones can hold the first 10*(n+m) rows and scans only those). A wrong slice is that finding only if
            # the planner probe says the pre-selection is ACTIVE for this very query in this very state, the answer
            # is sorted, has the right length and consists of stored rows; with the pre-selection inactive (no plan:
            # the full-scan path) any wrong slice is a violation.
            bases = [i for i, st in enumerate(c["script"]) if st[0] == "cmd" and st[1] == "QUERY t"]
            for (run, j, w, keys) in f:
                spec = c["qs"][j]
                if "ORDER BY" not in w or spec[0] not in ("ord", "ordf") or not plans.get((run, j)):
                    return None
                base_rows = impl["res"][bases[-2] if run == 1 else bases[-1]]["rows"]
                if spec[0] == "ordf":
                    # ORDER BY <field> LIMIT n of the passive-buffer scenario; the failure tuple carries the k column,
                    # so only ORDER BY k can be judged here - other fields stay violations
                    if spec[4] not in ("k", "s"):
                        return None
                    pool = [x.get(spec[4]) for x in base_rows]
                else:
                    pool = [x["k"] for x in base_rows if spec[4] is None or x["k"] >= spec[4]]
                want = len(pool[spec[3]:] if spec[2] is None else pool[spec[3]:spec[3] + spec[2]])
                import collections as _c
                if keys != sorted(keys, key=_nk, reverse=bool(spec[1])) or len(keys) > want or (_c.Counter(keys) - _c.Counter(pool)):
                    return None
                # the pre-selection can only leave out FLUSHED rows: a row that is certainly still in memory (scenario
                # knowledge) and belongs to the slice must be in the answer
                exp = sorted(pool, key=_nk, reverse=bool(spec[1]))
                exp = exp[spec[3]:] if spec[2] is None else exp[spec[3]:spec[3] + spec[2]]
                if run == 1 and any(k in exp and k not in keys for k in c.get("mem_keys", [])):
                    return None
            return "OrderedLimitWrongSlice"
        for (run, j, w, keys) in f:
            if "ORDER BY" not in w:
                return None
            spec = c["qs"][j]
            # the known defect of the top-k zone selection shows for SMALL n+m only (observed: <= 3; deep
            # pagination over thousands of rows is exact on the unmodified tree)
            if spec[2] is None or (spec[2] or 0) + (spec[3] or 0) > 8:
                return None
            if not (keys == sorted(keys) or keys == sorted(keys, reverse=True)):
                return None
            # known only if the same query (also) returns a wrong slice once everything is flushed
            if run == 1 and j not in flushed:
                return None
        return "OrderedLimitWrongSlice"
    return _F["classify"](c, impl)


def nontrivial_key(c, impl):
    if c.get("kind") == "engine":
        return c["show"] if impl.get("ok") else None
    return _F["nontrivial_key"](c, impl)
