"""C19 — WAL files are deleted only after a complete, lossless archive exists."""
import base64, json, math, os, re, shutil, struct
import vlib
from vlib import hx
from props import base

PROP = "C19"
PROPS_V = "theories/Props/C19.v"
THEOREMS = [
    "C19_no_delete_on_any_failure",
    "C19_fault_patterns_fail",
    "C19_partial_failure_keeps_archives",
    "C19_deleted_implies_archived",
    "C19_foreign_names_untouched",
    "C19_archive_roundtrip_lossless",
    "C19_recover_roundtrip",
    "C19_archive_names_unique_refuted",
    "C19_archive_name_determines_id",
    "C19_archive_kept_outside_known",
    "C19_history_deleted_stay_archived",
    "C19_last_line_without_newline_is_a_line",
    "C19_crlf_terminated_line",
    "C19_archive_complete_for_replay",
    "C19_unterminated_last_entry_archived",
    "C19_results_cover_every_eligible",
]
RULE = ("real directories under a per-process configuration (SNELDB_CONFIG): WAL directory populations (canonical, aliased and "
        "non-matching file names, directories, empty files, files with blank / torn / foreign / invalid-UTF-8 lines, entries with "
        "null, bool, i64/u64 edge, float, string, nested JSON payload values in several spellings) x keep_from_log_id x fault "
        "patterns of the archive directory (missing, a regular file, a directory squatting on the predicted archive name of a subset "
        "of the files, pre-existing garbage / decodable archive of the same name, every write failing after File::create via RLIMIT_FSIZE=0) x conservative and plain mode x one or two cleanup "
        "rounds with id reuse, log files given as raw bytes with every final-line shape (complete entry without newline, CRLF, torn prefix, whitespace only, JSON followed by garbage, empty file, only newlines, a kept \\r) and interior blank / foreign / non-UTF-8 / 9-70 KB lines with the real WAL replay of each file observed before the cleanup, archive_log called directly, recovery over foreign archive directory contents; backlogs of 9..40 eligible logs in one cleaner pass (built up in bursts over passes that fail as a whole while the archive root is a regular file / a directory squats on the oldest log's archive name / every write fails, then repaired; or simply present), with earlier healthy passes before, cutoffs at the end of, inside and below the backlog and recover_all checked after every pass; plus the MessagePack trip "
        "of every ScalarValue variant.  A case is non-trivial when a cleanup deleted a file, an injected fault applied, or recovery "
        "returned entries; distinct by (scenario kind, implementation output)")
ASSUMPTIONS = [
    "recognising a raw WAL line (serde_json number/float parsing, string unescaping, serde's struct rules) is outside the model: each generated line carries its classification (invalid UTF-8 / blank / not an entry / entry fields), built by the generator from the structured entry; the Python oracle re-parses the raw line independently and the differential run checks the classification against the real code",
    "zstd and rmp-serde are modelled by their observable effect on entries (identity on line-born entries; Timestamp->Int64, Binary->base64 text, non-finite float->Null)",
    "I/O failures are injected on the real code structurally (archive path is a regular file, a directory occupies the archive file name, log path is a directory, invalid UTF-8) and, for the late failure, by RLIMIT_FSIZE=0 for all files of a pass at once; a late failure of only some files and the early failure (compression/open error) are covered by the theorems' abstract per-file outcome only",
    "read_dir order is not modelled; the model processes the directory in the listed order and the theorems hold for every order",
    "files appearing in the WAL directory between the archiver's scan and the cleaner's scan (a concurrent writer) are not modelled",
]
TRUSTED = [
    "Coq 8.16.1 kernel + coqc; vm_compute for closed witnesses; no native_compute",
    "translator tools/params/p40_walarch.py (file-name formats, pad width, id filter, the canonical-name condition of both scans, which directory the cleaner's archiver reads, the recovery sort and its key format, extension filter, the abort-on-failure branch, File::create and the shape of archive_logs_up_to - one archive_log per scan hit, results returned uncut, no take/truncate/early exit - are read from the Rust text)",
    "extraction: ExtrOcamlBasic only; ocaml/driver.ml, conv.ml, p_walarch.ml (parsing/printing, fixture state)",
    "correspondence harness /verif/harness (vharn fn walarch_run / walarch_rt) built against /repo with --cfg sneldb_verif, one child process per configuration",
    "python oracle: CPython json / struct / base64 (independent of model and implementation)",
]

CLAIMED = True
MANIFEST = {
 "level_text": "Theorems over the model of cleaner + archiver + recovery (all WAL directory contents, keep ids, archive-directory states, per-file I/O outcomes, both ways of building the cleaner): in conservative mode any archive failure deletes nothing and keeps the archives already written; every deleted log has an archive holding exactly its parseable entries in order (no exclusion since the fixes 1c3fa90/db8e58e); files with foreign names are never removed; the archive encoding is the identity on entries read from a log; recovery returns the archived logs' entries in log order for ids of any width (since fix 06752f6); an archive is kept by later cleanups unless a later log gets the same archive name (refuted: id reuse with equal second range overwrites - the one known class left). File-name formats, the scan condition, the archiver's directory, the recovery sort and the abort branch are regenerated from the Rust text; the model is run against the real WalCleaner/WalArchiver/WalArchiveRecovery on real directories with injected directory and write faults.",
 "design_ref": "DESIGN.md §6 C19",
 "level_note": "Trusted: Coq kernel; tools/params/p40_walarch.py; ExtrOcamlBasic extraction + OCaml driver; the Rust harness; CPython json (oracle). Line recognition (serde_json), zstd, rmp-serde are modelled by their effect, tied by the differential run only. I/O errors other than structural ones, read_dir order and a concurrent writer are not exercised on the real code."
}

U64 = 2 ** 64 - 1
I64MAX = 2 ** 63 - 1
I64MIN = -2 ** 63


def corpus():
    return base.corpus_for(PROP)


# ------------------------------------------------------------------ encoding helpers
def hb(b):
    return b.hex() if b else "-"


def fbits(x):
    return struct.unpack(">Q", struct.pack(">d", x))[0]


def canon_json(v):
    """serde_json::to_string of a Value (BTreeMap keys, compact); only ints/strings/bools/null inside."""
    return json.dumps(v, separators=(",", ":"), ensure_ascii=False, sort_keys=True)


# ------------------------------------------------------------------ independent reference: reading a raw WAL line
class _Dup(Exception):
    pass


class _Obj(list):
    """JSON object as the list of its (key, value) pairs in text order."""


def _pairs(ps):
    return _Obj(ps)


def _int(s):
    if s == "-0":
        return -0.0            # serde_json reads "-0" as the float -0.0
    return int(s)


def _u64(v):
    return isinstance(v, int) and not isinstance(v, bool) and 0 <= v <= U64


def _to_plain(v):
    if isinstance(v, _Obj):
        d = {}
        for k, x in v:
            d[k] = _to_plain(x)   # later duplicate wins
        return d
    if isinstance(v, list):
        return [_to_plain(x) for x in v]
    return v


def scalar_of(v):
    """ScalarValue::from(JsonValue), printed in the probes' notation."""
    if v is None:
        return "n"
    if isinstance(v, bool):
        return "b1" if v else "b0"
    if isinstance(v, int):
        if I64MIN <= v <= I64MAX:
            return f"i{v}"
        if v <= U64 and v > 0:
            return "s" + hb(str(v).encode())
        return f"f{fbits(float(v))}"
    if isinstance(v, float):
        return f"f{fbits(v)}"
    if isinstance(v, str):
        return "s" + hb(v.encode("utf-8"))
    return "s" + hb(canon_json(_to_plain(v)).encode("utf-8"))


def read_line(raw):
    """'U' (invalid UTF-8), 'B' (blank), 'J' (not an entry) or the canonical entry string."""
    try:
        s = raw.decode("utf-8")
    except UnicodeDecodeError:
        return "U"
    if s.strip() == "":
        return "B"
    try:
        v = json.loads(s, object_pairs_hook=_pairs, parse_int=_int)
    except Exception:
        return "J"
    if not isinstance(v, _Obj):
        return "J"
    f = {}
    for k, x in v:
        if k in ("timestamp", "context_id", "event_type", "payload", "event_id"):
            if k in f:
                return "J"          # serde: duplicate field
            f[k] = x
    for k in ("timestamp", "context_id", "event_type", "payload"):
        if k not in f:
            return "J"
    if not _u64(f["timestamp"]) or not isinstance(f["context_id"], str) or not isinstance(f["event_type"], str):
        return "J"
    if not isinstance(f["payload"], _Obj):
        return "J"
    eid = f.get("event_id", 0)
    if not _u64(eid):
        return "J"
    pm = {}
    for k, x in f["payload"]:
        pm[k.encode("utf-8")] = scalar_of(x)
    pl = "+".join(f"{hb(k)}@{pm[k]}" for k in sorted(pm))
    return f"{f['timestamp']}/{hb(f['context_id'].encode())}/{hb(f['event_type'].encode())}/{eid}/{pl}"


def py_lines(content):
    """BufRead::lines on the bytes of a file, re-implemented here for the oracle: pieces ending in "\n" are lines
    (one "\r" before it dropped), a non-empty rest after the last "\n" is a line too."""
    pieces = content.split(b"\n")
    out = [p[:-1] if p.endswith(b"\r") else p for p in pieces[:-1]]
    if pieces[-1]:
        out.append(pieces[-1])
    return out


def replay_file(raws):
    """the entries WAL replay accepts from the lines of a file (a non-UTF-8 line is skipped, replay goes on)"""
    return [x for x in (read_line(r) for r in raws) if x not in ("U", "B", "J")]


def memtable_order(es):
    """MemTable::iter: by context id (bytes), insertion order within"""
    return sorted(es, key=lambda e: vlib.unhx(e.split("/")[1]))


def read_file(raws):
    """None when the archive of the file must fail (invalid UTF-8), else the list of entry strings."""
    out = []
    for r in raws:
        x = read_line(r)
        if x == "U":
            return None
        if x in ("B", "J"):
            continue
        out.append(x)
    return out


NAME_RE = re.compile(rb"^wal-(\+?[0-9]+)\.log$")


def scan_id(name):
    m = NAME_RE.match(name)
    if not m:
        return None
    v = int(m.group(1))
    return v if v <= U64 else None


def canonical(i):
    return f"wal-{i:05d}.log".encode()


def predicted_archive_name(i, entries):
    ts = [int(e.split("/")[0]) for e in entries]
    s, e = (min(ts), max(ts)) if ts else (0, 0)
    return f"wal-{i:05d}-{s}-{e}.wal.zst".encode()


# ------------------------------------------------------------------ generator: values, lines, files
STRS = ["", "x", "hello world", "é", "日本", "\U0001F600", 'q"uo\\te', "tab\there", "nl\\n", "123", "true", "null",
        "18446744073709551615", '{"a":1}', "[1,2]", " spaced ", "\u007f", "\u0001", "a,b;c:d|e/f+g@h~i=j", "-"]
FLOATS = ["1.5", "-0.0", "-0", "1e5", "2.5e-3", "0.1", "123456.789", "1E2", "-7.25", "1e-7", "3.141592653589793", "1e22", "4.35",
          "18446744073709551616", "-9223372036854775809", "100000000000000000000", "1e19", "5e-324", "1.7976931348623157e308", "0.0"]
INTS = [0, 1, -1, 42, 255, 65536, I64MAX, I64MIN, I64MAX + 1, U64, 10 ** 18, -(10 ** 18), 4294967296, 2 ** 53 + 1]
KEYS = ["a", "b", "k1", "é", "zz", "A", "", "key with space", "aa", "ab"]


def jstr(s, rng):
    return json.dumps(s, ensure_ascii=rng.chance(1, 4))


def gen_nested(rng, depth=0):
    r = rng.below(7 if depth < 2 else 4)
    if r == 0:
        return rng.choice([None, True, False])
    if r == 1:
        return rng.choice([0, 1, -5, 42, I64MAX, I64MIN, U64, rng.range(-1000, 1000)])
    if r in (2, 3):
        return rng.choice(STRS)
    if r == 4:
        return [gen_nested(rng, depth + 1) for _ in range(rng.below(4))]
    d = {}
    for _ in range(rng.below(4)):
        d[rng.choice(KEYS)] = gen_nested(rng, depth + 1)
    return d


def gen_value(rng):
    """(JSON text, model descriptor) of one payload value."""
    r = rng.below(12)
    if r == 0:
        return "null", "n"
    if r == 1:
        b = rng.chance(1, 2)
        return ("true" if b else "false"), ("b1" if b else "b0")
    if r in (2, 3):
        v = rng.choice(INTS) if rng.chance(1, 2) else rng.range(-10 ** 6, 10 ** 6)
        return str(v), f"i{v}"
    if r == 4:
        v = rng.range(I64MIN, U64)
        return str(v), f"i{v}"
    if r in (5, 6):
        if rng.chance(2, 3):
            lit = rng.choice(FLOATS)
        else:
            m = rng.range(-10 ** 9, 10 ** 9)
            lit = f"{m}.{rng.below(10 ** 5):05d}" if rng.chance(1, 2) else f"{m}e{rng.range(-20, 20)}"
        return lit, f"f{fbits(float(lit))}"
    if r in (7, 8, 9):
        s = rng.choice(STRS) if rng.chance(3, 4) else "".join(rng.choice("abcXYZ019 _-ü") for _ in range(rng.below(12)))
        return jstr(s, rng), "s" + hb(s.encode("utf-8"))
    v = gen_nested(rng, 0)
    while not isinstance(v, (list, dict)):
        v = [v]
    text = json.dumps(v, ensure_ascii=rng.chance(1, 4), separators=rng.choice([(",", ":"), (", ", ": ")]))
    return text, "j" + hb(canon_json(v).encode("utf-8"))


class Ids:
    def __init__(self):
        self.n = 1000

    def next(self):
        self.n += 1
        return self.n


def gen_entry(rng, ids, ts=None, replayable=False, extra=()):
    """(raw bytes, descriptor 'E/…') of one well-formed entry line.  replayable: one non-blank context, non-blank
    type, non-zero id (WAL replay keeps such an entry as it is); extra: additional (key, json text, descriptor)."""
    if ts is None:
        ts = rng.choice([1700000000 + rng.below(100), rng.below(10), rng.range(0, U64), 0, U64]) if rng.chance(1, 3) else 1700000000 + rng.below(5)
    ctx = rng.choice(["c1", "c2", "ctx-é", "", "user 7", "\U0001F600"])
    et = rng.choice(["t", "order_created", "evénement", ""])
    omit_id = rng.chance(1, 12)
    eid = 0 if omit_id else rng.choice([ids.next(), ids.next(), rng.range(0, U64), U64])
    if replayable:
        ctx, et, omit_id = "c1", rng.choice(["t", "order_created", "evénement"]), False
        eid = rng.choice([ids.next(), rng.range(1, U64)])
    pairs, desc = [], []
    for k, t, d in extra:
        pairs.append(f"{jstr(k, rng)}:{t}")
        desc.append(f"{hb(k.encode('utf-8'))}@{d}")
    for _ in range(rng.choice([0, 1, 1, 2, 3, 5])):
        k = rng.choice(KEYS)
        t, d = gen_value(rng)
        pairs.append(f"{jstr(k, rng)}:{t}")
        desc.append(f"{hb(k.encode('utf-8'))}@{d}")
    sp = " " if rng.chance(1, 8) else ""
    fields = [f'"timestamp":{sp}{ts}', f'"context_id":{sp}{jstr(ctx, rng)}', f'"event_type":{sp}{jstr(et, rng)}',
              f'"payload":{sp}{{{("," + sp).join(pairs)}}}']
    if not omit_id:
        fields.append(f'"event_id":{sp}{eid}')
    if rng.chance(1, 10):
        fields.insert(rng.below(len(fields) + 1), '"extra":[1,{"x":"y"}]')
    if rng.chance(1, 8):
        fields = sorted(fields, key=lambda _: rng.next())
    raw = (sp + "{" + ("," + sp).join(fields) + "}" + sp).encode("utf-8")
    d = f"E/{ts}/{hb(ctx.encode('utf-8'))}/{hb(et.encode('utf-8'))}/{eid}/{'+'.join(desc)}"
    return raw, d


JUNK = [b'{"test": 1}', b"not json", b"{}", b"null", b"[1,2]", b"42", b'"str"',
        b'{"timestamp":-1,"context_id":"c","event_type":"t","payload":{},"event_id":1}',
        b'{"timestamp":1.0,"context_id":"c","event_type":"t","payload":{},"event_id":1}',
        b'{"timestamp":"5","context_id":"c","event_type":"t","payload":{},"event_id":1}',
        b'{"timestamp":18446744073709551616,"context_id":"c","event_type":"t","payload":{},"event_id":1}',
        b'{"timestamp":5,"context_id":7,"event_type":"t","payload":{},"event_id":1}',
        b'{"timestamp":5,"context_id":"c","event_type":null,"payload":{},"event_id":1}',
        b'{"timestamp":5,"context_id":"c","event_type":"t","payload":[],"event_id":1}',
        b'{"timestamp":5,"context_id":"c","event_type":"t","payload":null,"event_id":1}',
        b'{"timestamp":5,"context_id":"c","event_type":"t","payload":{},"event_id":null}',
        b'{"timestamp":5,"context_id":"c","event_type":"t","payload":{},"event_id":-1}',
        b'{"timestamp":5,"timestamp":6,"context_id":"c","event_type":"t","payload":{},"event_id":1}',
        b'{"timestamp":5,"context_id":"c","event_type":"t","payload":{},"event_id":1} x',
        b'{"timestamp":5,"context_id":"c","event_type":"t","event_id":1}',
        b'{"timestamp":5,"context_id":"c","event_type":"t","payload":{"a":1,},"event_id":1}',
        "\u200b".encode("utf-8")]
BLANK = [b"", b" ", b"\t", b"\r", b"  \r", "\u00a0".encode("utf-8"), b"   \t "]
BADUTF8 = [b"\xff", b'{"a":"\xc3"}', b"\xc3", b'{"timestamp":5,"context_id":"\xe6\x97', b"abc\x80def"]


def gen_line(rng, ids, ts=None):
    r = rng.below(20)
    if r < 15:
        return gen_entry(rng, ids, ts)
    if r == 15:
        return rng.choice(BLANK), "B"
    if r in (16, 17):
        return rng.choice(JUNK), "J"
    raw, _ = gen_entry(rng, ids, ts)     # torn copy of an entry
    cut = tear(rng, raw)
    return cut, read_torn(cut)


def tear(rng, raw):
    """a strict prefix of the line that ends inside the JSON object (so it is never a complete entry)"""
    return raw[:rng.range(1, len(raw.rstrip()) - 1)]


def read_torn(cut):
    try:
        s = cut.decode("utf-8")
    except UnicodeDecodeError:
        return "U"
    return "B" if s.strip() == "" else "J"


def gen_file(rng, ids, ts=None, allow_bad=False, torn_tail=None):
    """list of (raw, desc); a torn line (if any) is last, like a crash leaves it."""
    n = rng.choice([0, 1, 1, 2, 3, 4, 6])
    ls = [gen_line(rng, ids, ts) for _ in range(n)]
    ls = [(r, d) for r, d in ls if d != "U"]
    if torn_tail is None:
        torn_tail = rng.chance(1, 5)
    if torn_tail:
        raw, _ = gen_entry(rng, ids, ts)
        while True:
            cut = tear(rng, raw)
            if allow_bad or read_torn(cut) != "U":
                break
        ls.append((cut, read_torn(cut)))
    if allow_bad and rng.chance(1, 2):
        ls.insert(rng.below(len(ls) + 1), (rng.choice(BADUTF8), "U"))
    return ls


def wtok(kind, name, ls):
    if ls is None:
        return f"{kind}={hb(name)}=d"
    return f"{kind}={hb(name)}=f=" + ",".join(f"{hb(r)}~{d}" for r, d in ls)


def btok(kind, name, segs):
    """a file given by its bytes: segs = [(raw line, descriptor, terminator b"\\n" | b"\\r\\n" | b"")]; the table maps
    each line as the reader will see it to its descriptor"""
    content = b"".join(r + t for r, _, t in segs)
    table = {}
    for r, d, t in segs:
        if t:
            line = r + t[:-1]
            if line.endswith(b"\r"):
                line = line[:-1]
        else:
            line = r
            if not line:
                continue
        table[line] = d
    return f"{kind}={hb(name)}=b={hb(content)}=" + ",".join(f"{hb(k)}~{v}" for k, v in table.items())


def entries_of_lines(ls):
    return read_file([r for r, _ in ls])


ALIAS = [lambda i: f"wal-{i}.log", lambda i: f"wal-+{i:05d}.log", lambda i: f"wal-{i:07d}.log", lambda i: f"wal-+{i}.log",
         lambda i: f"wal-0{i:05d}.log"]
NONMATCH = [b"wal-.log", b"wal-abc.log", b"wal-00001.log.bak", b"xwal-00001.log", b"wal-00001.LOG", b"wal--1.log",
            b"wal-18446744073709551616.log", b"wal-1 .log", "wal-٣.log".encode("utf-8"), b"wal-00001.log ", b".log", b"wal-",
            b"WAL-00001.log", b"wal-1.5.log", b"wal-0x1.log", b"wal-+.log", b"wal-++1.log", b"wal-00002.wal.zst", b"notes.txt",
            b"wal-18446744073709551615.log"]


# ------------------------------------------------------------------ generator: scenarios
def mem_scalar(rng):
    r = rng.below(9)
    if r == 0:
        return "n"
    if r == 1:
        return rng.choice(["b0", "b1"])
    if r == 2:
        return f"i{rng.choice([0, -1, I64MAX, I64MIN, rng.range(-10 ** 6, 10 ** 6)])}"
    if r == 3:
        return f"f{rng.choice([fbits(1.5), fbits(-0.0), 0x7ff8000000000000, 0x7ff0000000000000, 0xfff0000000000000, 0x7ff0000000000001, fbits(1e300), 1, rng.range(0, U64)])}"
    if r == 4:
        return f"t{rng.choice([0, 1700000000, -5, I64MAX, I64MIN])}"
    if r in (5, 6):
        return "s" + hb(rng.choice(STRS).encode("utf-8"))
    b = bytes(rng.below(256) for _ in range(rng.choice([0, 1, 2, 3, 4, 5, 15, 16])))
    return "x" + hb(b)


def mem_entry(rng, ids):
    ts = rng.choice([0, 5, 1700000000, U64])
    ctx = rng.choice(["c1", "", "é"])
    et = rng.choice(["t", "x y"])
    ps = {}
    for _ in range(rng.below(4)):
        ps[rng.choice(KEYS)] = mem_scalar(rng)
    pl = "+".join(f"{hb(k.encode('utf-8'))}@{v}" for k, v in ps.items())
    return f"{ts}/{hb(ctx.encode())}/{hb(et.encode())}/{ids.next()}/{pl}"


tier_thorough = [False]


def scenario(rng, kind):
    """Returns (mode, tokens)."""
    ids = Ids()
    toks = []
    mode = "c"
    files = {}

    def put(name, ls, kindc="W"):
        toks.append(wtok(kindc, name, ls))
        if kindc == "W":
            files[name] = ls

    def populate(idset, ts=None, allow_bad=False):
        for i in idset:
            put(canonical(i), gen_file(rng, ids, ts, allow_bad=allow_bad))

    def root():
        toks.append("R=" + rng.choice(["m", "d", "d"]))

    def pred(name):
        i = scan_id(name)
        es = entries_of_lines(files[canonical(i)]) if canonical(i) in files and files[canonical(i)] is not None else None
        return predicted_archive_name(i, es) if es is not None else None

    n = rng.range(1, 6)
    idset = sorted(set(rng.below(8) for _ in range(n)))
    keep = rng.choice([0, 1, max(idset), max(idset) + 1, max(idset) + 1, rng.below(10), U64])

    if kind == "basic":
        root(); populate(idset); toks += [f"C={keep}", "REC"]
    elif kind == "plain":
        mode = "p"
        root(); populate(idset, allow_bad=rng.chance(1, 4))
        if rng.chance(1, 3):
            put(canonical(rng.below(8)), None)
        if rng.chance(1, 3):
            put(rng.choice(ALIAS)(rng.choice(idset)).encode(), gen_file(rng, ids))
        if rng.chance(1, 3):
            toks.append("R=f")
        toks += [f"C={keep}", "REC"]
    elif kind == "squat":
        toks.append("R=d"); populate(idset)
        victims = [canonical(i) for i in idset if rng.chance(1, 2)] or [canonical(idset[0])]
        for v in victims:
            p = pred(v)
            toks.append(f"A={hb(p)}=d")
        if rng.chance(1, 3):
            toks.append(f"A={hb(b'wal-00000-1-2.wal.zst')}=d")
        toks += [f"C={keep}", "REC"]
    elif kind == "retry":
        # partial failure, then the obstacle is removed and the cleanup repeated
        toks.append("R=d"); populate(idset)
        v = canonical(rng.choice(idset))
        p = pred(v)
        toks += [f"A={hb(p)}=d", f"C={max(idset) + 1}", f"AR={hb(p)}"]
        if rng.chance(1, 2):
            nid = max(idset) + 1
            put(canonical(nid), gen_file(rng, ids))
        toks += [f"C={max(idset) + 1}", "REC"]
    elif kind == "rootfile":
        populate(idset); toks += ["R=f", f"C={keep}", "REC"]
    elif kind == "badfile":
        root(); populate(idset)
        v = rng.choice(idset)
        if rng.chance(1, 2):
            put(canonical(v), None)
        else:
            ls = gen_file(rng, ids, allow_bad=True)
            if not any(d == "U" for _, d in ls):
                ls.append((rng.choice(BADUTF8), "U"))
            put(canonical(v), ls)
        toks += [f"C={keep}", "REC"]
    elif kind == "alias":
        root(); populate(idset)
        for _ in range(rng.range(1, 2)):
            i = rng.choice(idset + [rng.below(9)])
            put(rng.choice(ALIAS)(i).encode(), gen_file(rng, ids))
        toks += [f"C={keep}", "REC"]
    elif kind == "names":
        root(); populate(idset)
        for _ in range(rng.range(1, 4)):
            put(rng.choice(NONMATCH), gen_file(rng, ids) if rng.chance(3, 4) else None)
        toks += [f"C={rng.choice([keep, U64])}", "REC"]
    elif kind == "wide":
        root()
        idset = sorted(set(rng.choice([9999, 99998, 99999, 100000, 100001, 123456, 1000000, 7]) for _ in range(rng.range(2, 4))))
        populate(idset)
        toks += [f"C={rng.choice([max(idset) + 1, U64, 100000])}", "REC"]
    elif kind == "mismatch":
        root(); toks.append("XD")
        if rng.chance(1, 2):
            populate(idset)
        for i in sorted(set(rng.below(8) for _ in range(rng.range(1, 4)))):
            put(canonical(i), gen_file(rng, ids), "X")
        toks += [f"C={keep}", "REC"]
    elif kind == "reuse":
        # two lifetimes: the WAL id restarts at 0 after the directory was emptied
        root()
        ts = 1700000000 + rng.below(3)
        same = rng.chance(2, 3)
        put(canonical(0), [gen_entry(rng, ids, ts) for _ in range(rng.range(1, 3))])
        if rng.chance(1, 2):
            put(canonical(1), gen_file(rng, ids, ts + 1))
        toks += ["C=2", "WCLR"]
        files.clear()
        put(canonical(0), [gen_entry(rng, ids, ts if same else ts + 7) for _ in range(rng.range(1, 3))])
        toks += ["C=1", "REC"]
    elif kind == "preexisting":
        toks.append("R=d"); populate(idset)
        v = canonical(rng.choice(idset))
        p = pred(v)
        if rng.chance(1, 2):
            toks.append(f"A={hb(p)}=g")
        else:
            es = "|".join(mem_entry(rng, ids) for _ in range(rng.range(1, 3)))
            toks.append(f"A={hb(p)}=a=0=1=2={es}")
        toks += [f"C={rng.choice([keep, max(idset) + 1])}", "REC"]
    elif kind == "direct":
        toks.append("R=" + rng.choice(["m", "d", "d", "f"])); populate(idset, allow_bad=rng.chance(1, 3))
        if rng.chance(1, 3):
            put(canonical(rng.below(8)), None)
        if rng.chance(1, 3) and toks[0] == "R=d":
            p = pred(canonical(idset[0]))
            if p:
                toks.append(f"A={hb(p)}=d")
        for _ in range(rng.range(1, 3)):
            toks.append(f"L={rng.choice(idset + [rng.below(9), 99999, 100000])}")
        toks.append("REC")
    elif kind == "starve":
        # late I/O failure: File::create succeeds (truncating), the write fails
        toks.append("R=d"); populate(idset)
        r = rng.below(3)
        if r == 0:
            toks += ["F=0", f"C={keep}", "F=-", "REC"]
        elif r == 1:
            v = rng.choice(idset)
            toks += [f"L={v}", "F=0", f"C={max(idset) + 1}", "F=-", "REC", f"C={max(idset) + 1}", "REC"]
        else:
            p = pred(canonical(rng.choice(idset)))
            es = "|".join(mem_entry(rng, ids) for _ in range(rng.range(1, 2)))
            toks += [f"A={hb(p)}=a=0=1=2={es}", "F=0", f"C={max(idset) + 1}", f"L={rng.choice(idset)}", "F=-", "REC"]
    elif kind == "shapes":
        # what is a log entry: final-line shapes, terminators, interior blank / foreign / non-UTF-8 / very long lines,
        # with WAL replay of each file observed first (RPL) and then a cleanup of everything
        root()
        nfiles = rng.range(1, 3)
        names = []
        for i in range(nfiles):
            segs = []

            def ent(long_len=0):
                extra = ()
                if long_len:
                    v = "".join(rng.choice("abcdefghij0123456789 é") for _ in range(64)) * (long_len // 64)
                    extra = (("big", json.dumps(v, ensure_ascii=False), "s" + hb(v.encode("utf-8"))),)
                return gen_entry(rng, ids, 1700000000 + rng.below(5), replayable=True, extra=extra)

            def interior():
                r = rng.below(14)
                if r < 7:
                    return ent()
                if r == 7:
                    return rng.choice([b"", b" ", b"\t", b"   \t "]), "B"
                if r == 8:
                    return rng.choice(JUNK), "J"
                if r == 9:
                    raw, _ = ent()
                    return tear(rng, raw), None
                if r == 10:
                    return rng.choice(BADUTF8), "U"
                if r == 11:
                    return ent(rng.choice([9000, 9000, 20000] if tier_thorough[0] is False else [9000, 20000, 70000]))
                raw, _ = ent()
                return raw + rng.choice([b" x", b"}", b"{}", b",", b" 1"]), "J"

            for _ in range(rng.choice([0, 1, 2, 3, 5])):
                raw, d = interior()
                if d is None:
                    d = read_torn(raw)
                segs.append((raw, d, rng.choice([b"\n", b"\n", b"\n", b"\r\n"])))
            shape = rng.choice("aabbccddeefgh")
            if shape == "a":        # complete entry, no newline
                raw, d = ent(); segs.append((raw, d, b""))
            elif shape == "b":      # complete entry, "\r\n"
                raw, d = ent(); segs.append((raw, d, b"\r\n"))
            elif shape == "c":      # genuinely torn prefix (with or without newline)
                raw, _ = ent(); cut = tear(rng, raw); segs.append((cut, read_torn(cut), rng.choice([b"", b"", b"\n"])))
            elif shape == "d":      # whitespace only
                segs.append((rng.choice([b" ", b"  \t", b"\r", b" \r"]), "B", rng.choice([b"", b"", b"\n"])))
            elif shape == "e":      # valid JSON followed by garbage, no newline
                raw, _ = ent(); segs.append((raw + rng.choice([b" x", b"}", b"{\"a\":1}", b"\x00"]), "J", b""))
            elif shape == "f":      # empty file (only when nothing else was generated) / properly terminated file
                pass
            elif shape == "g":      # only newlines
                segs = [(b"", "B", rng.choice([b"\n", b"\r\n"])) for _ in range(rng.range(1, 2))]
            else:                   # entry, "\r" kept on an unterminated last line
                raw, d = ent(); segs.append((raw + b"\r", d, b""))
            if shape == "f" and rng.chance(1, 2):
                segs = []
            nm = canonical(i)
            names.append(nm)
            toks.append(btok("W", nm, segs))
        for nm in names:
            toks.append(f"RPL={hb(nm)}")
        toks += [f"C={nfiles}", "REC"]
    elif kind == "backlog":
        # a backlog of closed logs: many (9..40) eligible files in ONE cleaner pass.  In normal operation every flush makes
        # one more file eligible and the pass removes it; a backlog builds up while the archive volume is out of order
        # (every pass fails as a whole and correctly deletes nothing) and is worked off by the first pass after the repair,
        # or simply exists (many small logs below the cutoff).  Outage mechanisms: the archive root is a regular file
        # (repaired by R=d), a directory squats on the archive name of the oldest log (repaired by AR: the other logs are
        # archived again and again meanwhile, so the backlog is a mix of already-archived and never-archived logs), every
        # write fails late (F=0, repaired by F=-: truncated leftovers under all archive names), or no outage at all.  Logs
        # are added in bursts with a pass after each; cutoffs lie at the end, in the middle and below the backlog; recovery
        # is observed after every pass that may delete.  Judged by the model (same command stream) and by the oracle.
        mech = rng.choice(["none", "rootfile", "rootfile", "squat", "squat", "starve", "missing"])
        total = rng.choice([9, 10, 12, 13, 16, 17, 20, 24]) if rng.chance(4, 5) else rng.range(25, 40)
        nid = rng.choice([0, 0, 0, rng.below(30), 99990])

        def small_file():
            ts = 1700000000 + rng.below(50)
            ls = [gen_entry(rng, ids, ts + j) for j in range(rng.choice([0, 1, 1, 2, 3]))]
            if rng.chance(1, 10):
                ls.insert(rng.below(len(ls) + 1), (rng.choice(BLANK), "B") if rng.chance(1, 2) else (rng.choice(JUNK), "J"))
            return ls

        def burst(k):
            nonlocal nid
            out_ids = []
            for _ in range(k):
                put(canonical(nid), small_file())
                out_ids.append(nid)
                nid += 1 if rng.chance(9, 10) else rng.range(2, 4)
            return out_ids

        toks.append("R=f" if mech == "rootfile" else "R=m" if mech == "missing" else "R=d")
        done = []          # logs of an earlier, healthy pass: archived and deleted before the outage
        if mech in ("squat", "starve", "none") and rng.chance(1, 2):
            done = burst(rng.range(1, 4))
            toks += [f"C={nid}", "REC"]
        blog = burst(rng.range(1, 3))
        if mech == "squat":
            toks.append(f"A={hb(pred(canonical(blog[0])))}=d")
        elif mech == "starve":
            toks.append("F=0")
        # the outage: bursts of new logs, a pass after some of them
        while len(blog) < total:
            blog += burst(min(total - len(blog), rng.choice([1, 1, 2, 3, 5, 8, total])))
            if mech in ("rootfile", "squat", "starve") and rng.chance(1, 3):
                toks.append(f"C={rng.choice([nid, nid, blog[-1], U64])}")
        if mech in ("rootfile", "squat", "starve") and rng.chance(2, 3):
            toks += [f"C={nid}", "REC"]
        # the repair
        if mech == "rootfile":
            toks.append("R=d")
        elif mech == "squat":
            toks.append(f"AR={hb(pred(canonical(blog[0])))}")
        elif mech == "starve":
            toks.append("F=-")
        if rng.chance(1, 4):
            burst(1)                                   # the active log
        # the passes after the repair: cutoffs inside, at the end of and below the backlog
        cuts = []
        if rng.chance(1, 2):
            cuts.append(blog[rng.range(len(blog) // 2, len(blog) - 1)])     # in the middle, more than half eligible
        if rng.chance(1, 6):
            cuts.append(blog[rng.below(len(blog))])
        cuts.append(rng.choice([blog[-1] + 1, blog[-1] + 1, nid, U64]))
        if rng.chance(1, 5):
            cuts.append(rng.choice([0, blog[0], nid]))
        for k in cuts:
            toks += [f"C={k}", "REC"]
    elif kind == "zoo":
        toks.append("R=d")
        names = [b"a.zst", b"x.zst", b".zst", b"noext", b"b.ZST", b"c.wal.zst", b"wal-00000-1-1.wal.zst", b"wal-00000-1-1.wal.zst.bak",
                 b"..zst", b"wal-00003-5-9.wal.zst", b"wal-00003-10-20.wal.zst", b"zzz.zst", b"wal-100000-1-1.wal.zst", b"wal-99999-1-1.wal.zst"]
        for nm in sorted(set(rng.choice(names) for _ in range(rng.range(1, 5))), key=lambda _: rng.next()):
            r = rng.below(6)
            if r == 0:
                toks.append(f"A={hb(nm)}=d")
            elif r == 1:
                toks.append(f"A={hb(nm)}=g")
            else:
                es = "|".join(mem_entry(rng, ids) for _ in range(rng.below(3)))
                toks.append(f"A={hb(nm)}=a={rng.below(5)}={rng.below(9)}={rng.below(9)}={es}")
        if rng.chance(1, 3):
            populate(idset); toks.append(f"C={keep}")
        toks.append("REC")
    else:
        raise ValueError(kind)
    return mode, toks


KINDS = [("basic", 5), ("plain", 3), ("squat", 4), ("retry", 2), ("rootfile", 1), ("badfile", 2), ("alias", 3), ("names", 2),
         ("wide", 2), ("mismatch", 2), ("reuse", 2), ("preexisting", 2), ("direct", 2), ("zoo", 2), ("starve", 2), ("shapes", 7)]


def cases(rng, tier):
    tier_thorough[0] = tier != "quick"
    n = 2500 if tier == "quick" else 150000
    out = []
    bag = [k for k, w in KINDS for _ in range(w)]
    for _ in range(n):
        kind = rng.choice(bag)
        mode, toks = scenario(rng, kind)
        out.append({"kind": kind, "line": f"walarch_run {mode} " + " ".join(toks)})
    # malformed stream: random directory soup (names, objects, keeps) in conservative mode
    for _ in range(300 if tier == "quick" else 20000):
        ids = Ids()
        toks = ["R=" + rng.choice(["m", "d", "f"])]
        for _ in range(rng.range(0, 5)):
            r = rng.below(4)
            if r == 0:
                nm = rng.choice(NONMATCH)
            elif r == 1:
                nm = rng.choice(ALIAS)(rng.below(4)).encode()
            else:
                nm = canonical(rng.below(4))
            toks.append(wtok("W", nm, gen_file(rng, ids, allow_bad=rng.chance(1, 6)) if rng.chance(4, 5) else None))
        toks += [f"C={rng.choice([0, 1, 2, 3, 5, U64])}", "REC"]
        out.append({"kind": "soup", "line": "walarch_run c " + " ".join(toks)})
    # the MessagePack trip of single values
    for _ in range(300 if tier == "quick" else 10000):
        out.append({"kind": "rt", "line": "walarch_rt " + mem_scalar(rng)})
    # backlogs: 9..40 eligible logs in one cleaner pass, built up over failing passes and worked off after the repair
    # (generated last so that the streams above are the ones of earlier runs)
    for _ in range(90 if tier == "quick" else 4000):
        mode, toks = scenario(rng, "backlog")
        out.append({"kind": "backlog", "line": f"walarch_run {mode} " + " ".join(toks)})
    return out


# ------------------------------------------------------------------ running both sides (one process group per configuration)
def run_sides(cases_, model_ok):
    lines = [c["line"] for c in cases_]
    impl = [None] * len(lines)
    # the probe creates its directories under TMPDIR; give each run a private one and remove it afterwards
    tmp = os.path.join(vlib.WORK, f"walarch-{os.getpid()}")
    os.makedirs(tmp, exist_ok=True)
    try:
        for mode in ("c", "p"):
            idx = [i for i, l in enumerate(lines) if (l.split()[1] if l.startswith("walarch_run") else "c") == mode]
            res = vlib.run_lines(vlib.VHARN, ["fn"], [lines[i] for i in idx], timeout=900,
                                 env={"WALARCH_MODE": mode, "TMPDIR": tmp})
            for i, r in zip(idx, res):
                impl[i] = r
    finally:
        shutil.rmtree(tmp, ignore_errors=True)
    model = vlib.run_lines(vlib.MODEL_RUN, [], lines, timeout=900) if model_ok else [None] * len(lines)
    return impl, model


def same(c, impl, model):
    return impl == model


# ------------------------------------------------------------------ direct property oracle (independent of the model)
def parse_listing(s):
    out = {}
    if s in ("", "!"):
        return out
    for it in s.split(","):
        n, k = it.split(":")
        out[vlib.unhx(n)] = k
    return out


def parse_root(s):
    """ROOT:d:<items> -> {name: ('d',) | ('g',) | ('a', id, start, end, count, [entries])}"""
    out = {}
    body = s[len("ROOT:d:"):]
    if not body:
        return out
    for it in body.split(","):
        f = it.split(":", 6)
        nm = vlib.unhx(f[0])
        if f[1] == "a":
            out[nm] = ("a", int(f[2]), int(f[3]), int(f[4]), int(f[5]), f[6].split("|") if f[6] else [])
        else:
            out[nm] = (f[1],)
    return out


def rt_expected(s):
    k, r = s[0], s[1:]
    if k == "t":
        return "i" + r
    if k == "x":
        return "s" + hb(base64.b64encode(vlib.unhx(r)))
    if k == "f":
        b = int(r)
        return "n" if (b >> 52) & 0x7ff == 0x7ff else s
    return s


def judge(c, impl):
    """list of (why, class) — every property failure visible in the implementation's output."""
    line = c["line"]
    t = line.split()
    fails = []
    if impl in ("PANIC", "ABORT", None) or impl.startswith("MODE_MISMATCH") or impl == "BADCMD":
        return [(f"implementation {impl}", None)]
    if t[0] == "walarch_rt":
        # a value that can occur in a WAL line must come back unchanged; the in-memory-only variants must
        # come back as the value their JSON spelling reads as
        if impl != rt_expected(t[1]):
            fails.append((f"value {t[1]} came back from the archive encoding as {impl}", None))
        return fails
    mode = t[1]
    obs = impl.split(";")
    oi = 0
    wal, xwal = {}, {}
    use_x = False
    root_kind = "m"
    squat = set()
    pre = {}           # pre-existing decodable archives put by the case: name -> entries after the trip
    deleted = []       # dicts: name, id, entries, round, via_x
    archived_ok = []   # (round, id, entries, name) of every log archive_log (L) reported as archived
    touched = set()    # archive names some cleanup round or L may have written (predicted from the inputs)
    rnd = 0
    rpl = {}           # (dir, name) -> entries the real WAL replay restored from that file (RPL)
    starve = False     # F=0: every write to a regular file fails (after File::create truncated the target)
    last_rec = None
    rec_is_last = False
    mid_recs = []      # every recovery observed: (output, round it follows, number of logs deleted so far)
    for tok in t[2:]:
        rec_is_last = False
        if tok == "XD":
            use_x = True
            continue
        if tok == "WCLR":
            wal = {}
            continue
        if tok == "REC":
            last_rec = obs[oi][4:]
            oi += 1
            rec_is_last = True
            mid_recs.append((last_rec, rnd, len(deleted)))
            continue
        k, v = tok.split("=", 1)
        if k == "R":
            root_kind = v
            squat = set()
            pre = {}
        elif k == "A":
            f = v.split("=", 5)
            nm = vlib.unhx(f[0])
            squat.discard(nm)
            pre.pop(nm, None)
            if f[1] == "d":
                squat.add(nm)
            elif f[1] == "a":
                pre[nm] = [mem_entry_after_trip(e) for e in f[5].split("|")] if f[5] else []
        elif k == "F":
            starve = v == "0"
        elif k == "AR":
            squat.discard(vlib.unhx(v))
            pre.pop(vlib.unhx(v), None)
        elif k in ("W", "X"):
            f = v.split("=", 3)
            d = wal if k == "W" else xwal
            if f[1] == "d":
                d[vlib.unhx(f[0])] = None
            elif f[1] == "b":
                # the bytes of the file; its lines are derived here, not taken from the case's table
                d[vlib.unhx(f[0])] = py_lines(vlib.unhx(f[2]))
            else:
                body = "=".join(f[2:])
                content = b"".join(vlib.unhx(l.split("~")[0]) + b"\n" for l in body.split(",")) if body else b""
                d[vlib.unhx(f[0])] = py_lines(content)
            rpl.pop((k, vlib.unhx(f[0])), None)
        elif k == "RPL":
            o = obs[oi]
            oi += 1
            nm = vlib.unhx(v)
            src = xwal if use_x else wal
            if o != "RPL:none" and src.get(nm) is not None:
                got = o[4:].split("|") if o[4:] else []
                rpl[("X" if use_x else "W", nm)] = got
                ref = replay_file(src[nm])
                # the reference reader of this oracle against the real WalRecovery (entries replay keeps as they are)
                if all(e.split("/")[3] != "0" and vlib.unhx(e.split("/")[1]).strip() and vlib.unhx(e.split("/")[2]).strip() for e in ref):
                    if memtable_order(ref) != got:
                        fails.append((f"WAL replay of {nm.decode('utf-8', 'replace')} restores {len(got)} entries, the oracle's reader {len(ref)}: "
                                      f"the oracle's notion of a log entry is not the implementation's", None))
        elif k == "L":
            o = obs[oi]
            oi += 1
            i = int(v)
            if not o.startswith("L:ok:") and wal.get(canonical(i)) is not None and read_file(wal[canonical(i)]) is not None \
                    and root_kind != "f":
                touched.add(predicted_archive_name(i, read_file(wal[canonical(i)])))
            if o.startswith("L:ok:"):
                if starve:
                    fails.append((f"archive_log({i}) reported success although writes fail", None))
                raws = wal.get(canonical(i))
                es = read_file(raws) if raws is not None else None
                if es is None:
                    fails.append((f"archive_log({i}) reported success although the log cannot be read", None))
                else:
                    archived_ok.append((rnd, i, es, vlib.unhx(o[5:])))
                    touched.add(predicted_archive_name(i, es))
        elif k == "C":
            rnd += 1
            keep = int(v)
            o = obs[oi][2:]
            oi += 1
            target = xwal if use_x else wal
            after = parse_listing(o.split("/")[1] if use_x else o.split("/")[0])
            gone = [n for n in target if n not in after]
            if mode == "c":
                # which injected faults apply to this round (derived from the inputs only)
                fault = first_fault = None
                # eligible = the canonically named logs below keep in the directory being cleaned
                for n in target:
                    fault = None
                    i = scan_id(n)
                    if i is None or not i < keep or n != canonical(i):
                        continue
                    cn = n
                    if target[cn] is None:
                        fault = f"{cn!r} is a directory"
                    elif read_file(target[cn]) is None:
                        fault = f"{cn!r} has a line that is not UTF-8"
                    elif root_kind == "f":
                        fault = "the archive directory path is a regular file"
                    elif predicted_archive_name(i, read_file(target[cn])) in squat:
                        fault = f"a directory occupies the archive name of {cn!r}"
                    else:
                        touched.add(predicted_archive_name(i, read_file(target[cn])))
                        if starve:
                            fault = f"writing the archive of {cn!r} fails (file size limit 0)"
                    if fault and first_fault is None:
                        first_fault = fault
                fault = first_fault
                if fault and gone:
                    fails.append((f"round {rnd}: {[g.decode('utf-8', 'replace') for g in gone]} deleted although archiving failed ({fault})", None))
                for n in gone:
                    raws = target[n]
                    i = scan_id(n)
                    es = read_file(raws) if raws is not None else None
                    deleted.append({"name": n, "id": i, "entries": es, "round": rnd, "via_x": use_x,
                                    "replayed": rpl.get(("X" if use_x else "W", n))})
                if not fault and root_kind != "f":
                    root_kind = "d"
            for n in gone:
                del target[n]
    final_root = [o for o in obs if o.startswith("ROOT:")][-1]
    archives = parse_root(final_root) if final_root.startswith("ROOT:d") else {}
    decodable = {n: a for n, a in archives.items() if a[0] == "a"}

    def pname(d):
        return predicted_archive_name(d["id"], d["entries"]) if d["entries"] is not None else None

    # P1: every deleted log has, at the end, an archive holding exactly its entries in order
    for d in deleted:
        if d["entries"] is not None and any(a[5] == d["entries"] and a[1] == d["id"] for a in decodable.values()):
            continue
        # fixed since 1c3fa90 / db8e58e: a foreign file name or a cleaner on its own directory is no excuse any more
        if d["entries"] is not None and any(o is not d and o["entries"] is not None and pname(o) == pname(d) and o["round"] > d["round"] for o in deleted):
            cls = "ArchiveNameReused"
        else:
            cls = None
        what = f"{len(d['entries'])} entries" if d["entries"] is not None else "not archivable: invalid UTF-8"
        fails.append((f"log {d['name'].decode('utf-8', 'replace')} ({what}) was deleted in round {d['round']} "
                      f"but no archive holds its entries at the end", cls))
    # P6: every entry the real WAL replay restored from a deleted file is in an archive of that log, in replay order
    for d in deleted:
        if d.get("replayed"):
            ok = False
            for a in decodable.values():
                if a[1] != d["id"]:
                    continue
                it = iter(memtable_order(a[5]))
                if all(any(x == e for x in it) for e in d["replayed"]):
                    ok = True
            if not ok and not any(w.startswith(f"log {d['name'].decode('utf-8', 'replace')} ") for w, _ in fails):
                fails.append((f"log {d['name'].decode('utf-8', 'replace')} was deleted but an entry WAL replay restores from it is in no archive", None))
    # P4: a decodable archive that existed before is still there (name and entries) unless the case removed it
    for nm, es in pre.items():
        a = archives.get(nm)
        if a is None or a[0] != "a" or a[5] != es:
            reused = nm in touched
            fails.append((f"pre-existing archive {nm.decode('utf-8', 'replace')} lost its entries", "ArchiveNameReused" if reused else None))
    # P3: recovery returns the deleted logs' entries, each log's block in order, blocks in log order
    if rec_is_last and mode == "c":
        if last_rec == "err":
            if root_kind != "f":
                fails.append(("recover_all failed although the archive directory is a directory or missing", None))
        else:
            rec = last_rec.split("|") if last_rec else []
            # P5: a decodable archive with the .zst extension that is still in place is returned by recovery
            for nm, es in pre.items():
                a = archives.get(nm)
                if nm.endswith(b".zst") and len(nm) > 4 and a is not None and a[0] == "a" and a[5] == es and es:
                    if not any(rec[s0:s0 + len(es)] == es for s0 in range(len(rec) - len(es) + 1)):
                        fails.append((f"recover_all does not return the entries of archive {nm.decode('utf-8', 'replace')}", None))
            pos = 0
            p1_failed = any(w.startswith("log ") for w, _ in fails)
            for d in sorted([d for d in deleted if d["entries"] is not None], key=lambda d: (d["id"], d["round"])):
                es = d["entries"]
                found = None
                for s in range(pos, len(rec) - len(es) + 1):
                    if rec[s:s + len(es)] == es:
                        found = s
                        break
                if found is None:
                    if p1_failed:
                        continue      # already reported by P1 with its class
                    # fixed since 06752f6: ids of any width must come back in id order
                    fails.append((f"recover_all does not return the entries of log {d['name'].decode('utf-8', 'replace')} in log order", None))
                    break
                pos = found + len(es)
    # P7: the same after EVERY cleaner pass, not only at the end of the history: what recover_all returned right after
    # a pass contains the entries of every log deleted up to then, each log's block in order, blocks in log order
    # (a later pass may well repair a hole by archiving again; the property speaks about the moment of the deletion)
    if mode == "c" and not fails:
        for out, r, ndel in (mid_recs[:-1] if rec_is_last else mid_recs):
            if out == "err":
                continue
            rec = out.split("|") if out else []
            pos = 0
            for d in sorted([d for d in deleted[:ndel] if d["entries"] is not None], key=lambda d: (d["id"], d["round"])):
                es = d["entries"]
                found = next((s0 for s0 in range(pos, len(rec) - len(es) + 1) if rec[s0:s0 + len(es)] == es), None)
                if found is None:
                    fails.append((f"after round {r}: recover_all does not return the entries of the deleted log "
                                  f"{d['name'].decode('utf-8', 'replace')} in log order", None))
                    break
                pos = found + len(es)
            if fails:
                break
    return fails


def mem_entry_after_trip(e):
    f = e.split("/", 4)
    ps = {}
    if f[4]:
        for kv in f[4].split("+"):
            k, v = kv.split("@")
            ps[vlib.unhx(k)] = rt_expected(v)
    return "/".join(f[:4]) + "/" + "+".join(f"{hb(k)}@{ps[k]}" for k in sorted(ps))


_cache = {}


def _judge(c, impl):
    key = (c["line"], impl)
    if key not in _cache:
        if len(_cache) > 50000:
            _cache.clear()
        _cache[key] = judge(c, impl)
    return _cache[key]


def _pick(fails):
    """the failure reported for a case: one without a known class first"""
    if not fails:
        return None
    for f in fails:
        if f[1] is None:
            return f
    return fails[0]


def oracle(c, impl):
    f = _pick(_judge(c, impl))
    return f[0] if f else None


def classify(c, impl):
    f = _pick(_judge(c, impl))
    return f[1] if f else None


def nontrivial_key(c, impl):
    if not impl or impl in ("PANIC", "ABORT"):
        return None
    if c["line"].startswith("walarch_rt"):
        return ("rt", impl)
    if ":a:" in impl or "L:" in impl or c["line"].split()[1] == "p" or c.get("kind") in ("squat", "rootfile", "badfile", "retry", "starve", "backlog"):
        return (c.get("kind"), impl)
    return None
