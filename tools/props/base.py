"""Defaults shared by the per-property modules."""
import glob, json, os
import vlib


def corpus_for(prop):
    out = []
    for p in sorted(glob.glob(os.path.join(vlib.VERIF, "corpus", prop, "*.json"))):
        try:
            d = json.load(open(p))
        except Exception:
            continue
        cs = d if isinstance(d, list) else d.get("cases", [d.get("case")])
        for c in cs:
            if c:
                c = dict(c)
                c.setdefault("kind", "corpus")
                out.append(c)
    return out


def run_sides_fn(cases, model_ok, tmo=900):
    lines = [c["line"] for c in cases]
    impl = vlib.run_lines(vlib.VHARN, ["fn"], lines, timeout=tmo)
    model = vlib.run_lines(vlib.MODEL_RUN, [], lines, timeout=tmo) if model_ok else [None] * len(lines)
    return impl, model
