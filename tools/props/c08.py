"""C08 (part A) — the succinct range filter never rules out a zone that holds a matching row."""
import json, os, re, struct
import vlib
from vlib import hx
from props import base

PROP = "C08"
PROPS_V = "theories/Props/C08.v"
THEOREMS = [
    "C08_be8_order", "C08_enc_i64_mono", "C08_enc_u64_mono", "C08_enc_f64_mono", "C08_f64_bits_order_is_value_order",
    "C08_same_lane_key_order", "C08_surf_keys_len8",
    "C08_trie_build_keys", "C08_trie_first_geq_spec", "C08_trie_last_leq_spec_uniform",
    "C08_trie_may_overlap_ge_exact", "C08_trie_may_overlap_le_exact_uniform",
    "C08_trie_may_overlap_le_sound_outside_known", "C08_trie_last_leq_prefix_refuted",
    "C08_surf_sound_outside_known", "C08_surf_sound_same_lane",
    "C08_surf_sound_refuted_float_lanes", "C08_surf_sound_refuted_u64_lane", "C08_surf_sound_refuted_int_vs_fraction",
    "C08_surf_sound_refuted_saturation", "C08_surf_sound_refuted_first_row",
]
RULE = ("(a) pairs of values over every ScalarValue kind and lane (Int64/Timestamp incl. i64 edges, Float64 from bit patterns: "
        "integral, non-integral, subnormal, +-0, +-inf, NaN, 2^63, >= 2^64, numeric and non-numeric strings incl. u64 above i64::MAX) "
        "-> the two keys of the real encode_value; (b) key sets of arbitrary and of uniform length x target x direction x inclusive "
        "-> real SurfTrie + zones_overlapping_*; (c) columns (1..40 zones x 0..6 rows, rows may lack the field) of 14 column kinds x "
        "operator x probe literal of every kind -> real build_all_filtered (file on disk) + RangePruner::apply_surf_only.  "
        "A case is non-trivial when the real code produced keys / a trie answer / a pruning decision (not None); distinct by "
        "(case kind, operator, probe, result)")
ASSUMPTIONS = [
    "IEEE-754 doubles are modelled as bit patterns; their value is (-1)^s*sig*2^(e-1075) scaled by 2^1074 in Z (exact); that Rust's "
    "is_finite/trunc/==/saturating `as` casts compute on that value is not proved (the differential run is the tie)",
    "str::parse::<f64> is not modelled: the generator supplies the bit pattern (CPython float()), the Rust probe rejects a case whose "
    "hint differs from the real parser (HINT_MISMATCH)",
    "the breadth-first array layout of SurfTrie and the bincode+lz4 file round trip are not modelled (tree model; differential run)",
    "the 90 % test `n as f64 >= total as f64 * 0.9` is modelled as 10*n >= 9*total (equal below 2^50 zones)",
    "rows satisfy a probe by exact numeric comparison; NaN and non-numeric values satisfy nothing",
]
TRUSTED = [
    "Coq 8.16.1 kernel + coqc; vm_compute for closed witnesses and Params side conditions; no native_compute",
    "translator tools/params/p30_surf.py (sign-flip constant, sign-bit shift, float normalisation text, threshold 0.9 / 10 zones, operator dispatch, sort+dedup, first-event key rule)",
    "extraction: ExtrOcamlBasic only; ocaml/driver.ml, conv.ml, p_surf.ml (parsing/printing)",
    "correspondence harness /verif/harness (vharn fn surf_enc/surf_enc2/surf_trie/surf_prune) built against /repo with --cfg sneldb_verif",
    "python oracle: exact int/float comparison of CPython, struct for bit patterns (independent of model and implementation)",
]

CLAIMED = True
MANIFEST = {
 "level_text": "Part A (succinct range filter). Theorems, unbounded: big-endian 8-byte keys of the i64 (sign flip), u64 and f64 (bit trick) lanes compare lexicographically exactly as the numbers do (f64: as the real values of the bit patterns, proved, not assumed); the trie built from any key list holds exactly those keys; first-key->= query exact for all key sets, last-key-<= query exact for equal-length keys and refuted for keys that are proper prefixes of the target (latent, confirmed on the real trie); the builder only inserts 8-byte keys; the builder+pruner pair returns every zone holding a row that satisfies >,>=,<,<= unless the row falls in one of three narrow known classes (row and literal encoded in different lanes; a double equal to 2^63 or >= 2^64; first event of the zone lacks the field) - each class refuted by a vm_compute witness that is replayed on the real build_all_filtered + RangePruner. Model, constants and operators are re-tied to the Rust text and run against the real functions on every check.",
 "design_ref": "DESIGN.md §6 C08",
 "level_note": "Trusted: Coq kernel; tools/params/p30_surf.py; ExtrOcamlBasic extraction + OCaml driver; the Rust harness; CPython exact int/float comparison (oracle). Not modelled: BFS array layout of the trie, file round trip, str::parse::<f64> (checked per case). Enum bitmaps, temporal indexes and xor filters are part B."
}



def _with_own_known():
    """known_findings.json is assembled from known/*.json by the maintainer (tools/gen_manifest.py); until
    known/C08.json has been merged into it, read this property's entries from known/C08.json as well."""
    orig = vlib.load_known
    if getattr(orig, "_c08", False):
        return

    def load_known(prop):
        ks = orig(prop)
        if prop == PROP:
            have = {k.get("class") for k in ks}
            try:
                own = json.load(open(os.path.join(vlib.VERIF, "known", "C08.json")))
            except OSError:
                own = []
            ks = ks + [k for k in own if k.get("property") == prop and k.get("class") not in have]
        return ks
    load_known._c08 = True
    vlib.load_known = load_known


_with_own_known()

I64_MIN, I64_MAX, U64_MAX = -2 ** 63, 2 ** 63 - 1, 2 ** 64 - 1
INT_RE = re.compile(r"^[+-]?[0-9]+$")
UINT_RE = re.compile(r"^\+?[0-9]+$")
FLT_RE = re.compile(r"^[+-]?(?:(?:[0-9]+\.?[0-9]*|\.[0-9]+)(?:[eE][+-]?[0-9]+)?|[iI][nN][fF](?:[iI][nN][iI][tT][yY])?|[nN][aA][nN])$")


def corpus():
    return base.corpus_for(PROP)


# ---------------------------------------------------------------- values (independent reading of a token)
def f2b(x):
    return struct.unpack(">Q", struct.pack(">d", x))[0]


def b2f(b):
    return struct.unpack(">d", struct.pack(">Q", b))[0]


def rust_parse_f64_bits(s):
    """bit pattern str::parse::<f64> returns, or None (grammar of core::num::dec2flt; value by CPython's
    correctly rounded float()); verified per case by the Rust probe."""
    if not FLT_RE.match(s):
        return None
    neg = s.startswith("-")
    body = s.lstrip("+-").lower()
    if body == "nan":
        return 0xFFF8000000000000 if neg else 0x7FF8000000000000
    if body in ("inf", "infinity"):
        return 0xFFF0000000000000 if neg else 0x7FF0000000000000
    return f2b(float(s))


def stok(s):
    """token of a Utf8 value"""
    b = rust_parse_f64_bits(s)
    return "s" + hx(s) + "/" + ("n" if b is None else str(b))


def tok_str(tok):
    return bytes.fromhex(tok[1:].split("/")[0].replace("-", "")).decode("utf-8")


def float_info(x):
    """(number or None, lane or None, saturated) of a double"""
    if x != x:
        return None, None, False
    if x in (float("inf"), float("-inf")):
        return x, "F", False
    if x == int(x):
        n = int(x)
        if I64_MIN <= n <= I64_MAX:
            return x, "I", False
        if n == 2 ** 63 or n >= 2 ** 64:
            return x, None, True
        if n > 0:
            return x, "U", False
        return x, "F", False
    return x, "F", False


def info(tok):
    """(number or None, lane or None, saturated) of a value token; number None = satisfies nothing"""
    h = tok[0]
    if h in "it":
        return int(tok[1:]), "I", False
    if h == "f":
        return float_info(b2f(int(tok[1:])))
    if h == "s":
        s = tok_str(tok)
        if INT_RE.match(s) and I64_MIN <= int(s) <= I64_MAX:
            return int(s), "I", False
        if UINT_RE.match(s) and int(s) <= U64_MAX:
            return int(s), "U", False
        b = rust_parse_f64_bits(s)
        if b is not None:
            return float_info(b2f(b))
        return None, None, False
    return None, None, False


def cmp_num(a, b):
    return (a > b) - (a < b)


def holds(op, a, b):
    """exact comparison a op b of two Python numbers (int/float mix is exact in CPython)"""
    return {"gt": a > b, "gte": a >= b, "lt": a < b, "lte": a <= b}.get(op, False)


# ---------------------------------------------------------------- generators
def rnd_int(rng):
    r = rng.below(10)
    if r < 3:
        return rng.range(-20, 20)
    if r < 5:
        return rng.choice([0, 1, -1, I64_MAX, I64_MIN, I64_MAX - 1, I64_MIN + 1, 2 ** 53, 2 ** 53 + 1, -(2 ** 53) - 1, 255, 256, 65535, 2 ** 32])
    if r < 8:
        w = rng.range(1, 63)
        return rng.choice([1, -1]) * rng.below(2 ** w)
    return rng.range(-1000, 1000)


def rnd_float_bits(rng):
    r = rng.below(16)
    if r < 3:
        return f2b(float(rng.range(-20, 20)))                       # small integral
    if r < 6:
        return f2b(rng.range(-40, 40) / 2 + rng.choice([0.25, 0.5, 0.125]))  # small non-integral
    if r < 7:
        return rng.choice([f2b(0.0), f2b(-0.0), 1, 0x8000000000000001, 0x000FFFFFFFFFFFFF, 0x0010000000000000])
    if r < 8:
        return rng.choice([0x7FF0000000000000, 0xFFF0000000000000, 0x7FF8000000000000, 0xFFF8000000000000, 0x7FF0000000000001])
    if r < 10:
        return rng.choice([f2b(2.0 ** 63), f2b(2.0 ** 64), f2b(2.0 ** 63 + 2048), f2b(2.0 ** 63 - 1024), f2b(-2.0 ** 63), f2b(-2.0 ** 63 - 2048),
                           f2b(2.0 ** 65), f2b(1e300), f2b(-1e300), f2b(2.0 ** 64 - 2048), f2b(2.0 ** 53), f2b(2.0 ** 53 + 2), f2b(2.0 ** 52 + 0.5)])
    if r < 12:
        e = rng.range(1000, 1100)                                    # around the integrality boundary
        return (rng.below(2) << 63) | (e << 52) | rng.below(2 ** 52)
    if r < 14:
        m = rng.choice([0, 1 << 51, 1 << rng.below(52), rng.below(2 ** 52)])
        return (rng.below(2) << 63) | (rng.range(1, 2046) << 52) | m
    return rng.below(2 ** 64)


def rnd_numstr(rng):
    r = rng.below(14)
    if r < 3:
        return str(rnd_int(rng))
    if r < 4:
        return rng.choice(["+", "", "00", "-0", "+0"]) + str(abs(rnd_int(rng)))
    if r < 7:
        return str(rng.choice([2 ** 63, 2 ** 63 + 5, U64_MAX, U64_MAX - 1, 2 ** 63 + rng.below(2 ** 62), 10 ** 19]))
    if r < 8:
        return rng.choice(["", "+"]) + str(rng.choice([2 ** 64, 2 ** 64 + 1, 10 ** 20, 10 ** 25, -2 ** 63 - 1, -10 ** 20]))
    if r < 11:
        return rng.choice(["1.5", "2.0", "-3.25", "1e3", "1E2", "2.5e1", ".5", "5.", "-.5", "1e-3", "0.0", "-0.0", "1e400", "1e-400", "123456789.125",
                           "9223372036854775808.0", "18446744073709551616.0", "1.7", "-1.7", "+2.5"])
    if r < 12:
        return rng.choice(["inf", "-inf", "nan", "NaN", "-nan", "Infinity", "+inf", "INF"])
    return f"{rng.range(-50, 50)}.{rng.choice(['0', '5', '25', '00', '75'])}"


def rnd_junk(rng):
    return rng.choice(["abc", "", " 1", "1 ", "0x10", "1_0", "١٢", "é", "+", "-", "--1", "1e", "e5", ".", "true", "1,5", "1.5.2", "infinit", "na", "12a"])


def rnd_value(rng):
    """a value token of any kind"""
    r = rng.below(20)
    if r < 5:
        return "i" + str(rnd_int(rng))
    if r < 6:
        return "t" + str(rnd_int(rng))
    if r < 12:
        return "f" + str(rnd_float_bits(rng))
    if r < 17:
        return stok(rnd_numstr(rng))
    if r < 18:
        return stok(rnd_junk(rng))
    return rng.choice(["b0", "b1", "n", "x"])


COLUMN_KINDS = ["int", "ts", "u64", "float_frac", "float_int", "float_mixed", "float_special", "int_float_mixed",
                "numstr_i", "numstr_f", "optional_int", "optional_float", "poisoned", "anything"]


def clamp(n):
    return max(I64_MIN, min(I64_MAX, n))


def column_value(kind, rng, base_):
    if kind in ("int", "optional_int"):
        return "i" + str(clamp(base_ + rng.range(-8, 8)))
    if kind == "ts":
        return "t" + str(clamp(1700000000 + base_ * 3600 + rng.range(-4000, 4000)))
    if kind == "u64":
        return stok(str(2 ** 63 + (base_ % 1000) + rng.range(0, 30)))
    if kind == "float_frac":
        return "f" + str(f2b(base_ + rng.range(-8, 8) + rng.choice([0.5, 0.25, 0.75])))
    if kind == "float_int":
        return "f" + str(f2b(float(base_ + rng.range(-8, 8))))
    if kind in ("float_mixed", "optional_float"):
        return "f" + str(f2b(base_ + rng.range(-8, 8) + rng.choice([0.0, 0.0, 0.5, 0.25])))
    if kind == "float_special":
        return "f" + str(rnd_float_bits(rng))
    if kind == "int_float_mixed":
        return rng.choice(["i" + str(clamp(base_ + rng.range(-8, 8))), "f" + str(f2b(base_ + rng.range(-8, 8) + 0.5))])
    if kind == "numstr_i":
        return stok(rng.choice(["", "", "+", "0"]) + str(abs(base_) + rng.range(0, 16)))
    if kind == "numstr_f":
        return stok(f"{base_ + rng.range(-8, 8)}.{rng.choice(['5', '25', '0', '75'])}")
    if kind == "poisoned":
        return rng.choice(["i" + str(clamp(base_ + rng.range(-8, 8)))] * 6 + ["n", "b1", stok("abc"), "x", stok("")])
    return rnd_value(rng)


def gen_prune(rng, kind=None, many=False):
    kind = kind or rng.choice(COLUMN_KINDS)
    nz = rng.range(11, 40) if many else rng.choice([1, 1, 2, 3, 4, 5, 8, 10, 11, 12])
    center = rng.choice([0, 0, 5, -30, 1000, -1000, 2 ** 40, I64_MAX - 40, I64_MIN + 40]) if kind not in ("float_frac", "float_int", "float_mixed", "optional_float", "numstr_f", "int_float_mixed") \
        else rng.choice([0, 0, 5, -30, 1000, -1000])
    ids = list(range(nz))
    if rng.chance(1, 3):                                  # zone ids out of order, with gaps
        ids = [i * rng.range(1, 3) + rng.below(2) * 100 for i in ids]
        for i in range(len(ids) - 1, 0, -1):
            j = rng.below(i + 1)
            ids[i], ids[j] = ids[j], ids[i]
    zones, allv = [], []
    spread = rng.choice([0, 1, 5, 20])
    for zi in range(nz):
        base_ = center + (zi * spread if not many else rng.range(0, 3))
        nrows = rng.choice([0, 1, 1, 2, 3, 3, 4, 6]) if not many else rng.choice([1, 2, 3])
        rows = []
        for _ in range(nrows):
            if kind.startswith("optional") and rng.chance(1, 3):
                rows.append("_")
            elif kind == "anything" and rng.chance(1, 8):
                rows.append("_")
            else:
                v = column_value(kind, rng, base_)
                if rows and rng.chance(1, 5):             # duplicates inside a zone
                    v = rng.choice(rows)
                rows.append(v)
                if v != "_":
                    allv.append(v)
        zones.append((ids[zi], rows))
    # probe: near a stored value, or anything
    op = rng.choice(["gt", "gte", "lt", "lte"] * 6 + ["eq", "neq", "in"])
    r = rng.below(12)
    nums = [info(v)[0] for v in allv if info(v)[0] is not None and info(v)[0] == info(v)[0] and abs(info(v)[0]) < 2 ** 70]
    if many and nums and rng.chance(3, 4):
        lo = int(min(nums)) - 3
        hi = int(max(nums)) + 3
        if op in ("gt", "gte"):
            probe = "i" + str(max(I64_MIN, lo)) if kind not in ("u64",) else stok(str(max(0, lo)))
        else:
            op = rng.choice(["lt", "lte"])
            probe = "i" + str(min(I64_MAX, hi)) if kind not in ("u64",) else stok(str(min(U64_MAX, hi)))
    elif nums and r < 8:
        x = rng.choice(nums)
        xi = int(x)
        d = rng.choice([0, 0, 1, -1, 2, -3])
        c = rng.below(6)
        if c == 0 and I64_MIN <= xi + d <= I64_MAX:
            probe = "i" + str(xi + d)
        elif c == 1:
            probe = "f" + str(f2b(float(xi + d)))
        elif c == 2:
            probe = "f" + str(f2b(float(xi) + d + rng.choice([0.5, 0.25, -0.25, 0.7])))
        elif c == 3:
            probe = rng.choice(allv)
        elif c == 4:
            probe = stok(str(xi + d))
        else:
            probe = stok(f"{xi + d}.{rng.choice(['0', '5', '7'])}")
    else:
        probe = rnd_value(rng)
    line = f"surf_prune {op} {probe} " + " ".join("z " + str(i) + ("" if not rows else " " + " ".join(rows)) for i, rows in zones)
    return {"kind": "prune_" + kind + ("_many" if many else ""), "line": line}


def gen_threshold(rng):
    """exactly at / just below the 90 % boundary, 9..120 zones"""
    total = rng.choice([9, 10, 11, 12, 19, 20, 21, 29, 30, 31, 40, 50, 59, 60, 100, 110, 120, rng.range(11, 120)])
    m0 = -(-9 * total // 10)                      # ceil(0.9 * total)
    matched = max(0, min(total, m0 + rng.choice([0, 0, -1, -1, 1, -2])))
    hit = [True] * matched + [False] * (total - matched)
    for i in range(len(hit) - 1, 0, -1):
        j = rng.below(i + 1)
        hit[i], hit[j] = hit[j], hit[i]
    op = rng.choice(["gt", "gte", "lt", "lte"])
    hi, lo = ("i10", "i0") if op in ("gt", "gte") else ("i0", "i10")
    zones = " ".join(f"z {i} {hi if h else lo}" + (" " + rng.choice([hi, lo]) if h and rng.chance(1, 4) else "") for i, h in enumerate(hit))
    return {"kind": "prune_threshold", "line": f"surf_prune {op} i5 {zones}"}


def rnd_key(rng, n=None, alpha=None):
    n = rng.range(0, 4) if n is None else n
    alpha = alpha or [0, 1, 2, 97, 98, 255]
    return bytes(rng.choice(alpha) for _ in range(n))


def gen_trie(rng):
    mode = rng.below(4)
    alpha = rng.choice([[0, 1], [97, 98, 99], [0, 1, 2, 97, 98, 255], list(range(256))])
    if mode == 0:            # uniform length (what the builder produces), 8 bytes with long shared prefixes
        n = 8
        pre = rnd_key(rng, rng.range(0, 7), alpha)
        keys = [(pre + rnd_key(rng, 8, alpha))[:8] for _ in range(rng.range(0, 8))]
        target = (rng.choice(keys) if keys and rng.chance(1, 2) else (pre + rnd_key(rng, 8, alpha))[:8])
        if rng.chance(1, 3) and target:
            t = bytearray(target)
            i = rng.below(len(t))
            t[i] = max(0, min(255, t[i] + rng.choice([-1, 1])))
            target = bytes(t)
    elif mode == 1:          # uniform short length
        n = rng.range(0, 3)
        keys = [rnd_key(rng, n, alpha) for _ in range(rng.range(0, 8))]
        target = rnd_key(rng, n, alpha)
    else:                    # mixed lengths, prefix-related keys, target of any length
        keys = [rnd_key(rng, None, alpha) for _ in range(rng.range(0, 7))]
        if keys and rng.chance(1, 2):
            k = rng.choice(keys)
            keys.append(k + rnd_key(rng, rng.range(1, 2), alpha))
        target = rnd_key(rng, rng.range(0, 5), alpha)
        if keys and rng.chance(1, 2):
            target = rng.choice(keys) + rnd_key(rng, rng.range(0, 2), alpha)
    d = rng.choice(["ge", "le"])
    incl = rng.choice(["0", "1"])
    line = f"surf_trie {d} {incl} {hx(target)} " + " ".join(hx(k) for k in keys)
    return {"kind": "trie_uniform" if mode < 2 else "trie_mixed", "line": line.strip()}


def gen_trie_wide(rng):
    """nodes with very many children (up to all 256 byte values at one position, at one or two depths): the
    breadth-first array layout of the real trie (degrees, child offsets, SIMD label search over long label runs) is a
    representation the model does not have; only wide nodes exercise its width limits"""
    pre = rnd_key(rng, rng.range(0, 6), [0, 1, 127, 128, 255])
    width = rng.choice([256, 256, 255, 200, 129, 64, 33])
    pool = list(range(256))
    for i in range(width):
        j = i + rng.below(256 - i)
        pool[i], pool[j] = pool[j], pool[i]
    first = sorted(pool[:width])
    tail_len = rng.range(0, 2)
    keys = []
    for b in first:
        keys.append(pre + bytes([b]) + rnd_key(rng, tail_len, [0, 7, 255]))
    if rng.chance(1, 3):     # a second wide node below one child of the first
        b = rng.choice(first)
        for c in range(256):
            keys.append(pre + bytes([b]) + bytes([c]) + rnd_key(rng, max(0, tail_len - 1), [0, 255]))
    n = len(pre) + 1 + tail_len
    keys = sorted(set(k[:n].ljust(n, b"\0") for k in keys))
    if rng.chance(2, 3):
        target = rng.choice(keys)
        if rng.chance(1, 2):
            t = bytearray(target)
            i = rng.below(len(t))
            t[i] = max(0, min(255, t[i] + rng.choice([-1, 1])))
            target = bytes(t)
    else:
        target = (pre + rnd_key(rng, 3, list(range(256))))[:n]
    d = rng.choice(["ge", "le"])
    incl = rng.choice(["0", "1"])
    line = f"surf_trie {d} {incl} {hx(target)} " + " ".join(hx(k) for k in keys)
    return {"kind": "trie_wide", "line": line.strip()}


def gen_enc2(rng):
    a = rnd_value(rng)
    if rng.chance(1, 3):
        # neighbour in the same lane
        n, lane, _ = info(a)
        if lane == "I" and isinstance(n, int) and I64_MIN < n < I64_MAX:
            b = "i" + str(n + rng.choice([-1, 1]))
        elif a[0] == "f":
            bits = int(a[1:])
            b = "f" + str(max(0, min(U64_MAX, bits + rng.choice([-1, 1, 1 << 52, -(1 << 52)]))))
        else:
            b = rnd_value(rng)
    else:
        b = rnd_value(rng)
    return {"kind": "enc2", "line": f"surf_enc2 {a} {b}"}


def cases(rng, tier):
    k = 1 if tier == "quick" else 40
    out = []
    for _ in range(3000 * k):
        out.append(gen_enc2(rng))
    for _ in range(3000 * k):
        out.append(gen_trie(rng))
    for kind in COLUMN_KINDS:
        for _ in range(300 * k):
            out.append(gen_prune(rng, kind))
    for _ in range(600 * k):
        out.append(gen_prune(rng, rng.choice(["int", "ts", "u64", "float_frac", "float_int", "float_mixed", "numstr_i", "optional_int"]), many=True))
    for _ in range(200 * k):
        out.append(gen_threshold(rng))
    # malformed stream: arbitrary values everywhere
    for _ in range(400 * k):
        out.append(gen_prune(rng, "anything"))
    # wide trie nodes (appended last so that the stream of the cases above is unchanged)
    for _ in range(80 * k):
        out.append(gen_trie_wide(rng))
    return out


def run_sides(cases_, model_ok):
    return base.run_sides_fn(cases_, model_ok)


# ---------------------------------------------------------------- comparison, oracle, classes
def split_model(m):
    if m is None:
        return None, ""
    parts = m.split(" | ")
    return " ".join(parts[0].split()), (parts[1].strip() if len(parts) > 1 else "")


def same(c, impl, model):
    res, aud = split_model(model)
    c["_audit"] = aud
    return " ".join((impl or "").split()) == res


def parse_prune(line):
    t = line.split()
    op, probe = t[1], t[2]
    zones, i = [], 3
    while i < len(t):
        zid = int(t[i + 1])
        i += 2
        rows = []
        while i < len(t) and t[i] != "z":
            rows.append(t[i])
            i += 1
        zones.append((zid, rows))
    return op, probe, zones


def keys_from_first_event():
    """the translated parameter (tools/params/p30_surf.py): does the builder take a zone's field set from its
    first event only?  (True on the pinned tree; False once fixes/C08-surf-first-event-keys.diff is applied)"""
    try:
        t = open(os.path.join(vlib.COQ, "theories", "Gen", "Params.v")).read()
        m = re.search(r"Definition surf_keys_from_first_event : bool := (true|false)\.", t)
        return m.group(1) == "true" if m else True
    except OSError:
        return True


def row_class(rows, v, p):
    """independent re-statement of the Coq [known_class]"""
    has_field = (bool(rows) and rows[0] != "_") if keys_from_first_event() else any(r != "_" for r in rows)
    if not has_field:
        return "SurfFirstRowLacksField"
    nv, lv, sv = info(v)
    np_, lp, sp = info(p)
    if sv or sp:
        return "SurfSaturatedFloat"
    if lv is not None and lp is not None and lv != lp:
        return "SurfCrossLane"
    return None


def missed(c, impl):
    """[(zone id, [class of each satisfying row])] for zones holding a satisfying row that impl left out"""
    op, probe, zones = parse_prune(c["line"])
    if op not in ("gt", "gte", "lt", "lte") or not impl.startswith("S"):
        return []
    got = set(int(x) for x in impl[1:].strip().split(",") if x)
    pn = info(probe)[0]
    out = []
    if pn is None:
        return out
    for zid, rows in zones:
        cl = []
        for v in rows:
            if v == "_":
                continue
            n = info(v)[0]
            if n is not None and holds(op, n, pn):
                cl.append(row_class(rows, v, probe))
        if cl and zid not in got:
            out.append((zid, cl))
    return out


def lex_holds(d, incl, k, target):
    if d == "ge":
        return k >= target if incl else k > target
    return k <= target if incl else k < target


def oracle(c, impl):
    """Direct property oracle (no model): brute-force scan."""
    if impl in ("PANIC", "ABORT", "BADCASE", "HINT_MISMATCH", "BUILD_ERR", "UNKNOWN_PROBE", "BADUTF8"):
        return f"implementation/probe answered {impl}"
    t = c["line"].split()
    if t[0] == "surf_prune":
        ms = missed(c, impl)
        if ms:
            return (f"zones {[z for z, _ in ms]} hold a row satisfying `{t[1]} {t[2]}` but the range filter returned only {impl!r}")
        return None
    if t[0] == "surf_trie":
        d, incl, target = t[1], t[2] == "1", bytes.fromhex(t[3].replace("-", ""))
        keys = [bytes.fromhex(k.replace("-", "")) for k in t[4:]]
        if impl == "0" and any(lex_holds(d, incl, k, target) for k in keys):
            return f"trie over {t[4:]} answered no overlap for {d} incl={incl} target {t[3]}"
        return None
    if t[0] == "surf_enc2":
        (na, la, sa), (nb, lb, sb) = info(t[1]), info(t[2])
        if na is None or nb is None or la is None or la != lb or sa or sb:
            return None
        ks = impl.split()
        if len(ks) != 2 or len(ks[0]) != 16 or len(ks[1]) != 16:
            return f"same-lane numeric values did not both get 8-byte keys: {impl}"
        if cmp_num(bytes.fromhex(ks[0]), bytes.fromhex(ks[1])) != cmp_num(na, nb):
            return f"keys {impl} do not compare as the numbers {na!r}, {nb!r} (lane {la})"
        return None
    return None


PRIORITY = ["SurfFirstRowLacksField", "SurfSaturatedFloat", "SurfCrossLane"]
SHORT = {"SurfFirstRowLacksField": "first", "SurfSaturatedFloat": "sat", "SurfCrossLane": "lane", None: "none"}


def classify(c, impl):
    t = c["line"].split()
    if t[0] == "surf_prune":
        ms = missed(c, impl)
        if not ms:
            return None
        # the extracted model's audit of the same result must name the same classes
        mine = ";".join(f"{z}:{'/'.join(SHORT[x] for x in cl)}" for z, cl in ms)
        if "_audit" in c and c["_audit"] != mine:
            return None
        found = set()
        for _, cl in ms:
            if any(x is None for x in cl):
                return None                      # a satisfying row outside every known class: new violation
            found.update(cl)
        for p in PRIORITY[::-1]:
            if p in found:
                return p
        return None
    if t[0] == "surf_trie":
        target = bytes.fromhex(t[3].replace("-", ""))
        keys = [bytes.fromhex(k.replace("-", "")) for k in t[4:]]
        if t[1] == "le" and any(len(k) < len(target) and target.startswith(k) for k in keys):
            return "SurfTrieProperPrefixKey"
        return None
    return None


def nontrivial_key(c, impl):
    t = c["line"].split()
    if impl is None:
        return None
    if t[0] == "surf_prune":
        return (c["kind"], t[1], t[2], impl) if impl.startswith("S") else None
    if t[0] == "surf_trie":
        return (c["kind"], c["line"]) if len(t) > 4 else None
    if t[0] == "surf_enc2":
        return (impl,) if impl not in ("N N",) else None
    return None


# ---------------------------------------------------------------------------------------------
# Part B (enum bitmaps, temporal indexes, xor keys: tools/props/c08b.py) is folded in here: one
# property, one check.  Cases are told apart by their probe prefix (surf_ = part A, zidx_ = part B).
from props import c08b as _B

_A = {"cases": cases, "same": same, "oracle": oracle, "classify": classify, "nontrivial_key": nontrivial_key,
      "corpus": corpus}
THEOREMS = list(THEOREMS) + list(_B.THEOREMS)
RULE = RULE + " || part B: " + _B.RULE
ASSUMPTIONS = list(ASSUMPTIONS) + [x for x in _B.ASSUMPTIONS if x not in ASSUMPTIONS]
TRUSTED = list(TRUSTED) + [x for x in _B.TRUSTED if x not in TRUSTED]


# Part C (the context index: tools/props/c08c.py) likewise; its cases carry the probe prefix zidx_ctx.
from props import c08c as _C

THEOREMS = THEOREMS + list(_C.THEOREMS)
RULE = RULE + " || part C: " + _C.RULE
ASSUMPTIONS = ASSUMPTIONS + [x for x in _C.ASSUMPTIONS if x not in ASSUMPTIONS]
TRUSTED = TRUSTED + [x for x in _C.TRUSTED if x not in TRUSTED]


def _isc(c):
    return c.get("line", "").startswith("zidx_ctx ")


def _part(c):
    return _C if _isc(c) else _B if _isb(c) else None


def _isb(c):
    return c.get("line", "").startswith("zidx_")


def corpus():
    return _A["corpus"]() + _B.corpus() + _C.corpus()


def cases(rng, tier):
    return _A["cases"](rng.fork("A"), tier) + _B.cases(rng.fork("B"), tier) + _C.cases(rng.fork("C"), tier)


def same(c, impl, model):
    p = _part(c)
    return p.same(c, impl, model) if p else _A["same"](c, impl, model)


def oracle(c, impl):
    p = _part(c)
    return p.oracle(c, impl) if p else _A["oracle"](c, impl)


def classify(c, impl):
    p = _part(c)
    return p.classify(c, impl) if p else _A["classify"](c, impl)


def nontrivial_key(c, impl):
    p = _part(c)
    return p.nontrivial_key(c, impl) if p else _A["nontrivial_key"](c, impl)
