"""C08 part C — the context index (ZoneIndex: event type -> context id -> zone ids) never rules out a zone
that holds a row of the probed context.

Probe `zidx_ctx` (harness/src/probes/zoneidx.rs run_ctx, ocaml/p_zoneidx.ml run_ctx): generated rows ->
ZonePlan::build_all (mode b<k>) or explicit ZonePlans (mode x) -> the REAL ZoneWriter::write_all into a temp
segment directory -> the written `{uid}.idx` loaded back by the read side's loader -> find_candidate_zones for every
probe (event type x optional context).  Judged twice: against the extracted Coq model Model/CtxIndex.v (exact
equality of the loaded index as zone sets and of every answer) and against the brute-force scan below."""
from vlib import hx
from props import base

PROP = "C08C"
THEOREMS = ["C08c_ctx_probe_sound", "C08c_ctx_probe_none_sound", "C08c_ctx_probe_exact"]
RULE = ("context index: 1..40 zones (65..4097 in the size family) of 1..k rows (k 1..8, up to 50), rows in memtable order "
        "(grouped by context, contexts sorted) cut by the planner so that contexts straddle zone boundaries, fill whole "
        "zones or share a zone; rows in arbitrary order with runs and contexts recurring in non-adjacent zones; explicit "
        "plans with gapped / shuffled / repeated zone ids, unequal zone lengths and 1..3 event types; context ids empty, "
        "non-ASCII, numeric-looking, prefix-related, differing in case or trailing blank; probes: every stored "
        "(event type, context), absent contexts (neighbours of stored ones), no context, contexts of another event type, "
        "unknown event types.  Non-trivial when some probe has a holding zone; distinct by (kind, index dump, answers)")
ASSUMPTIONS = [
    "the .idx file round trip (write_to_path_async / load_from_path, BinaryHeader) is exercised by the probe and is the identity in the model",
    "BTreeMap<String,_> is an association list by byte equality in the model; the OCaml printer sorts the dump bytewise (Rust's String order)",
    "IndexZoneSelector's materialization guard and missing-index policy are not modelled; the probe asks the loaded ZoneIndex as the selector does",
]
TRUSTED = [
    "correspondence harness /verif/harness (vharn fn zidx_ctx): ZonePlan::build_all / explicit ZonePlans -> ZoneWriter::write_all -> ZoneArtifacts::load_zone_index -> find_candidate_zones",
    "python oracle for the context index: scan of the generated zones (zone holds the context iff one of its rows carries it)",
]

CTX_POOLS = [
    ["a", "b", "c", "d", "e", "f", "g"],
    ["", "a", "ab", "abc", "b", "A", "a ", " a"],
    ["1", "2", "10", "007", "42", "-1", "1.5", "1e3", "00", "9223372036854775808"],
    ["é", "e", "日本", "日", "ü-1", "𝄞", "z", "é́"],
    ["ctx-1", "ctx-10", "ctx-2", "ctx-", "ctx", "user:1", "user:11", "u/1;2,3=4>5"],
    ["k" * 40, "k" * 41, "k", "null", "true", "~", "-", "_"],
]
EVTS = ["evt", "order_created", "evt2"]


def rust_sorted(xs):
    return sorted(xs, key=lambda s: s.encode("utf-8"))


def pick_contexts(rng, n):
    pool = list(rng.choice(CTX_POOLS))
    if rng.chance(1, 3):
        pool += rng.choice(CTX_POOLS)
    out = []
    for c in pool:
        if c not in out:
            out.append(c)
    while len(out) < n:
        out.append(f"c{len(out)}")
    for i in range(len(out) - 1, 0, -1):
        j = rng.below(i + 1)
        out[i], out[j] = out[j], out[i]
    return out[:n]


def chunk(rows, k):
    return [rows[i:i + k] for i in range(0, len(rows), k)]


def gen_flush(rng, k=None, nz=None):
    """memtable order: rows grouped by context, contexts in BTreeMap order, cut into zones of k rows"""
    k = k or rng.choice([1, 2, 2, 3, 3, 4, 5, 6, 8])
    nz = nz or rng.choice([1, 2, 3, 3, 4, 5, 6, 8, 12, 20, 40])
    total = max(1, nz * k - (rng.below(k) if rng.chance(1, 2) else 0))
    rows, ctxs = [], rust_sorted(pick_contexts(rng, rng.range(1, 8)))
    i = 0
    while len(rows) < total:
        c = ctxs[i] if i < len(ctxs) else f"zz{i:04d}"
        r = rng.below(10)
        run = 1 if r < 2 else rng.range(1, k) if r < 5 else rng.range(k, 2 * k + 1) if r < 8 else rng.range(2 * k, 4 * k + 2)
        rows += [c] * run
        i += 1
    rows = rows[:total]
    return f"b{k}", [(z, "evt", cs) for z, cs in enumerate(chunk(rows, k))], "flush"


def gen_runs(rng):
    """arbitrary row order: runs of equal contexts, contexts coming back later (non-adjacent zones)"""
    k = rng.choice([1, 2, 3, 4, 5, 7])
    nz = rng.choice([1, 2, 3, 4, 6, 9, 15])
    ctxs = pick_contexts(rng, rng.range(1, 5))
    rows = []
    while len(rows) < nz * k:
        rows += [rng.choice(ctxs)] * rng.choice([1, 1, 2, 3, k, k + 1, 2 * k])
    rows = rows[:max(1, nz * k - rng.below(k))]
    return f"b{k}", [(z, "evt", cs) for z, cs in enumerate(chunk(rows, k))], "runs"


def gen_explicit(rng):
    """explicit plans: ids with gaps / out of order / (rarely) repeated, unequal lengths, several event types"""
    nz = rng.choice([1, 2, 3, 4, 5, 8, 12])
    evts = EVTS[:rng.choice([1, 1, 1, 2, 3])]
    ctxs = pick_contexts(rng, rng.range(1, 6))
    ids = list(range(nz))
    r = rng.below(6)
    if r == 0:
        ids = [i * rng.range(1, 3) + 7 for i in ids]
    elif r == 1:
        for i in range(len(ids) - 1, 0, -1):
            j = rng.below(i + 1)
            ids[i], ids[j] = ids[j], ids[i]
    elif r == 2:
        ids = [i + rng.choice([0, 100, 65535, 2 ** 31]) for i in ids]
    if nz > 1 and rng.chance(1, 40):
        ids[-1] = ids[0]
    zones, prev = [], None
    for z in range(nz):
        n = rng.range(1, rng.choice([1, 2, 4, 8]))
        cs = []
        for _ in range(n):
            r = rng.below(10)
            if cs and r < 4:
                cs.append(cs[-1])                        # run inside the zone
            elif prev is not None and not cs and r < 7:
                cs.append(prev)                          # the previous zone's last context goes on
            else:
                cs.append(rng.choice(ctxs))
        prev = cs[-1]
        # zones of one event type are contiguous most of the time (one uid per writer), interleaved sometimes
        evt = evts[min(len(evts) - 1, z * len(evts) // nz)] if not rng.chance(1, 5) else rng.choice(evts)
        zones.append((ids[z], evt, cs))
    return "x", zones, "explicit" + ("" if len(evts) == 1 else "_multi_evt")


def gen_sized(rng, tier):
    out = []
    q = tier == "quick"
    for nz in ([65, 300] if q else [65, 130, 300, 1000, 4097]):
        k = rng.choice([1, 2, 3])
        # one context over the first half of the zones, then short ones, then one to the end
        rows = ["long-a"] * (nz * k // 2 + 1)
        i = 0
        while len(rows) < nz * k * 3 // 4:
            rows += [f"m{i:05d}"] * rng.range(1, 2 * k)
            i += 1
        rows += ["zz-long"] * (nz * k - len(rows))
        out.append((f"b{k}", [(z, "evt", cs) for z, cs in enumerate(chunk(rows, k))], "many_zones"))
    for k in ([50] if q else [50, 200, 1000]):
        rows = []
        for c in ["a", "b", "c", "d", "e"]:
            rows += [c] * rng.range(k // 2, 2 * k)
        out.append((f"b{k}", [(z, "evt", cs) for z, cs in enumerate(chunk(rows, k))], "long_zones"))
    return out


def neighbours(rng, c):
    return [c + "x", c[:-1], c.upper() if c.upper() != c else c.lower(), c + " ", c + "0", "0" + c]


def add_case(out, rng, mode, zones, kind):
    present = []
    for _, e, cs in zones:
        for c in cs:
            if (e, c) not in present:
                present.append((e, c))
    evts = []
    for _, e, _ in zones:
        if e not in evts:
            evts.append(e)
    probes = list(present)
    pset = set(present)
    for e, c in [rng.choice(present) for _ in range(3)]:
        for n in neighbours(rng, c)[:rng.range(1, 6)]:
            if (e, n) not in pset and (e, n) not in probes:
                probes.append((e, n))
    for c in ("", "absent"):
        if (evts[0], c) not in pset and (evts[0], c) not in probes:
            probes.append((evts[0], c))
    for e in evts:
        probes.append((e, None))
    # a context under another / an unknown event type
    e0, c0 = rng.choice(present)
    for e in EVTS + ["nope", "Evt", ""]:
        if e != e0 and (e, c0) not in pset and (e, c0) not in probes:
            probes.append((e, c0))
    probes.append(("nope", None))
    zs = ";".join(f"{z}:{hx(e)}:" + ",".join(hx(c) for c in cs) for z, e, cs in zones)
    ps = ",".join(f"{hx(e)}/" + ("~" if c is None else hx(c)) for e, c in probes)
    nrows = sum(len(cs) for _, _, cs in zones)
    small = nrows <= 40
    out.append({"kind": "ctx_" + kind, "line": f"zidx_ctx {mode} {zs} {ps}", "st": "ctx", "mode": mode,
                "zones": [[z, e, cs] for z, e, cs in zones], "probes": [[e, c] for e, c in probes],
                "show": (f"context index, {'planner, ' + mode[1:] + ' rows per zone' if mode != 'x' else 'explicit plans'}: "
                         + (f"zones (id, event type, contexts of the rows) = {[(z, e, cs) for z, e, cs in zones]}" if small
                            else f"{len(zones)} zones, {nrows} rows, contexts {[c for _, c in present][:6]}.."))})


def cases(rng, tier):
    out = []
    n = 450 if tier == "quick" else 12000
    for gen, share in ((gen_flush, 5), (gen_runs, 2), (gen_explicit, 3)):
        r = rng.fork(gen.__name__)
        for _ in range(n * share // 10):
            mode, zones, kind = gen(r)
            add_case(out, r, mode, zones, kind)
    r = rng.fork("sized")
    for mode, zones, kind in gen_sized(r, tier):
        add_case(out, r, mode, zones, kind)
    return out


def corpus():
    return base.corpus_for(PROP)


# ------------------------------------------------------------------ judging
def fields(s):
    d = {}
    for tok in (s or "").split(" "):
        if "=" in tok:
            k, v = tok.split("=", 1)
            d[k] = v
    return d


def zset(s):
    body = s[2:] if s.startswith("S:") else s
    return set(int(x) for x in body.split(",") if x != "")


def same(c, impl, model):
    return impl == model


def holding(c, e, ctx):
    """brute force: ids of the zones of event type e with a row of context ctx (any row when ctx is None)"""
    return set(z for z, ze, cs in c["zones"] if ze == e and (ctx is None or ctx in cs))


def oracle(c, impl):
    if impl is None or impl in ("PANIC", "ABORT") or not impl.startswith("shape="):
        return f"the context index build/load answered {impl}: {c.get('show')}"
    f = fields(impl)
    if f.get("shape") != "ok":
        return f"ZonePlan::build_all did not cut the rows into the zones the generator expected: {c.get('show')}"
    res = (f.get("res") or "").split("|")
    if len(res) != len(c["probes"]):
        return f"{len(res)} answers for {len(c['probes'])} probes: {c.get('show')}"
    bad = []
    for (e, ctx), r in zip(c["probes"], res):
        req, got = holding(c, e, ctx), zset(r)
        if req - got:
            bad.append((e, ctx, sorted(req), sorted(got)))
    if bad:
        e, ctx, req, got = bad[0]
        what = f"context {ctx!r}" if ctx is not None else "no context"
        return (f"find_candidate_zones({e!r}, {what}) on the index written by ZoneWriter::write_all reports zones {got} but "
                f"zones {req} hold a row of it (missing {sorted(set(req) - set(got))}; {len(bad)} probes of this case miss zones): "
                f"{c.get('show')}")
    return None


def classify(c, impl):
    return None


def nontrivial_key(c, impl):
    if impl is None or not impl.startswith("shape=ok"):
        return None
    if not any(holding(c, e, ctx) for e, ctx in c["probes"]):
        return None
    f = fields(impl)
    return (c["kind"], c["mode"], f.get("idx"), f.get("res"))
