"""Engine-level, oracle-only cases (no model prediction): a script of commands run on the real engine
(tools/engine.py), observations judged by a direct oracle.  Used by C09 and C10 next to their
function-level cores."""
import concurrent.futures
import engine

FIELDS = '{ k: "int", g: "string" }'


def run_script(case):
    """case: {"cfg":…, "script":[("cmd", line) | ("restart",) | ("compact", shard)], …} -> list of results"""
    e = engine.Engine(**case["cfg"])
    out = []
    try:
        e.start()
        for step in case["script"]:
            if step[0] == "cmd":
                r = e.rows(step[1])
                out.append({"status": r["status"], "rows": r["rows"], "message": r.get("message"), "error": r.get("error")})
            elif step[0] == "raw":
                r = e.cmd(step[1])
                # the answer of a planner probe is part of the observations, other controls are not
                if step[1].startswith("!rlte "):
                    out.append({"rlte": r.get("plan"), "status": None, "rows": None})
                elif step[1].startswith("!blast "):
                    out.append({"blast": r, "status": None, "rows": None})
                else:
                    out.append(None)
            elif step[0] == "slowread":
                # ("slowread", query, step point, ms): the query runs in the background while every reader that
                # reaches the step point is held there for ms milliseconds (a slow shard scan), then released
                _, q, point, ms = step[:4]
                e.cmd(f"!park {point}")
                e.cmd("!bg " + q)
                parked = e.cmd(f"!wait_parked {point} 3000").get("parked")
                e.cmd(f"!sleep {int(ms)}")
                e.cmd(f"!release {point}")
                r = engine.parse_stream(e.cmd("!join"))
                if len(step) > 4:
                    # a second step point (a parked flush) is released once the read is over
                    e.cmd(f"!release {step[4]}"); e.cmd("!flushwait")
                out.append({"status": r.get("status"), "rows": r.get("rows"), "message": r.get("message"), "error": r.get("error"),
                            "parked": parked})
            elif step[0] == "quiesce":
                e.cmd("!flushwait"); e.cmd("!wal_drained 3000"); out.append(None)
            elif step[0] == "restart":
                e.cmd("!flushwait"); e.cmd("!wal_drained 3000"); e.restart(); out.append(None)
            elif step[0] == "compact":
                for sh in range(int(case["cfg"].get("shards", 1))):
                    e.cmd(f"!compact {sh}")
                e.cmd("!sleep 40"); out.append(None)
        return {"ok": True, "res": out}
    except Exception as ex:
        return {"ok": False, "err": f"{type(ex).__name__}: {ex}", "res": out}
    finally:
        e.destroy()


def run_scripts(cases, workers=10):
    with concurrent.futures.ThreadPoolExecutor(max_workers=workers) as ex:
        return list(ex.map(run_script, cases))


def gen_population(rng, n_events, nctx, kmax):
    """events: list of (k, g, ctx); interleaved with layout steps"""
    evs, script = [], [("cmd", f"DEFINE t FIELDS {FIELDS}")]
    for i in range(n_events):
        k = rng.below(kmax)
        g = f"g{rng.below(3)}"
        c = rng.below(nctx)
        evs.append({"k": k, "g": g, "ctx": f"c{c}", "n": i})
        script.append(("cmd", f'STORE t FOR c{c} PAYLOAD {{"k": {k}, "g": "{g}"}}'))
        r = rng.below(40)
        if r == 0:
            script.append(("cmd", "FLUSH"))
        elif r == 1:
            script += [("quiesce",), ("compact",)]
        elif r == 2:
            script.append(("restart",))
    return evs, script


CFGS = [dict(fill_factor=2, event_per_zone=2, shards=1), dict(fill_factor=2, event_per_zone=2, shards=2),
        dict(fill_factor=1, event_per_zone=3, shards=3), dict(fill_factor=3, event_per_zone=1, shards=2),
        dict(fill_factor=2, event_per_zone=1, shards=1), dict(fill_factor=3, event_per_zone=3, shards=3)]
