"""C11 — published segments are immutable and appear or disappear as a whole."""
import re
from props import base, shardprop, c01, c05

PROP = "C11"
PROPS_V = "theories/Props/C11.v"
THEOREMS = ["C11_live_rows_immutable_no_crash", "C11_invariant_reachable", "C11_dirs_step", "C11_dir_created_fresh",
            "C11_live_names_complete", "C11_index_names_complete", "C11_batch_guards", "C11_ids_fresh_in_lifetime", "C11_round_outs_nodup",
            "C11_name_never_recreated", "C11_failed_batch_id_retaken_example", "C11_label_reuse_rejected_example", "C11_label_reuse_across_restart_refuted",
            "C11_ids_fresh_example",
            "C11_crash_leftover_refuted", "C11_l0_reuse_after_restart_refuted", "C11_reclaim_guard_needed", "C11_live_rows_immutable_example",
            "C11_guards_flush_example",
            "C11_index_replaced_atomically", "C11_index_save_installs_new", "C11_index_never_partial",
            "C11_index_backup_first_refuted", "C11_index_in_place_refuted", "C11_index_save_example"]
RULE = ("engine histories on one shard (STORE/FLUSH/compaction rounds/restarts, abort() at the flush and compaction "
        "step points); at every quiescent observation the harness records the sha256 of every file of every segment "
        "directory; non-trivial = at least two observations that share a segment id; distinct by (configuration, ops); "
        "compaction rounds are run with a snapshot of every directory and of segments.idx at each batch's output-written and "
        "live-list-updated step; scenarios: flush racing a compaction hand-over, a stalled file write (FIFO), read faults and "
        "index-replacement faults during a round; oracle clauses: (1) a segment seen twice has identical bytes, (2) live "
        "directories are complete, (3) a published directory stays in the index, (4) nothing published changes inside a "
        "round, (5) what the index names exists on disk, (6) inotify: segments.idx, once published, is only ever renamed onto")
ASSUMPTIONS = c05.ASSUMPTIONS
TRUSTED = c05.TRUSTED
CLAIMED = True
MANIFEST = {
 "level_text": "Theorems over the shard state machine with compaction (Model/Shard.v + Model/Compaction.v), all histories of every label (stores, flush-worker stages, WAL steps, CWrite/CIndex/CLive/CReclaim in any interleaving) from the initial state that contain no crash/restart and satisfy the step guards (the level-0 allocator stays in level 0; a CWrite output id is above level 0 and has no directory; CIndex/CLive only for an existing output directory; CReclaim only for ids that are not live, not listed and not the segment of a queued flush job): once an id is live the row list of its directory is unchanged for as long as it stays live; a step leaves an existing directory unchanged, removes it as a whole (it was neither live nor listed) or is the flush worker appending to the directory of its own unfinished job - an existing directory is never replaced; a directory appears only under an id that has none; the live list and the index only name complete directories (the flush job reached its index entry, or a compaction output written by one CWrite). A whole batch_ok batch from a C05-well-formed state satisfies the guards. Output ids within one process lifetime (former finding SegmentLabelReused, repaired by a19e65f; the flag compaction_ids_fresh_in_lifetime is regenerated from policy.rs and the proofs fail on the unrepaired text): histories with the planning-round starts marked carry the planner's bookkeeping - the index labels at every round start of the lifetime (RESET by a crash/restart label) and the output ids taken in the current round; if every CWrite satisfies batch_ok_fresh w.r.t. that bookkeeping (and the guards hold), every output id differs from every label that was in the index at any round start of the lifetime so far and from every output id taken earlier in the same round (pairwise distinct inside a round), and in a lifetime that starts from the empty store a directory that some step creates either is a flush directory whose name had no directory at any earlier state of the lifetime, or is a compaction output whose name was not listed in the index at any earlier round start - a name published once is never created again before the next restart; the former witness is evaluated: its batch [4;5]->10000 satisfies batch_ok but is rejected by batch_ok_fresh, 10002 is accepted. Limit inside a lifetime (witness, observed on the engine with an injected index-save failure): an output id whose batch did not reach its index entry is not remembered and is handed out again over the leftover, never published directory. Refuted with witnesses: across a restart the remembered labels are gone and a retired output id is handed out a second time (CompactionIdReusedAfterRestart; witness k=4, no level-0 name reused, confirmed on the engine); after a crash following FwMkdir or a partial write, restart makes the incomplete directory live (CrashLeftoverDirectoryBecomesLive); after compaction merged the level-0 segments away, crash + restart seeds the level-0 allocator from the remaining directory names and the name 0 is published again with other rows (L0IdReusedAfterCompactionAndRestart). The model is validated against the engine by trace validation; the engine oracle compares sha256 digests of every segment file between observations.",
 "design_ref": "DESIGN.md \u00a76 C11",
 "level_note": "Trusted: Coq kernel; ExtrOcamlBasic extraction + ocaml/p_shard.ml; the engine harness, tools/engine.py, tools/shardlib.py (trace -> label mapping); hooks under cfg(sneldb_verif). Granularity: a directory is its row list per segment id (files of a type exist iff a row of the type does), not bytes; byte-level immutability is checked by the engine oracle only. Completeness is state-based (no unfinished flush job of that segment), so it is not meaningful after a crash (the job queue is lost) - crash histories are covered by the refutation only. The CReclaim guard against queued flush jobs is necessary in the model (witness C11_reclaim_guard_needed); whether the engine's flush lock excludes that interleaving is not established here. name_never_recreated is stated for the first lifetime (from the empty store); later lifetimes are covered by ids_fresh_in_lifetime only. Index file replacement: the file-system steps of SegmentIndex::save are translated from the source (p25_index_save.py) and proved atomic under crashes in Model/IndexSave.v (rename atomicity and the meaning of the calls are trusted); on the implementation an inotify watcher runs with every history (oracle clause 6)."
}


SLOW_EXTS = ["rlte"]


def corpus():
    return base.corpus_for(PROP)


def cases(rng, tier):
    a = c05.cases(rng.fork("c05"), tier)
    b = [c for c in c01.cases(rng.fork("c01"), tier) if c["kind"].startswith("crash@f") or c["kind"].startswith("crash@idx")]
    for c in a:
        # crash-free compaction histories run their rounds with a snapshot at every batch's publication
        if not any(o[0] == "X" for o in c["ops"]):
            c["ops"] = [["CSNAP"] if o[0] == "C" else o for o in c["ops"]]   # (CSNAP read stays)
            c["show"] = c["show"].replace(" C ", " CSNAP ").replace(" C ", " CSNAP ")
    for c in a + b:
        c["kind"] = "c11/" + c["kind"]
    out = a + b[: max(8, len(a) // 2)]
    # a flush sits inside its segments.idx critical section (index loaded, not yet written, flush lock held) while a
    # compaction hand-over of the same shard starts: the index swap must stay atomic with respect to the flush
    for i in range(3 if tier == "quick" else 60):
        cfg = dict(rng.choice(shardprop.CFGS)); cfg["segments_per_merge"] = 2
        cap = cfg["fill_factor"] * cfg["event_per_zone"]
        nseg = rng.range(2, 3)
        ops = []
        for _ in range(nseg):
            ops += [("S", 0, rng.below(2)) for _ in range(cap)]
        ops += [("O",), ("MARKHITS", "idx_loaded"), ("MARKHITS", "cp_output_written"), ("PARK", "idx_loaded")]
        ops += [("SN", 0, rng.below(2)) for _ in range(cap)]
        # the flush holds the flush lock, has loaded segments.idx and has not written it yet; the compaction
        # writes its output and reaches its hand-over while the flush is still there
        ops += [("WAITMORE", "idx_loaded", 1), ("BGC",), ("WAITMORE", "cp_output_written", 1), ("SN", 0, 0)]
        ops += [("RELEASE", "idx_loaded"), ("JOINC",), ("SETTLE",), ("O",)]
        if rng.chance(1, 2):
            ops += [("R",), ("O",)]
        out.append(shardprop.mk_case("c11/concurrent-handover", cfg, 1, 2, ops))
    # one file of a segment is written slowly (its write blocks until DRAIN): while it is unfinished the segment must
    # not be named by segments.idx; what is observed as published must not change afterwards
    for i in range(2 if tier == "quick" else 30):
        cfg = dict(rng.choice(shardprop.CFGS))
        cap = cfg["fill_factor"] * cfg["event_per_zone"]
        # (a completed flush first: while segments.idx does not exist yet, loading it lists the directories instead)
        first = True
        ops = [("S", 0, rng.below(2)) for _ in range(cap)] if first else []
        ops += [("O",), ("SLOW", 1 if first else 0, 0, rng.choice(SLOW_EXTS))]
        ops += [("SN", 0, rng.below(2)) for _ in range(cap)]
        ops += [("SLEEP", 400), ("OP", "stalled-write"), ("DRAIN",), ("SETTLE",), ("O",)]
        out.append(shardprop.mk_case("c11/stalled-write", cfg, 1, 2, ops))
    # every history runs with an inotify watcher on the shard directories: segments.idx may only ever be replaced
    # by a rename onto it
    for c in out:
        c["watch_index"] = True
    return out


run_sides = shardprop.run_sides
same = shardprop.same
diffs = shardprop.diffs


def oracle(c, impl):
    """Direct oracle on the directories: (1) a segment id seen at two quiescent observations has
    byte-identical files (immutability; also catches an id handed out twice); (2) every directory that is
    read as live holds a complete file set (a catalog .icx and .zones per uid present)."""
    if impl.get("line") is None:
        return None
    # (6) the segment index is only ever REPLACED (a rename of the finished temporary file onto it): once a shard has
    # a segments.idx, there is no instant at which the name is moved away or deleted (a crash or an unlocked load at
    # that instant would find no index and fall back to listing directories, published or not)
    w = impl.get("idxwatch")
    if w and w.get("removed"):
        return (f"the published segment index was moved away or deleted instead of being replaced atomically: "
                f"{w['removed'][:3]} (inotify events on the shard directory, {len(w['removed'])} in this history)")
    seen = {}
    # ids that some compaction batch of this history took as inputs (they leave the index as a whole, legitimately)
    inputs = set()
    for t in re.findall(r"\bc[sw]\d*:([0-9+]+):", impl.get("line") or ""):
        inputs |= {int(x) for x in t.split("+") if x}
    ops = [tuple(x)[0] for x in c["ops"]]
    # (4) inside a compaction round: what a batch published (its directory is named by segments.idx at the batch's
    # "live list updated" step) has the same files at every later step of the round and at the next observation
    published = {}
    snaps = impl.get("snaps", []) if "HIDE" not in ops and "FAILIDX" not in ops else []   # (the injected fault renames a file itself)
    for i, sn in enumerate(snaps):
        later_obs = impl["obs"][sn["after_obs"]]["hashes"] if sn["after_obs"] < len(impl["obs"]) else None
        for seg, files in sn["hashes"].items():
            if seg in published and published[seg][1] != files:
                return (f"compaction round, step {sn['at']} (snapshot {i}): published segment {seg} differs from what it held when "
                        f"snapshot {published[seg][0]} saw it listed in segments.idx (files {sorted(set(files) ^ set(published[seg][1]))[:4]} ...): "
                        f"a published directory was written to")
            if int(seg) in sn["listed"] and files:
                published.setdefault(seg, (i, files))
        if later_obs is not None and (i + 1 == len(snaps) or snaps[i + 1]["after_obs"] != sn["after_obs"]):
            for seg, (j, files) in published.items():
                if seg in later_obs and later_obs[seg] != files:
                    return (f"obs#{sn['after_obs']}: segment {seg} differs from what it held when the compaction round published it "
                            f"(snapshot {j}; files {sorted(set(files) ^ set(later_obs[seg]))[:4]} ...)")
            published = {}
    # which directories the trace says were PUBLISHED in the first process lifetime: the k-th flush (token fb) writes
    # level-0 segment k and publishes it at its fp token (a flush that fails after writing its files - seen once in the
    # thorough tier when a flush raced a compaction hand-over - leaves a complete directory that was never published);
    # a compaction output is published at the cl token after its cw token
    toks = (impl.get("line") or "").split()
    first_life = toks[:toks.index("K")] if "K" in toks else toks
    published_ids, cur, cur_out = set(), None, None
    nflush = 0
    for t in first_life:
        if t == "fb":
            cur = nflush; nflush += 1
        elif t == "fp" and cur is not None:
            published_ids.add(cur)
        elif t.startswith("cw") and ":" in t:
            cur_out = int(t[2:].split(":")[0])
        elif t == "cl" and cur_out is not None:
            published_ids.add(cur_out)
    obs_in_first_life = first_life.count("O")
    if "HIDE" in ops:
        # the injected read fault renames a file itself (X.zones -> X.zones.hidden): not a change of the segment
        for o in impl["obs"]:
            o["hashes"] = {seg: {f.replace(".hidden", ""): h for f, h in files.items()} if isinstance(files, dict) else files
                           for seg, files in o["hashes"].items()}
    for n, o in enumerate(impl["obs"]):
        # (5) whatever segments.idx names at a quiescent observation exists on disk with files (a published segment
        # does not lose its directory)
        if "index" in o and not o.get("parked_at") and "HIDE" not in ops and "FAILIDX" not in ops:
            have = {int(sg) for sg, files in o["hashes"].items() if files}
            for e in o["index"]:
                if e[0] not in have:
                    return (f"obs#{n}: segments.idx names segment {e[0]} but its directory is missing or empty on disk "
                            f"(directories with files: {sorted(have)})")
    for n, o in enumerate(impl["obs"]):
        # (3) crash-free, fault-free histories: a complete segment directory that was published and that no compaction
        # took as an input is named by segments.idx (a published segment does not drop out of the index while its
        # files stay behind)
        if n < obs_in_first_life and "index" in o and not o.get("parked_at") and "BLOCKSEG" not in ops and "X" not in ops and "P" not in ops and "HIDE" not in ops and "FAILIDX" not in ops:
            listed = {e[0] for e in o["index"]}
            for seg, files in o["hashes"].items():
                if files and int(seg) in published_ids and int(seg) not in listed and int(seg) not in inputs and any(f.endswith(".zones") for f in files):
                    return (f"obs#{n}: segment {seg} is complete on disk and was not an input of any compaction batch, "
                            f"but segments.idx does not name it (index {sorted(listed)}): a published segment dropped out of the index")
        for seg, files in o["hashes"].items():
            if o.get("parked_at") and ("index" not in o or int(seg) not in {e[0] for e in o["index"]}):
                continue   # not a quiescent observation: only what segments.idx names counts as published
            if ("HIDE" in ops or "FAILIDX" in ops) and "index" in o and int(seg) not in {e[0] for e in o["index"]}:
                continue   # the partly written output a failed round left behind is not a published segment
            if seg in seen and seen[seg][1] != files:
                return (f"obs#{n}: segment {seg} differs from what it held at obs#{seen[seg][0]} "
                        f"(files {sorted(set(files) ^ set(seen[seg][1]))[:4]} ...): rewritten or its id was handed out again")
            seen.setdefault(seg, (n, files))
            uids = {f.split(".")[0] for f in files if f.endswith(".zones")}
            cols = {f.split("_")[0] for f in files if f.endswith(".col")}
            if o.get("after_crash") is None and cols - uids:
                return f"obs#{n}: live segment {seg} has column files of a uid without its .zones file (incomplete)"
            if not files:
                return f"obs#{n}: segment directory {seg} exists without files (unpublished leftover read as live after restart)"
    return None


def classify(c, impl, model=None):
    why = oracle(c, impl) or ""
    # SegmentLabelReused (a compaction output id handed out again within one process lifetime) was repaired by
    # a19e65f and is no longer an accepted class: such a failure is a violation
    m = re.search(r"segment (\d+) differs", why)
    ops = [tuple(o)[0] for o in c["ops"]]
    m2 = re.search(r"obs#(\d+): segment (\d+) differs from what it held at obs#(\d+)", why)
    if m2 and int(m2.group(2)) >= 10000 and impl.get("line") and model and not shardprop.diffs(c, impl, model):
        # a compaction output id handed out again in a LATER process lifetime (the planner's remembered labels
        # live in process memory): the two observations lie in different lifetimes and the planner wrote the id
        # after the restart
        n, seg, n0 = int(m2.group(1)), int(m2.group(2)), int(m2.group(3))
        life, obs_life, wrote = 0, [], set()
        for t in impl["line"].split():
            if t == "T":
                life += 1
            elif t == "O":
                obs_life.append(life)
            elif t.startswith("cw") and t[2:].split(":")[0] == str(seg):
                wrote.add(life)
        if n < len(obs_life) and obs_life[n0] != obs_life[n] and any(obs_life[n0] < l <= obs_life[n] for l in wrote):
            return "CompactionIdReusedAfterRestart"
    if m and int(m.group(1)) < 10000 and "C" in ops and ("R" in ops[ops.index("C"):] or "X" in ops):
        return "L0IdReusedAfterCompactionAndRestart"
    if "exists without files" in why or "incomplete" in why:
        return "CrashLeftoverDirectoryBecomesLive"
    return None


def nontrivial_key(c, impl):
    obs = impl.get("obs") or []
    ids = [set(o["hashes"]) for o in obs]
    if any(ids[i] & ids[j] for i in range(len(ids)) for j in range(i + 1, len(ids))):
        return c["show"]
    return None
