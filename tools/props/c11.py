"""C11 — published segments are immutable and appear or disappear as a whole."""
import re
from props import base, shardprop, c01, c05

PROP = "C11"
PROPS_V = "theories/Props/C11.v"
THEOREMS = []
RULE = ("engine histories on one shard (STORE/FLUSH/compaction rounds/restarts, abort() at the flush and compaction "
        "step points); at every quiescent observation the harness records the sha256 of every file of every segment "
        "directory; non-trivial = at least two observations that share a segment id; distinct by (configuration, ops)")
ASSUMPTIONS = c05.ASSUMPTIONS
TRUSTED = c05.TRUSTED
CLAIMED = False
MANIFEST = {}


def corpus():
    return base.corpus_for(PROP)


def cases(rng, tier):
    a = c05.cases(rng.fork("c05"), tier)
    b = [c for c in c01.cases(rng.fork("c01"), tier) if c["kind"].startswith("crash@f") or c["kind"].startswith("crash@idx")]
    for c in a + b:
        c["kind"] = "c11/" + c["kind"]
    return a + b[: max(8, len(a) // 2)]


run_sides = shardprop.run_sides
same = shardprop.same
diffs = shardprop.diffs


def oracle(c, impl):
    """Direct oracle on the directories: (1) a segment id seen at two quiescent observations has
    byte-identical files (immutability; also catches an id handed out twice); (2) every directory that is
    read as live holds a complete file set (a catalog .icx and .zones per uid present)."""
    if impl.get("line") is None:
        return None
    seen = {}
    for n, o in enumerate(impl["obs"]):
        for seg, files in o["hashes"].items():
            if seg in seen and seen[seg][1] != files:
                return (f"obs#{n}: segment {seg} differs from what it held at obs#{seen[seg][0]} "
                        f"(files {sorted(set(files) ^ set(seen[seg][1]))[:4]} ...): rewritten or its id was handed out again")
            seen.setdefault(seg, (n, files))
            uids = {f.split(".")[0] for f in files if f.endswith(".zones")}
            cols = {f.split("_")[0] for f in files if f.endswith(".col")}
            if o.get("after_crash") is None and cols - uids:
                return f"obs#{n}: live segment {seg} has column files of a uid without its .zones file (incomplete)"
            if not files:
                return f"obs#{n}: segment directory {seg} exists without files (unpublished leftover read as live after restart)"
    return None


def classify(c, impl, model=None):
    why = oracle(c, impl) or ""
    if "handed out again" in why and model and re.search(r"stalerows=[0-9]", model):
        return "SegmentLabelReused"
    m = re.search(r"segment (\d+) differs", why)
    ops = [tuple(o)[0] for o in c["ops"]]
    if m and int(m.group(1)) < 10000 and "C" in ops and ("R" in ops[ops.index("C"):] or "X" in ops):
        return "L0IdReusedAfterCompactionAndRestart"
    if "exists without files" in why or "incomplete" in why:
        return "CrashLeftoverDirectoryBecomesLive"
    return None


def nontrivial_key(c, impl):
    obs = impl.get("obs") or []
    ids = [set(o["hashes"]) for o in obs]
    if any(ids[i] & ids[j] for i in range(len(ids)) for j in range(i + 1, len(ids))):
        return c["show"]
    return None
