"""C16, PER buckets of SEQUENCES of rows in zones whose UTC offset changes (daylight saving): the aggregate sink's own
bucketing entry point (src/engine/core/read/sink/aggregate/time_bucketing.rs `bucket_of`, reached through
AggregateSink / GroupKey and through the real AggregateOp) in a process whose CONFIG [time] names the zone.

Property: the bucket of a row is the start of the local calendar unit (hour / day / week / month / year of the
configured zone and week start) that holds its instant - whatever was bucketed before it on the same thread.
Model = Model/BucketZone.v (`bucket_zone_seq`: the pure per-instant function mapped over the sequence; the zone rows
of the tz database travel on the case line), oracle = independent arithmetic over CPython's zoneinfo.

The configuration is process-global (a Lazy read from SNELDB_CONFIG), so the cases are grouped by (zone, week start)
and every group is run in `vharn fn` children started with a config file of its own."""
import bisect, datetime, os, re, zoneinfo
import vlib

UTC = datetime.timezone.utc
EPOCH = datetime.datetime(1970, 1, 1)
LO, HI = 631152000, 2145916800          # 1990 .. 2038
GRANS = ["h", "d", "w", "m", "y"]
SPAN = {"h": 3600, "d": 86400, "w": 604800, "m": 31 * 86400, "y": 366 * 86400}
# zones: northern and southern DST, switches at 01:00 UTC / 02:00 / 03:00 local, at local midnight (Havana, Santiago,
# Cairo, Beirut, Tehran), a 30-minute DST step (Lord_Howe), offsets that are not whole hours (St_Johns, Tehran,
# Kolkata, Adelaide), and zones without any change (UTC, Kolkata) where a fixed-length memo would be exact
ZONES = ["US/Eastern", "America/New_York", "America/Los_Angeles", "Europe/Berlin", "Europe/London", "Australia/Sydney",
         "Australia/Adelaide", "Australia/Lord_Howe", "Pacific/Auckland", "America/St_Johns", "America/Santiago",
         "America/Havana", "America/Sao_Paulo", "Africa/Cairo", "Asia/Beirut", "Asia/Tehran", "Asia/Kolkata", "UTC"]
WS_NAMES = ["Mon", "Tue", "Wed", "Thu", "Fri", "Sat", "Sun"]
KNOWN_CLASS = "LocalBucketStartAmbiguousOrMissingPanics"

_Z = {}


def _zone(tz):
    """(ZoneInfo, transitions [(instant, new offset)], initial offset, set of offsets) over 1989..2039, found by
    scanning zoneinfo day by day and bisecting (no knowledge of the rules)."""
    if tz in _Z:
        return _Z[tz]
    z = zoneinfo.ZoneInfo(tz)

    def off(t):
        return int(datetime.datetime.fromtimestamp(t, tz=z).utcoffset().total_seconds())
    t0 = LO - 400 * 86400
    init = off(t0)
    trs, cur, t = [], init, t0
    while t < HI + 400 * 86400:
        n = t + 86400
        o = off(n)
        while o != cur:                       # a change in (t, n]: bisect the first one
            lo, hi = t, n
            while hi - lo > 1:
                mid = (lo + hi) // 2
                if off(mid) == cur:
                    lo = mid
                else:
                    hi = mid
            cur = off(hi)
            trs.append((hi, cur))
            t = hi
        t = n
    _Z[tz] = (z, trs, init, sorted({init} | {o for _, o in trs}), off)
    return _Z[tz]


def _trunc_local(loc, g, ws):
    """start of the calendar unit of a wall-clock reading (seconds since 1970-01-01 00:00 on the wall clock)"""
    if g == "h":
        return loc - loc % 3600
    if g == "d":
        return loc - loc % 86400
    if g == "w":
        day = loc // 86400
        return (day - ((day + 3) % 7 + 7 - ws) % 7) * 86400
    d = EPOCH + datetime.timedelta(seconds=loc - loc % 86400)
    d = d.replace(day=1) if g == "m" else d.replace(month=1, day=1)
    return int((d - EPOCH).total_seconds())


def expected(tz, ts, g, ws):
    """(bucket start, n) - n = number of instants at which the wall clock shows the truncated reading (1 = ordinary;
    2 = the clock was set back over it: an hour bucket takes the occurrence the instant lies in, the other units
    start with the first; 0 = the clock jumped over it: the bucket starts with the first instant after the gap)"""
    z, trs, init, offs, off = _zone(tz)
    lb = _trunc_local(ts + off(ts), g, ws)
    cands = sorted({lb - o for o in offs if LO - 800 * 86400 < lb - o and off(lb - o) == o})
    if len(cands) == 1:
        return cands[0], 1
    if cands:
        if g == "h":
            le = [c for c in cands if c <= ts]
            return (le[-1] if le else cands[0]), len(cands)
        return cands[0], len(cands)
    lo, hi = lb - max(offs) - 1, lb - min(offs) + 1      # wall clock below lb at lo, above at hi
    while hi - lo > 1:
        mid = (lo + hi) // 2
        if mid + off(mid) < lb:
            lo = mid
        else:
            hi = mid
    return hi, 0


def _zone_token(tz, seq):
    z, trs, init, offs, off = _zone(tz)
    a, b = min(seq) - 800 * 86400, max(seq) + 40 * 86400
    cur = init
    rows = []
    for t, o in trs:
        if t <= a:
            cur = o
        elif t <= b:
            rows.append(f"{t}@{o}")
    return str(cur) + (":" + ",".join(rows) if rows else "")


def _order(rng, xs):
    r = rng.below(4)
    xs = list(xs)
    if r == 0:
        return sorted(xs)
    if r == 1:
        return sorted(xs, reverse=True)
    if r == 2:                                   # alternating: low, high, next low, next high ...
        s = sorted(xs)
        h = (len(s) + 1) // 2
        out = []
        for i in range(h):
            out.append(s[i])
            if h + i < len(s):
                out.append(s[h + i])
        return out
    for i in range(len(xs) - 1, 0, -1):          # shuffled
        j = rng.below(i + 1)
        xs[i], xs[j] = xs[j], xs[i]
    return xs


def _seq(rng, tz, g, ws):
    z, trs, init, offs, off = _zone(tz)
    inside = [t for t, _ in trs if LO + 400 * 86400 < t < HI - 400 * 86400]
    r = rng.below(8)
    if not inside or r == 0:                     # anywhere
        base = rng.range(LO + 400 * 86400, HI - 400 * 86400)
        return _order(rng, [base + rng.range(-3 * SPAN[g], 3 * SPAN[g]) for _ in range(rng.range(2, 8))])
    a = rng.choice(inside)
    if r <= 2:                                   # instants around the change itself
        pts = [a + k * 900 + rng.choice([-1, 0, 1, 899]) for k in (rng.range(-12, 12) for _ in range(rng.range(2, 8)))]
        return _order(rng, pts)
    # the buckets around the change: starts b[0] < b[1] < ... of consecutive units; rows just before / at / just after
    # every start and in the middle of every unit, so that rows of neighbouring units follow one another
    t = a - rng.range(0, 2) * SPAN[g] if g in ("h", "d", "w") else a
    starts = []
    b = expected(tz, max(LO, t - rng.range(0, SPAN[g])), g, ws)[0]
    for _ in range(4):
        starts.append(b)
        nb = expected(tz, b + SPAN[g] + 7200, g, ws)[0]
        if nb <= b:
            nb = expected(tz, b + 2 * SPAN[g], g, ws)[0]
        b = nb
    pts = []
    for _ in range(rng.range(2, 8)):
        i = rng.below(len(starts) - 1)
        k = rng.choice([0, 0, 0, 1, 2, 2, 3, 4])
        if k == 0:
            pts.append(starts[i + 1] + rng.range(0, 3599))            # first hour of the next unit
        elif k == 1:
            pts.append(starts[i + 1] - 1 - rng.range(0, 3599))        # last hour of this unit
        elif k == 2:
            pts.append(starts[i] + rng.range(0, max(1, starts[i + 1] - starts[i] - 1)))
        elif k == 3:
            pts.append(starts[i + 1] + rng.choice([-3600, -1800, -1, 0, 1, 1799, 1800, 3599, 3600, 3601]))
        else:
            pts.append(starts[i] + (starts[i + 1] - starts[i]) // 2)
    return _order(rng, pts)


def cases(rng, tier):
    out = []
    n = 320 if tier == "quick" else 12000
    # a few (zone, week start) pairs per run: every pair costs harness processes of its own
    pairs = []
    zs = list(ZONES)
    for tz in zs:
        for _ in range(1 if tier == "quick" else 3):
            p = (tz, rng.below(7))
            if p not in pairs:
                pairs.append(p)
    for _ in range(n):
        tz, ws = rng.choice(pairs)
        g = rng.choice(["h", "d", "d", "w", "w", "m", "y"])
        mode = rng.choice(["r", "k", "o", "n"])
        seq = [min(max(LO, t), HI) for t in _seq(rng, tz, g, ws)]
        exp = [expected(tz, t, g, ws) for t in seq]
        out.append({"kind": "bseq_" + g, "tz": tz, "ws": ws, "g": g, "mode": mode, "seq": seq,
                    "line": f"agg_bseq {mode} {g} {tz} {ws} {','.join(map(str, seq))} {_zone_token(tz, seq)}",
                    "expect": [e[0] for e in exp], "occurrences": [e[1] for e in exp],
                    "show": f"[time] timezone={tz} week_start={WS_NAMES[ws]}: PER {g} over rows {seq} (path {mode})"})
    return out


def is_mine(c):
    return c.get("line", "").startswith("agg_bseq")


# ------------------------------------------------------------------------------------------------ running
def _config(tz, ws):
    d = os.path.join(vlib.WORK, "bseq_cfg")
    os.makedirs(d, exist_ok=True)
    p = os.path.join(d, re.sub(r"[^A-Za-z0-9]", "_", tz) + f"_{ws}.toml")
    src = open(os.path.join(vlib.REPO, "config", "test.toml")).read()
    src = re.sub(r"\n\[time\]\n(?:[^\[\n][^\n]*\n|\n)*", "\n", src + "\n")
    src += f'\n[time]\ntimezone = "{tz}"\nweek_start = "{WS_NAMES[ws]}"\nuse_calendar_bucketing = true\n'
    tmp = p + f".{os.getpid()}"
    open(tmp, "w").write(src)
    os.replace(tmp, p)
    return p


def run_sides(cases_, model_ok):
    impl = [None] * len(cases_)
    groups = {}
    for i, c in enumerate(cases_):
        parts = c["line"].split()
        groups.setdefault((parts[3], int(parts[4])), []).append(i)
    for (tz, ws), idx in sorted(groups.items()):
        res = vlib.run_lines(vlib.VHARN, ["fn"], [cases_[i]["line"] for i in idx], timeout=600, shards=2,
                             env={"SNELDB_CONFIG": _config(tz, ws), "RUST_LOG": "off"})
        for i, r in zip(idx, res):
            impl[i] = r
    lines = [c["line"] for c in cases_]
    model = vlib.run_lines(vlib.MODEL_RUN, [], lines, timeout=600) if model_ok else [None] * len(lines)
    return impl, model


# ------------------------------------------------------------------------------------------------ judging
def same(c, impl, model):
    return impl == model


def _expect(c):
    if "expect" in c:
        return c["expect"], c["occurrences"]
    p = c["line"].split()
    e = [expected(p[3], int(t), p[2], int(p[4])) for t in p[5].split(",")]
    return [x[0] for x in e], [x[1] for x in e]


def oracle(c, impl):
    p = c["line"].split()
    mode, g, tz, seq = p[1], p[2], p[3], [int(t) for t in p[5].split(",")]
    exp, _ = _expect(c)
    show = c.get("show", c["line"])
    if impl is None or not (impl.startswith("Q ") or impl.startswith("QC ")):
        return f"{show}: the aggregation answered {impl}; the configured calendar gives the buckets {exp}"
    if mode == "n":
        want = {}
        for e in exp:
            want[e] = want.get(e, 0) + 1
        got = {}
        for tok in impl[3:].split(","):
            b, _, k = tok.partition(":")
            got[int(b)] = int(k)
        if got != want:
            return f"{show}: rows per bucket {dict(sorted(got.items()))}, the configured calendar gives {dict(sorted(want.items()))}"
        return None
    got = impl[2:].split(",")
    if len(got) != len(seq):
        return f"{show}: {len(got)} answers for {len(seq)} rows ({impl})"
    for i, (ts, a, e) in enumerate(zip(seq, got, exp)):
        if a != str(e):
            before = f" right after the row {seq[i - 1]} (bucket {got[i - 1]})" if i else " as the first row"
            loc = datetime.datetime.fromtimestamp(ts, tz=_zone(tz)[0]).isoformat()
            return (f"{show}: row {i} ts={ts} ({loc}) is put into bucket {a}{before}; the configured calendar gives {e} "
                    f"({datetime.datetime.fromtimestamp(e, tz=_zone(tz)[0]).isoformat()})")
    return None


def classify(c, impl):
    """Known class: CalendarTimeBucketer ends in `.and_local_timezone(..).unwrap()`, which panics when the wall-clock
    start of the bucket occurs twice or not at all.  Only a panic / failed aggregation on a sequence that holds such
    a row belongs to it; a wrong bucket never does."""
    _, occ = _expect(c)
    if all(n == 1 for n in occ):
        return None
    if impl in ("ERR", "PANIC", "ABORT"):
        return KNOWN_CLASS
    if impl and impl.startswith("Q "):
        got = impl[2:].split(",")
        exp, _ = _expect(c)
        if len(got) == len(exp) and all((a == "P" and n != 1) or a == str(e) for a, e, n in zip(got, exp, occ)):
            return KNOWN_CLASS
    return None


def nontrivial_key(c, impl):
    if impl and (impl.startswith("Q ") or impl.startswith("QC ")):
        p = c["line"].split()
        return ("bseq", p[1], p[2], p[3], impl[:60])
    return None
