"""C12 — all events of a context live on one shard; unscoped reads cover all shards."""
import concurrent.futures, json
import vlib
from vlib import hx
from props import base

PROP = "C12"
PROPS_V = "theories/Props/C12.v"
THEOREMS = [
    "C12_route_is_hash_mod", "C12_route_lt_n", "C12_route_total", "C12_siphash13_reference_vectors",
    "C12_placement", "C12_ctx_locality", "C12_fanout_union", "C12_shard_tag_const", "C12_shard_tag_is_route",
]
RULE = ("context id strings (empty, blank, ASCII, case / whitespace variants of one another, NUL and control characters, "
        "lengths around the 8-byte SipHash blocks and around 255/256, up to several thousand bytes, multi-byte UTF-8: "
        "accents, CJK, emoji, combining marks, RTL) x shard counts (0, 1, 2, 3, 7, 8, 16, 1000, 1024, 1025, 65535, 65536, "
        "70000, random) through the real ShardManager::get_shard, each case evaluated in two separate processes; "
        "engine histories: 1..5 real shards, 2..3 lifetimes of a real ShardManager on the same directories with "
        "STOREs to recurring contexts, observed in the per-shard WAL directories; bursts of more than 4096 STOREs per "
        "context inside one scripted millisecond (shard tag of every id); read histories on the real engine "
        "(`vharn life`, one OS process per lifetime, 2..8 shards): families of context ids around one base id - "
        "White_Space of ten kinds at either edge and inside, case variants, NFD/NFKC look-alikes, zero-width / soft-hyphen / "
        "bidi characters, ids of several thousand characters, empty-looking ids - stored through STORE ... FOR \"<id>\", "
        "then QUERY t, QUERY t FOR, REPLAY FOR and REPLAY t FOR for every id in memory, after FLUSH and after a restart; "
        "back-pressure histories (2..4 shards): the home shard of one context parked inside a STORE, more concurrent STOREs "
        "for it than its mailbox holds (8096) plus STOREs for other shards, release, drain - answers, per-shard WAL "
        "directories, shard tags, scoped and unscoped reads. "
        "Non-trivial = the implementation produced a shard index / observations; distinct by (probe kind, context, "
        "shard count(s)) or the history")
ASSUMPTIONS = [
    "std's DefaultHasher is SipHash-1-3 with zero keys and str::hash appends the byte 0xff: facts of the pinned toolchain (nightly-2025-10-14), modelled executably and differentially tested, not proved; stability across Rust releases is outside any model (DefaultHasher's algorithm is documented as unspecified)",
    "usize is 64 bits (x86_64 harness target)",
    "route_engine / route_burst send ShardMessage::Store to get_shard(ctx) exactly as src/command/handlers/store.rs does (restarts = new ShardManager instances in one process); the read histories go through parse_command + dispatch_command in `vharn life` processes, a restart is a killed and restarted process",
    "read histories keep no STORE between a manual FLUSH and a restart (a kill there loses the STORE: C01's known finding OpenWalFilePruned); reads during a flush or a compaction are C03/C05's part",
    "per-shard result merge order is not modelled: fanout_union is a multiset statement and reads are compared as sorted payload keys",
]
TRUSTED = [
    "Coq 8.16.1 kernel + coqc; vm_compute for the known-answer vectors and the example history",
    "translator tools/gen_params.py + tools/params/p22_route.py (the body of get_shard, STORE routing through it and the all_shards() fan-out are matched textually)",
    "extraction: ExtrOcamlBasic only; ocaml/driver.ml, conv.ml, p_route.ml (parsing/printing, grouping per context)",
    "correspondence harness /verif/harness (vharn fn route_*; vharn life + tools/engine.py for the read histories) built against /repo with --cfg sneldb_verif; clock hook verif_hooks::set_clock_script_ms for the bursts",
    "python oracle: an independent SipHash-1-3 written from the reference description; set comparisons on the rows the engine returned",
]

CLAIMED = True
MANIFEST = {
 "level_text": "Theorems (unbounded, all histories of STOREs with arbitrary clocks and restarts, all shard counts): the routing hash is a 64-bit value and route = hash mod n < n; every stored event sits on shard route(ctx, n); a read FOR c fanned out to all shards is answered by that shard alone and returns every event of c in apply order; an unscoped read is a permutation of everything applied (no shard omitted); all ids of one context carry one shard tag (= route when n <= 1024). The SipHash-1-3 model is checked against reference vectors in Coq and run against the real ShardManager::get_shard on generated context strings and shard counts in separate processes, and against real multi-shard engine lifetimes (per-shard WAL directories, shard tags under bursts of more than 4096 ids per millisecond); on real engine processes every read scoped FOR a context id (whitespace-edged, case / normalisation variants, invisible characters, very long) is compared with the unscoped read and the model in memory, after FLUSH and after a restart.",
 "design_ref": "DESIGN.md §6 C12",
 "level_note": "Trusted: Coq kernel; tools/gen_params.py; ExtrOcamlBasic extraction + OCaml driver; the Rust harness; the python SipHash oracle. DefaultHasher = SipHash-1-3/zero keys is a fact of the pinned std, tested not proved; stability across Rust releases cannot be established. Merge order of per-shard results is not modelled (reads compared as sets)."
}

M64 = (1 << 64) - 1


def siphash13(data, k0=0, k1=0):
    """Reference SipHash-1-3 (independent of the Coq model)."""
    def rotl(x, b):
        return ((x << b) | (x >> (64 - b))) & M64
    v0 = k0 ^ 0x736f6d6570736575
    v1 = k1 ^ 0x646f72616e646f6d
    v2 = k0 ^ 0x6c7967656e657261
    v3 = k1 ^ 0x7465646279746573

    def rnd():
        nonlocal v0, v1, v2, v3
        v0 = (v0 + v1) & M64; v1 = rotl(v1, 13); v1 ^= v0; v0 = rotl(v0, 32)
        v2 = (v2 + v3) & M64; v3 = rotl(v3, 16); v3 ^= v2
        v0 = (v0 + v3) & M64; v3 = rotl(v3, 21); v3 ^= v0
        v2 = (v2 + v1) & M64; v1 = rotl(v1, 17); v1 ^= v2; v2 = rotl(v2, 32)
    n = len(data)
    for i in range(0, n - n % 8, 8):
        m = int.from_bytes(data[i:i + 8], "little")
        v3 ^= m; rnd(); v0 ^= m
    b = ((n & 0xff) << 56) | int.from_bytes(data[n - n % 8:], "little")
    v3 ^= b; rnd(); v0 ^= b
    v2 ^= 0xff
    rnd(); rnd(); rnd()
    return v0 ^ v1 ^ v2 ^ v3


def ref_hash(ctx_bytes):
    return siphash13(ctx_bytes + b"\xff")


def corpus():
    return base.corpus_for(PROP)


WORDS = ["user", "ctx", "order", "tenant", "device", "a", "Z", "id", "session", "k"]
UNI = ["é", "ü", "ß", "中", "文", "日本", "한", "🙂", "🚀", "é", "‍", "א", "ب", "Ω", "ñ", " ", "　", "İ", "ı", "﻿"]
COUNTS = [1, 2, 3, 4, 5, 7, 8, 16, 64, 1000, 1023, 1024, 1025, 4096, 65535, 65536, 70000]


def gen_ctx(rng):
    r = rng.below(12)
    if r == 0:
        return rng.choice(["", " ", "  ", "\t", "\n", " \t ", " ", "　", "\x00", "0", "-", "''", '""'])
    if r == 1:   # around the block boundaries (the 0xff suffix makes len+1 the hashed length)
        n = rng.choice([5, 6, 7, 8, 9, 14, 15, 16, 17, 23, 24, 31, 32, 63, 64, 254, 255, 256, 257, 511, 512])
        return "".join(rng.choice("abcdefghijklmnopqrstuvwxyz0123456789") for _ in range(n))
    if r == 2:   # long
        n = rng.choice([1000, 4096, 5000, rng.range(300, 9000)])
        ch = rng.choice(["x", "ab", "ctx-", "é", "🙂"])
        return (ch * (n // len(ch) + 1))[:n]
    if r in (3, 4):   # non-ASCII
        return "".join(rng.choice(UNI + WORDS) for _ in range(rng.range(1, 6)))
    if r == 5:   # control characters / NUL inside
        s = rng.choice(WORDS) + rng.choice(["\x00", "\x01", "\x7f", "\r\n", "\x1b"]) + rng.choice(WORDS)
        return s
    # plain ids
    return rng.choice(WORDS) + rng.choice(["-", "_", ":", "", "/"]) + str(rng.below(rng.choice([10, 1000, 10 ** 9])))


def variants(rng, s):
    """Case / whitespace variants of one string."""
    out = [s, s.upper(), s.lower(), s.capitalize(), " " + s, s + " ", s + "\n", s + "\t", " " + s + " ", s.replace("-", " "), s + s]
    rng.next()
    return list(dict.fromkeys(out))


def cases(rng, tier):
    mult = 1 if tier == "quick" else 30
    out = []

    def add(kind, line, **kw):
        c = {"kind": kind, "line": line}
        c.update(kw)
        out.append(c)

    for _ in range(220 * mult):
        s = gen_ctx(rng)
        n = rng.choice(COUNTS + [rng.range(1, 200), rng.range(1, 70000)])
        add("get", f"route_get {n} {hx(s)}", ctx=s, ns=[n], show=f"get_shard({s[:40]!r}) among {n}")
    for _ in range(60 * mult):
        s = gen_ctx(rng)
        ns = sorted({rng.choice(COUNTS) for _ in range(rng.range(2, 6))})
        add("many", f"route_many {hx(s)} {' '.join(map(str, ns))}", ctx=s, ns=ns, show=f"{s[:40]!r} among {ns}")
    for _ in range(120 * mult):
        s = gen_ctx(rng)
        add("hash", f"route_hash {hx(s)}", ctx=s, show=f"hash({s[:40]!r})")
    for _ in range(25 * mult):
        s0 = rng.choice(WORDS) + rng.choice(["-", "_"]) + rng.choice(["ab", "Ab", "x1", "é", "I"])
        n = rng.choice([2, 3, 8, 1024])
        for v in variants(rng, s0):
            add("variant", f"route_get {n} {hx(v)}", ctx=v, ns=[n], show=f"variant {v!r} among {n}")
    # no shards: the % panics
    for s in ("a", ""):
        add("zero", f"route_get 0 {hx(s)}", ctx=s, ns=[0], show="0 shards")
    # engine histories
    for _ in range(14 * mult):
        n = rng.choice([1, 2, 3, 3, 4, 5])
        pool = []
        while len(pool) < rng.range(2, 7):
            s = gen_ctx(rng)
            if s.strip() and "\x00" not in s and len(s) < 600 and s not in pool:
                pool.append(s)
        groups = []
        for _g in range(rng.choice([2, 2, 3])):
            groups.append([rng.choice(pool) for _ in range(rng.range(1, 8))])
        line = f"route_engine {n} " + " / ".join(",".join(hx(s) for s in g) for g in groups)
        add("engine", line, n=n, groups=groups, show=f"{n} shards, lifetimes {[len(g) for g in groups]}")
    # more ids on one shard than a millisecond has sequence numbers, the clock standing still: the shard tag of
    # the ids must stay the shard's
    for _ in range(2 * mult if tier == "quick" else 12):
        n = rng.choice([2, 3, 4, 8])
        ctxs = []
        while len(ctxs) < rng.choice([1, 1, 2]):
            c = rng.choice(WORDS) + "-" + str(rng.below(1000))
            if c not in ctxs:
                ctxs.append(c)
        count = (1 << 12) + rng.range(3, 120)
        ms = 1_700_000_000_000 + rng.below(10 ** 11)
        add("burst", f"route_burst {n} {ms} {count} " + " ".join(hx(c) for c in ctxs), n=n, ctxs=ctxs, count=count,
            show=f"{count} STOREs per context {ctxs} on {n} shards inside one millisecond")
    # scoped reads against the unscoped read on the real engine (real process lifetimes)
    for _ in range(10 if tier == "quick" else 300):
        out.append(gen_read_history(rng))
    # back-pressure: the home shard of one context is stuck inside a STORE while more STOREs for that context
    # arrive than its mailbox holds; placement must not depend on the momentary load
    for _ in range(1 if tier == "quick" else 4):
        out.append(gen_backpressure(rng))
    return out


# ------------------------------------------------------------------ back-pressure on the home shard
MAILBOX = 8096      # src/engine/shard/types.rs: channel(8096)


def gen_backpressure(rng):
    n = rng.choice([2, 3, 4])
    hot = rng.choice(WORDS) + "-hot-" + str(rng.below(10000))
    home = ref_hash(hot.encode("utf-8")) % n
    others = []
    k = 0
    while len(others) < 3 and k < 500:       # contexts homed on other shards (at least one per other shard if quick to find)
        c = f"calm-{k}"; k += 1
        h = ref_hash(c.encode("utf-8")) % n
        if h != home and (len([o for o in others if o[1] == h]) == 0 or len(others) >= n - 1):
            others.append((c, h))
    blast = MAILBOX + rng.range(100, 400)
    return {"kind": "backpressure", "line": f"route_many {hx(hot)} {n}", "n": n, "hot": hot, "home": home, "ctx": hot, "ns": [n],
            "others": [list(o) for o in others], "blast": blast, "sleep": rng.range(100, 600),
            "cfg": dict(fill_factor=25, event_per_zone=1000, shards=n),
            "show": f"{n} shards: home shard {home} of {hot!r} parked inside a STORE, {blast} concurrent STOREs for it (mailbox {MAILBOX}), "
                    f"a few for {[o[0] for o in others]}, release, drain; placement and reads"}


def run_backpressure(case):
    """-> {"ack": {...}, "placement": {ctx: {shard dir: count}}, "tags": {ctx: [tags]}, "unscoped": {ctx: [x]}, "scoped": [x], ...}"""
    import engine, os
    e = engine.Engine(**case["cfg"])
    res = {"err": None}
    hot, n = case["hot"], case["n"]
    try:
        e.start()
        r = e.rows('DEFINE t FIELDS { "x": "int" }')
        if r["status"] != 200:
            raise RuntimeError(f"DEFINE answered {r['status']}")
        e.cmd("!park st_wal_sent")
        e.cmd(f'!bg STORE t FOR "{hot}" PAYLOAD {{ "x": 0 }}')
        w = e.cmd("!wait_parked st_wal_sent 5000")
        if not w.get("parked"):
            raise RuntimeError("the shard worker did not reach the step point st_wal_sent")
        b = e.cmd(f'!blast {case["blast"]} 1 STORE t FOR "{hot}" PAYLOAD {{ "x": {{i}} }}')
        ob = {}
        base = 1_000_000
        for c, _h in case["others"]:
            ob[c] = e.cmd(f'!blast 3 {base} STORE t FOR "{c}" PAYLOAD {{ "x": {{i}} }}')
            base += 1000
        e.cmd(f"!sleep {case['sleep']}")
        e.cmd("!release st_wal_sent")
        j = e.cmd("!join")
        e.cmd("!flushwait"); e.cmd("!wal_drained 8000"); e.cmd("!sleep 300"); e.cmd("!wal_drained 8000")
        first_ok = '"status":200' in (j.get("out") or "")
        res["ack"] = {"first": first_ok, "ok": b.get("ok", []), "busy": b.get("busy", []), "other": b.get("other", []),
                      "calm": {c: v for c, v in ob.items()}}
        q = e.rows("QUERY t")
        rows = q["rows"]
        res["status"] = q["status"]
        uns, tags = {}, {}
        for row in rows:
            c = row.get("context_id")
            uns.setdefault(c, []).append(row.get("x"))
            eid = row.get("event_id")
            if isinstance(eid, int):
                tags.setdefault(c, set()).add((eid >> 12) & 1023)
        res["unscoped"] = {c: sorted(v) for c, v in uns.items()}
        res["tags"] = {c: sorted(v) for c, v in tags.items()}
        qs = e.rows(f'QUERY t FOR "{hot}"')
        res["scoped"] = sorted(r_.get("x") for r_ in qs["rows"])
        res["scoped_status"] = qs["status"]
        # placement: the per-shard WAL directories (no flush happens: the memtable holds 25000 events)
        place = {}
        for sid in range(n):
            d = os.path.join(e.root, "wal", f"shard-{sid}")
            for fn in sorted(os.listdir(d)) if os.path.isdir(d) else []:
                if fn.endswith(".log"):
                    for ln in open(os.path.join(d, fn), encoding="utf-8"):
                        try:
                            v = json.loads(ln)
                        except Exception:
                            continue
                        pc = place.setdefault(v.get("context_id"), {})
                        pc.setdefault(sid, []).append(v.get("payload", {}).get("x"))
        res["placement"] = place
    except Exception as ex:
        res["err"] = f"{type(ex).__name__}: {ex}"
    finally:
        e.destroy()
    return res


def oracle_backpressure(c, res):
    if res.get("err"):
        return f"the back-pressure history could not be run: {res['err']}"
    hot, home, n = c["hot"], c["home"], c["n"]
    ack = res["ack"]
    if ack["other"]:
        return f"{len(ack['other'])} STOREs under back-pressure were answered neither 200 nor 503 (e.g. x={ack['other'][:3]})"
    if not ack["first"]:
        return "the STORE the shard worker was parked in was not answered 200 after the release"
    acked = set([0] + ack["ok"])
    maybe = set(ack["busy"])
    if len(ack["ok"]) > MAILBOX:
        # more 200s than the home mailbox has slots while its worker stood still: they went somewhere else
        pass
    place = res["placement"].get(hot, {})
    norm = lambda v: v.get("Int64", v.get("Int", v)) if isinstance(v, dict) else v
    place = {sid: [norm(x) for x in xs] for sid, xs in place.items()}
    wrong = {sid: xs for sid, xs in place.items() if sid != home and xs}
    if wrong:
        sid, xs = sorted(wrong.items())[0]
        return (f"{len(xs)} events of context {hot!r} (x={sorted(xs)[:4]}...) were applied by shard {sid}; the context's shard is {home} "
                f"(hash mod {n}); {len(ack['ok'])} of {c['blast']} concurrent STOREs were answered 200, {len(ack['busy'])} 503, "
                f"the home mailbox holds {MAILBOX}: one context on two shards")
    at_home = place.get(home, [])
    if set(at_home) - acked - maybe or len(at_home) != len(set(at_home)):
        return f"the home shard's WAL holds events of {hot!r} that were never sent or holds one twice: {sorted(set(at_home) - acked - maybe)[:5]}"
    miss = acked - set(at_home)
    if miss:
        return f"{len(miss)} STOREs of {hot!r} answered 200 are not in the home shard's WAL (x={sorted(miss)[:5]})"
    tags = res["tags"].get(hot, [])
    if tags != [home % 1024]:
        return f"the ids of {hot!r} carry the shard tags {tags}; its shard is {home}"
    uns = res["unscoped"].get(hot, [])
    if res["status"] != 200 or res["scoped_status"] != 200:
        return f"QUERY answered {res['status']} / scoped {res['scoped_status']}"
    if uns != res["scoped"]:
        return f"QUERY t FOR {hot!r} returned {len(res['scoped'])} rows, the unscoped QUERY shows {len(uns)} for it"
    if set(uns) != set(at_home) or len(uns) != len(at_home):
        return f"the reads show {len(uns)} events of {hot!r}, the home shard's WAL holds {len(at_home)}"
    for cx, h in c["others"]:
        a = ack["calm"].get(cx, {})
        if a.get("busy") or a.get("other") or len(a.get("ok", [])) != 3:
            return f"STOREs for {cx!r} (shard {h}, not under pressure) were not all answered 200: {a}"
        pl = {sid: [norm(x) for x in xs] for sid, xs in res["placement"].get(cx, {}).items()}
        if sorted(pl) != [h] or sorted(pl[h]) != sorted(a["ok"]):
            return f"context {cx!r} (shard {h}) is placed {({k: len(v) for k, v in pl.items()})}"
        if res["tags"].get(cx) != [h % 1024] or res["unscoped"].get(cx) != sorted(a["ok"]):
            return f"context {cx!r}: tags {res['tags'].get(cx)}, rows {res['unscoped'].get(cx)}"
    return None


# ------------------------------------------------------------------ engine read histories
# Unicode White_Space (what Rust's str::trim removes)
WHITE = [" ", "\t", "\u00a0", "\u3000", "\u2003", "\u2028", "\u0085", "\u000b", "\u1680", "\u202f"]
WHITE_SET = set("\t\n\x0b\x0c\r \x85\xa0\u1680\u2000\u2001\u2002\u2003\u2004\u2005\u2006\u2007\u2008\u2009\u200a"
                "\u2028\u2029\u202f\u205f\u3000")
BASES = ["ctx-a", "user-1", "Klant-één", "order_77", "ａｂｃ", "tenant:9", "x", "Straße", "İstanbul", "a.b/c", "0", "-", "id=7;drop"]


def rust_trim(s):
    i, j = 0, len(s)
    while i < j and s[i] in WHITE_SET:
        i += 1
    while j > i and s[j - 1] in WHITE_SET:
        j -= 1
    return s[i:j]


def ctx_family(rng):
    """Context ids around one base id: whitespace at the edges and inside, case, normalisation look-alikes,
    invisible characters, a very long one, and ids that look empty."""
    import unicodedata
    b = rng.choice(BASES)
    fam = [b]
    for _ in range(rng.range(2, 4)):
        w, w2 = rng.choice(WHITE), rng.choice(WHITE)
        fam.append(rng.choice([w + b, b + w, w + b + w2, w + w2 + b, b + w + w2, w + b + w]))
    extra = [b.upper(), b.lower(), b.swapcase(), b.replace("-", " "), b[:1] + " " + b[1:], b[:1] + "  " + b[1:],
             b[:1] + "\t" + b[1:], unicodedata.normalize("NFD", b), unicodedata.normalize("NFKC", b),
             "\u200b" + b, b + "\ufeff", b + "\u200d", "\u00ad" + b, b + "-" + "x" * rng.choice([300, 2000, 6000]),
             b + "'", "(" + b + ")", b + "\\", "\u202e" + b]
    for _ in range(rng.range(2, 5)):
        fam.append(rng.choice(extra))
    if rng.chance(1, 2):     # empty-looking ids: blank for str::trim (STORE must refuse them) or only invisible
        fam.append(rng.choice([" ", "\t", "\u00a0", "\u3000 ", "\u200b", "\ufeff", "\u2800", "\u3164"]))
    return list(dict.fromkeys(fam))


def gen_read_history(rng):
    n = rng.choice([2, 2, 3, 3, 4, 5, 6, 8])
    cfg = dict(rng.choice([dict(fill_factor=2, event_per_zone=2), dict(fill_factor=3, event_per_zone=1),
                           dict(fill_factor=1, event_per_zone=3), dict(fill_factor=2, event_per_zone=3)]), shards=n)
    pool = ctx_family(rng)
    if rng.chance(1, 3):
        pool += [c for c in ctx_family(rng) if c not in pool][:3]
    ops = []
    def stores(k):
        for _ in range(k):
            ops.append(["S", rng.below(len(pool))])
    for i in range(len(pool)):          # every id at least once
        ops.append(["S", i])
    stores(rng.range(4, 10))
    ops.append(["O"])                                   # memtables + automatically flushed segments
    # No STORE between a manual FLUSH and a restart: a kill after "FLUSH, STORE" loses the STORE (C01's known
    # finding OpenWalFilePruned), which is not this property's business.
    if rng.chance(1, 2):
        ops += [["R"], ["O"]]                           # recovered from the WAL + segments
        stores(rng.range(2, 6))
        ops += [["F"], ["O"]]                           # everything in segments
        stores(rng.range(1, 4)); ops.append(["O"])
    else:
        ops += [["F"], ["O"], ["R"], ["O"]]             # segments only, before and after a restart
        stores(rng.range(2, 6)); ops.append(["O"])
    return {"kind": "reads", "line": None, "cfg": cfg, "n": n, "pool": pool, "ops": ops,
            "show": f"{n} shards, ids {[p[:24] for p in pool]}: " + " ".join(o[0] + (str(o[1]) if len(o) > 1 else "") for o in ops)}


def _xs(rows):
    out = []
    for r in rows:
        v = r.get("x") if isinstance(r, dict) else None
        if v is None and isinstance(r, dict) and isinstance(r.get("payload"), dict):
            v = r["payload"].get("x")
        out.append(v)
    return out


def run_read_history(case):
    """Runs one history on the real engine (tools/engine.py: one `vharn life` process per lifetime).
    Result: {"acked":[(x, pool index)], "refused":[(x, pool index, status)], "obs":[{"all":[(ctx,x)], "q":{i:[x]},
    "rp":{i:[x]}, "rpt":{i:[x]}, "foreign":[...]}], "line": model line, "err": ...}"""
    import engine
    e = engine.Engine(**case["cfg"])
    res = {"acked": [], "refused": [], "obs": [], "line": None, "err": None}
    toks = []
    pool = case["pool"]
    try:
        e.start()
        r = e.rows('DEFINE t FIELDS { "x": "int" }')
        if r["status"] != 200:
            raise RuntimeError(f"DEFINE answered {r['status']} {r.get('message')}")
        x = 0
        for op in case["ops"]:
            if op[0] == "S":
                c = pool[op[1]]
                r = e.rows(f'STORE t FOR "{c}" PAYLOAD {{ "x": {x} }}')
                if r["status"] == 200:
                    res["acked"].append((x, op[1]))
                    toks.append(f"S{x}:{hx(c)}")
                else:
                    res["refused"].append((x, op[1], r["status"]))
                x += 1
            elif op[0] == "F":
                e.rows("FLUSH"); e.cmd("!flushwait"); toks.append("F")
            elif op[0] == "R":
                e.cmd("!flushwait"); e.cmd("!wal_drained 3000"); e.restart(); toks.append("R")
            elif op[0] == "O":
                e.cmd("!flushwait"); e.cmd("!wal_drained 3000")
                o = {"q": {}, "rp": {}, "rpt": {}, "foreign": [], "status": []}
                r = e.rows("QUERY t")
                o["all"] = sorted((row.get("context_id"), xv) for row, xv in zip(r["rows"], _xs(r["rows"])))
                if r["status"] != 200:
                    o["status"].append(("QUERY t", r["status"]))
                for i, c in enumerate(pool):
                    for key, cmd in (("q", f'QUERY t FOR "{c}"'), ("rp", f'REPLAY FOR "{c}"'), ("rpt", f'REPLAY t FOR "{c}"')):
                        r = e.rows(cmd)
                        o[key][i] = sorted(v for v in _xs(r["rows"]) if v is not None)
                        if r["status"] != 200 and not (rust_trim(c) == "" ):
                            o["status"].append((cmd[:40], r["status"]))
                        for row in r["rows"]:
                            if row.get("context_id") != c:
                                o["foreign"].append((cmd[:40], row.get("context_id")))
                res["obs"].append(o)
                toks.append("O")
        res["line"] = f"route_hist {case['n']} P{','.join(hx(c) for c in pool)} " + " ".join(toks)
    except Exception as ex:
        res["err"] = f"{type(ex).__name__}: {ex}"
    finally:
        e.destroy()
    return res


def read_history_canon(case, res):
    """The implementation's observations in the model's output format (scoped = the three scoped reads when they agree)."""
    pool = case["pool"]
    parts = []
    for o in res["obs"]:
        items = ["all=" + ",".join(str(xv) for _, xv in sorted(o["all"], key=lambda t: (t[1] is None, t[1])))]
        for i, c in enumerate(pool):
            q, rp, rpt = o["q"].get(i), o["rp"].get(i), o["rpt"].get(i)
            if q == rp == rpt:
                items.append(hx(c) + "=" + ",".join(map(str, q)))
            else:
                items.append(hx(c) + f"=DIFFER(query={q},replay={rp},replay_typed={rpt})")
        parts.append(";".join(items))
    return "H " + " | ".join(parts)


def run_sides(cases_, model_ok):
    """Implementation side twice, in two different sets of fresh processes (the second run sees the
    cases in reverse order, so each case lands in another process and position); the second answer
    is kept on the case for the oracle."""
    fn_idx = [i for i, c in enumerate(cases_) if c.get("kind") not in ("reads", "backpressure")]
    rd_idx = [i for i, c in enumerate(cases_) if c.get("kind") == "reads"]
    bp_idx = [i for i, c in enumerate(cases_) if c.get("kind") == "backpressure"]
    lines = [cases_[i]["line"] for i in fn_idx]
    impl = [None] * len(cases_)
    # real-engine histories run concurrently with the function-level probes
    with concurrent.futures.ThreadPoolExecutor(max_workers=10) as ex:
        bfut = [ex.submit(run_backpressure, cases_[i]) for i in bp_idx]
        fut = [ex.submit(run_read_history, cases_[i]) for i in rd_idx]
        fn_impl = vlib.run_lines(vlib.VHARN, ["fn"], lines, timeout=900)
        # second evaluation, separate processes: function-level cases only (engine cases are whole lifetimes already)
        idx = [k for k, i in enumerate(fn_idx) if not lines[k].startswith(("route_engine", "route_burst"))]
        rev = list(reversed(idx))
        again = vlib.run_lines(vlib.VHARN, ["fn"], [lines[k] for k in rev], timeout=900, shards=7)
        for k, a in zip(rev, again):
            cases_[fn_idx[k]]["_impl2"] = a
        rd_res = [f.result() for f in fut]
        bp_res = [f.result() for f in bfut]
    for i, r in zip(bp_idx, bp_res):
        impl[i] = r
    for k, i in enumerate(fn_idx):
        impl[i] = fn_impl[k]
    for i, r in zip(rd_idx, rd_res):
        impl[i] = r
    all_lines = [(cases_[i]["line"] if cases_[i].get("kind") != "reads" else (impl[i]["line"] or "route_hist 1 P O")) for i in range(len(cases_))]
    model = vlib.run_lines(vlib.MODEL_RUN, [], all_lines, timeout=900) if model_ok else [None] * len(all_lines)
    return impl, model


def same(c, impl, model):
    if c.get("kind") == "backpressure":
        # the model's answer for the case line (route_many <hot> <n>) is the shard every event of the context is on
        if impl.get("err"):
            return False
        dirs = sorted(sid for sid, xs in impl["placement"].get(c["hot"], {}).items() if xs)
        return model == "R " + " ".join(map(str, dirs))
    if c.get("kind") == "reads":
        return impl.get("err") is None and read_history_canon(c, impl) == model
    return impl == model


def diffs(c, impl, model):
    if c.get("kind") == "backpressure":
        if impl.get("err"):
            return ["harness: " + impl["err"]]
        dirs = {sid: len(xs) for sid, xs in impl["placement"].get(c["hot"], {}).items() if xs}
        return [] if same(c, impl, model) else [f"events of {c['hot']!r} per shard directory {dirs} / model {model}"]
    if c.get("kind") == "reads":
        if impl.get("err"):
            return ["harness: " + impl["err"]]
        a, b = read_history_canon(c, impl).split(" | "), (model or "").split(" | ")
        return [f"obs#{n}: implementation {x[:300]} / model {y[:300]}" for n, (x, y) in enumerate(zip(a, b)) if x != y][:4] or \
               ([f"{len(a)} observations / model {len(b)}"] if len(a) != len(b) else [])
    return [] if impl == model else [f"implementation {str(impl)[:300]} / model {str(model)[:300]}"]


def oracle_reads(c, res):
    """Direct oracle for an engine read history: every read scoped FOR a context returns exactly the acknowledged
    events of that context - which is also what the unscoped read shows for it - and the unscoped read returns
    every acknowledged event; in memory, after FLUSH, after a restart."""
    if res.get("err"):
        return f"the engine history could not be run: {res['err']}"
    pool = c["pool"]
    for x, i, st in res["refused"]:
        if rust_trim(pool[i]) != "":
            return f"STORE FOR {pool[i][:40]!r} was refused with status {st}"
    acked_x = {x for x, _ in res["acked"]}
    xctr, nobs, known = 0, 0, []      # known: what was acknowledged before the current observation
    for op in c["ops"]:
        if op[0] == "S":
            if xctr in acked_x:
                known.append((xctr, op[1]))
            xctr += 1
        elif op[0] == "O":
            if nobs >= len(res["obs"]):
                return "fewer observations than the history asks for"
            o = res["obs"][nobs]
            where = f"observation {nobs + 1} (after {' '.join(x[0] for x in c['ops'][:c['ops'].index(op) + 1] if x[0] != 'S') or 'stores'})"
            nobs += 1
            if o["status"]:
                return f"{where}: {o['status'][0][0]!r} answered status {o['status'][0][1]}"
            if o["foreign"]:
                return f"{where}: {o['foreign'][0][0]!r} returned a row of context {str(o['foreign'][0][1])[:40]!r}"
            want_all = sorted((pool[i], xv) for xv, i in known)
            if sorted(o["all"], key=repr) != sorted(want_all, key=repr):
                miss = sorted(set(want_all) - set(map(tuple, o["all"])), key=repr)
                extra = sorted(set(map(tuple, o["all"])) - set(want_all), key=repr)
                return f"{where}: the unscoped QUERY misses {miss[:4]} and has unexpected {extra[:4]} ({len(o['all'])} rows for {len(want_all)} acknowledged)"
            for i, cx in enumerate(pool):
                want = sorted(xv for xv, j in known if j == i)
                unscoped = sorted(xv for cc, xv in o["all"] if cc == cx)
                for key, name in (("q", "QUERY t FOR"), ("rp", "REPLAY FOR"), ("rpt", "REPLAY t FOR")):
                    got = o[key].get(i)
                    if got != want or got != unscoped:
                        return (f"{where}: {name} {cx[:40]!r} returned x={got}; the context's acknowledged events are x={want} "
                                f"and the unscoped QUERY shows x={unscoped} for it (owner shard {ref_hash(cx.encode('utf-8')) % c['n']}, "
                                f"shard of the trimmed id {ref_hash(rust_trim(cx).encode('utf-8')) % c['n']})")
    return None


def oracle(c, impl):
    if c.get("kind") == "backpressure":
        return oracle_backpressure(c, impl)
    if c.get("kind") == "reads":
        return oracle_reads(c, impl)
    line = c["line"]
    if impl in (None, "ABORT") or impl.startswith(("UNKNOWN", "BADUTF8", "ENGINE_ERROR", "BAD_WAL")):
        return f"implementation answered {impl}"
    if "_impl2" in c and c["_impl2"] != impl:
        return f"two processes disagree: {impl} vs {c['_impl2']}"
    if "ctx" in c:
        h = ref_hash(c["ctx"].encode("utf-8"))
    if line.startswith("route_hash"):
        if impl != f"H {h}":
            return f"hash differs from SipHash-1-3(ctx ++ 0xff) = {h}: {impl}"
        return None
    if line.startswith(("route_get", "route_many")):
        ns = c["ns"]
        if 0 in ns:
            return None if impl == "PANIC" else f"0 shards answered {impl}"
        if not impl.startswith("R "):
            return f"unexpected answer {impl}"
        got = [int(x) for x in impl[2:].split()]
        if len(got) != len(ns):
            return f"{len(got)} answers for {len(ns)} shard counts"
        for n, g in zip(ns, got):
            if not (0 <= g < n):
                return f"shard {g} out of range for {n} shards"
            if g != h % n:
                return f"shard {g} among {n} is not hash mod n = {h % n}"
        return None
    if line.startswith("route_burst"):
        if not impl.startswith("B "):
            return f"unexpected answer {impl}"
        n = c["n"]
        seen = {}
        for item in impl[2:].split():
            if item == "-":
                continue
            k, v = item.split("=")
            dirs, tags, cnt, distinct = v.split("/")
            seen[vlib.unhx(k).decode("utf-8")] = (dirs, tags, int(cnt), distinct)
        for s_ in c["ctxs"]:
            if s_ not in seen:
                return f"context {s_!r} not found in any shard's WAL"
            dirs, tags, got, distinct = seen[s_]
            r = ref_hash(s_.encode("utf-8")) % n
            if dirs != str(r):
                return f"context {s_!r} is under shard(s) {dirs}, hash mod n = {r}"
            if tags != str(r % 1024):
                return (f"the ids of the {got} events of context {s_!r}, all applied by shard {r} inside one millisecond, carry the "
                        f"shard tags {tags}: the tag does not identify the shard (expected {r % 1024} only)")
            if got != c["count"]:
                return f"context {s_!r}: {got} events in the WAL for {c['count']} STOREs"
            if distinct != "distinct":
                return f"context {s_!r}: two of its {got} events carry the same id"
        if set(seen) - set(c["ctxs"]):
            return f"unexpected contexts {sorted(set(seen) - set(c['ctxs']))[:3]}"
        return None
    if line.startswith("route_engine"):
        if not impl.startswith("E "):
            return f"unexpected answer {impl}"
        n = c["n"]
        want = {}
        for g in c["groups"]:
            for s in g:
                want[s] = want.get(s, 0) + 1
        seen = {}
        for item in impl[2:].split():
            if item == "-":
                continue
            k, v = item.split("=")
            dirs, tags, cnt = v.split("/")
            seen[vlib.unhx(k).decode("utf-8")] = (dirs, tags, int(cnt))
        for s, cnt in want.items():
            if s not in seen:
                return f"context {s[:30]!r} not found in any shard's WAL"
            dirs, tags, got = seen[s]
            r = ref_hash(s.encode("utf-8")) % n
            if "+" in dirs:
                return f"context {s[:30]!r} appears under shards {dirs}"
            if int(dirs) != r:
                return f"context {s[:30]!r} is under shard {dirs}, hash mod n = {r}"
            if tags != str(r % 1024):
                return f"ids of context {s[:30]!r} carry shard tags {tags}, expected {r % 1024}"
            if got != cnt:
                return f"context {s[:30]!r}: {got} events in the WAL for {cnt} STOREs"
        if set(seen) - set(want):
            return f"unexpected contexts {sorted(set(seen) - set(want))[:3]}"
        return None
    return None


def classify(c, impl):
    return None


def nontrivial_key(c, impl):
    if c.get("kind") == "backpressure":
        return ("backpressure", c["show"]) if isinstance(impl, dict) and impl.get("ack", {}).get("busy") else None
    if c.get("kind") == "reads":
        return ("reads", c["show"]) if isinstance(impl, dict) and impl.get("obs") and impl.get("acked") else None
    if impl and impl[:2] in ("R ", "H ", "E ", "B "):
        return (c["kind"], c["line"])
    return None
