"""C12 — all events of a context live on one shard; unscoped reads cover all shards."""
import vlib
from vlib import hx
from props import base

PROP = "C12"
PROPS_V = "theories/Props/C12.v"
THEOREMS = [
    "C12_route_is_hash_mod", "C12_route_lt_n", "C12_route_total", "C12_siphash13_reference_vectors",
    "C12_placement", "C12_ctx_locality", "C12_fanout_union", "C12_shard_tag_const", "C12_shard_tag_is_route",
]
RULE = ("context id strings (empty, blank, ASCII, case / whitespace variants of one another, NUL and control characters, "
        "lengths around the 8-byte SipHash blocks and around 255/256, up to several thousand bytes, multi-byte UTF-8: "
        "accents, CJK, emoji, combining marks, RTL) x shard counts (0, 1, 2, 3, 7, 8, 16, 1000, 1024, 1025, 65535, 65536, "
        "70000, random) through the real ShardManager::get_shard, each case evaluated in two separate processes; "
        "engine histories: 1..5 real shards, 2..3 lifetimes of a real ShardManager on the same directories with "
        "STOREs to recurring contexts, observed in the per-shard WAL directories. Non-trivial = the implementation "
        "produced a shard index; distinct by (probe kind, context, shard count(s))")
ASSUMPTIONS = [
    "std's DefaultHasher is SipHash-1-3 with zero keys and str::hash appends the byte 0xff: facts of the pinned toolchain (nightly-2025-10-14), modelled executably and differentially tested, not proved; stability across Rust releases is outside any model (DefaultHasher's algorithm is documented as unspecified)",
    "usize is 64 bits (x86_64 harness target)",
    "engine level: STOREs are sent as ShardMessage::Store to get_shard(ctx) exactly as src/command/handlers/store.rs does (the handler itself, parsing and schema validation are not on this path); restarts are new ShardManager instances in one process, not new OS processes; reads are modelled (fan-out over all shards as in query/dispatch/streaming.rs, checked textually by the translator), not probed",
    "per-shard result merge order is not modelled: fanout_union is a multiset statement",
]
TRUSTED = [
    "Coq 8.16.1 kernel + coqc; vm_compute for the known-answer vectors and the example history",
    "translator tools/gen_params.py + tools/params/p22_route.py (the body of get_shard, STORE routing through it and the all_shards() fan-out are matched textually)",
    "extraction: ExtrOcamlBasic only; ocaml/driver.ml, conv.ml, p_route.ml (parsing/printing, grouping per context)",
    "correspondence harness /verif/harness (vharn fn route_*) built against /repo with --cfg sneldb_verif",
    "python oracle: an independent SipHash-1-3 written from the reference description",
]

CLAIMED = True
MANIFEST = {
 "level_text": "Theorems (unbounded, all histories of STOREs with arbitrary clocks and restarts, all shard counts): the routing hash is a 64-bit value and route = hash mod n < n; every stored event sits on shard route(ctx, n); a read FOR c fanned out to all shards is answered by that shard alone and returns every event of c in apply order; an unscoped read is a permutation of everything applied (no shard omitted); all ids of one context carry one shard tag (= route when n <= 1024). The SipHash-1-3 model is checked against reference vectors in Coq and run against the real ShardManager::get_shard on generated context strings and shard counts in separate processes, and against real multi-shard engine lifetimes (per-shard WAL directories).",
 "design_ref": "DESIGN.md §6 C12",
 "level_note": "Trusted: Coq kernel; tools/gen_params.py; ExtrOcamlBasic extraction + OCaml driver; the Rust harness; the python SipHash oracle. DefaultHasher = SipHash-1-3/zero keys is a fact of the pinned std, tested not proved; stability across Rust releases cannot be established. Reads are modelled, not probed."
}

M64 = (1 << 64) - 1


def siphash13(data, k0=0, k1=0):
    """Reference SipHash-1-3 (independent of the Coq model)."""
    def rotl(x, b):
        return ((x << b) | (x >> (64 - b))) & M64
    v0 = k0 ^ 0x736f6d6570736575
    v1 = k1 ^ 0x646f72616e646f6d
    v2 = k0 ^ 0x6c7967656e657261
    v3 = k1 ^ 0x7465646279746573

    def rnd():
        nonlocal v0, v1, v2, v3
        v0 = (v0 + v1) & M64; v1 = rotl(v1, 13); v1 ^= v0; v0 = rotl(v0, 32)
        v2 = (v2 + v3) & M64; v3 = rotl(v3, 16); v3 ^= v2
        v0 = (v0 + v3) & M64; v3 = rotl(v3, 21); v3 ^= v0
        v2 = (v2 + v1) & M64; v1 = rotl(v1, 17); v1 ^= v2; v2 = rotl(v2, 32)
    n = len(data)
    for i in range(0, n - n % 8, 8):
        m = int.from_bytes(data[i:i + 8], "little")
        v3 ^= m; rnd(); v0 ^= m
    b = ((n & 0xff) << 56) | int.from_bytes(data[n - n % 8:], "little")
    v3 ^= b; rnd(); v0 ^= b
    v2 ^= 0xff
    rnd(); rnd(); rnd()
    return v0 ^ v1 ^ v2 ^ v3


def ref_hash(ctx_bytes):
    return siphash13(ctx_bytes + b"\xff")


def corpus():
    return base.corpus_for(PROP)


WORDS = ["user", "ctx", "order", "tenant", "device", "a", "Z", "id", "session", "k"]
UNI = ["é", "ü", "ß", "中", "文", "日本", "한", "🙂", "🚀", "é", "‍", "א", "ب", "Ω", "ñ", " ", "　", "İ", "ı", "﻿"]
COUNTS = [1, 2, 3, 4, 5, 7, 8, 16, 64, 1000, 1023, 1024, 1025, 4096, 65535, 65536, 70000]


def gen_ctx(rng):
    r = rng.below(12)
    if r == 0:
        return rng.choice(["", " ", "  ", "\t", "\n", " \t ", " ", "　", "\x00", "0", "-", "''", '""'])
    if r == 1:   # around the block boundaries (the 0xff suffix makes len+1 the hashed length)
        n = rng.choice([5, 6, 7, 8, 9, 14, 15, 16, 17, 23, 24, 31, 32, 63, 64, 254, 255, 256, 257, 511, 512])
        return "".join(rng.choice("abcdefghijklmnopqrstuvwxyz0123456789") for _ in range(n))
    if r == 2:   # long
        n = rng.choice([1000, 4096, 5000, rng.range(300, 9000)])
        ch = rng.choice(["x", "ab", "ctx-", "é", "🙂"])
        return (ch * (n // len(ch) + 1))[:n]
    if r in (3, 4):   # non-ASCII
        return "".join(rng.choice(UNI + WORDS) for _ in range(rng.range(1, 6)))
    if r == 5:   # control characters / NUL inside
        s = rng.choice(WORDS) + rng.choice(["\x00", "\x01", "\x7f", "\r\n", "\x1b"]) + rng.choice(WORDS)
        return s
    # plain ids
    return rng.choice(WORDS) + rng.choice(["-", "_", ":", "", "/"]) + str(rng.below(rng.choice([10, 1000, 10 ** 9])))


def variants(rng, s):
    """Case / whitespace variants of one string."""
    out = [s, s.upper(), s.lower(), s.capitalize(), " " + s, s + " ", s + "\n", s + "\t", " " + s + " ", s.replace("-", " "), s + s]
    rng.next()
    return list(dict.fromkeys(out))


def cases(rng, tier):
    mult = 1 if tier == "quick" else 30
    out = []

    def add(kind, line, **kw):
        c = {"kind": kind, "line": line}
        c.update(kw)
        out.append(c)

    for _ in range(220 * mult):
        s = gen_ctx(rng)
        n = rng.choice(COUNTS + [rng.range(1, 200), rng.range(1, 70000)])
        add("get", f"route_get {n} {hx(s)}", ctx=s, ns=[n], show=f"get_shard({s[:40]!r}) among {n}")
    for _ in range(60 * mult):
        s = gen_ctx(rng)
        ns = sorted({rng.choice(COUNTS) for _ in range(rng.range(2, 6))})
        add("many", f"route_many {hx(s)} {' '.join(map(str, ns))}", ctx=s, ns=ns, show=f"{s[:40]!r} among {ns}")
    for _ in range(120 * mult):
        s = gen_ctx(rng)
        add("hash", f"route_hash {hx(s)}", ctx=s, show=f"hash({s[:40]!r})")
    for _ in range(25 * mult):
        s0 = rng.choice(WORDS) + rng.choice(["-", "_"]) + rng.choice(["ab", "Ab", "x1", "é", "I"])
        n = rng.choice([2, 3, 8, 1024])
        for v in variants(rng, s0):
            add("variant", f"route_get {n} {hx(v)}", ctx=v, ns=[n], show=f"variant {v!r} among {n}")
    # no shards: the % panics
    for s in ("a", ""):
        add("zero", f"route_get 0 {hx(s)}", ctx=s, ns=[0], show="0 shards")
    # engine histories
    for _ in range(14 * mult):
        n = rng.choice([1, 2, 3, 3, 4, 5])
        pool = []
        while len(pool) < rng.range(2, 7):
            s = gen_ctx(rng)
            if s.strip() and "\x00" not in s and len(s) < 600 and s not in pool:
                pool.append(s)
        groups = []
        for _g in range(rng.choice([2, 2, 3])):
            groups.append([rng.choice(pool) for _ in range(rng.range(1, 8))])
        line = f"route_engine {n} " + " / ".join(",".join(hx(s) for s in g) for g in groups)
        add("engine", line, n=n, groups=groups, show=f"{n} shards, lifetimes {[len(g) for g in groups]}")
    return out


def run_sides(cases_, model_ok):
    """Implementation side twice, in two different sets of fresh processes (the second run sees the
    cases in reverse order, so each case lands in another process and position); the second answer
    is kept on the case for the oracle."""
    lines = [c["line"] for c in cases_]
    impl = vlib.run_lines(vlib.VHARN, ["fn"], lines, timeout=900)
    # second evaluation, separate processes: function-level cases only (engine cases are whole lifetimes already)
    idx = [i for i, c in enumerate(cases_) if not c["line"].startswith("route_engine")]
    rev = list(reversed(idx))
    again = vlib.run_lines(vlib.VHARN, ["fn"], [lines[i] for i in rev], timeout=900, shards=7)
    for i, a in zip(rev, again):
        cases_[i]["_impl2"] = a
    model = vlib.run_lines(vlib.MODEL_RUN, [], lines, timeout=900) if model_ok else [None] * len(lines)
    return impl, model


def same(c, impl, model):
    return impl == model


def oracle(c, impl):
    line = c["line"]
    if impl in (None, "ABORT") or impl.startswith(("UNKNOWN", "BADUTF8", "ENGINE_ERROR", "BAD_WAL")):
        return f"implementation answered {impl}"
    if "_impl2" in c and c["_impl2"] != impl:
        return f"two processes disagree: {impl} vs {c['_impl2']}"
    if "ctx" in c:
        h = ref_hash(c["ctx"].encode("utf-8"))
    if line.startswith("route_hash"):
        if impl != f"H {h}":
            return f"hash differs from SipHash-1-3(ctx ++ 0xff) = {h}: {impl}"
        return None
    if line.startswith(("route_get", "route_many")):
        ns = c["ns"]
        if 0 in ns:
            return None if impl == "PANIC" else f"0 shards answered {impl}"
        if not impl.startswith("R "):
            return f"unexpected answer {impl}"
        got = [int(x) for x in impl[2:].split()]
        if len(got) != len(ns):
            return f"{len(got)} answers for {len(ns)} shard counts"
        for n, g in zip(ns, got):
            if not (0 <= g < n):
                return f"shard {g} out of range for {n} shards"
            if g != h % n:
                return f"shard {g} among {n} is not hash mod n = {h % n}"
        return None
    if line.startswith("route_engine"):
        if not impl.startswith("E "):
            return f"unexpected answer {impl}"
        n = c["n"]
        want = {}
        for g in c["groups"]:
            for s in g:
                want[s] = want.get(s, 0) + 1
        seen = {}
        for item in impl[2:].split():
            if item == "-":
                continue
            k, v = item.split("=")
            dirs, tags, cnt = v.split("/")
            seen[vlib.unhx(k).decode("utf-8")] = (dirs, tags, int(cnt))
        for s, cnt in want.items():
            if s not in seen:
                return f"context {s[:30]!r} not found in any shard's WAL"
            dirs, tags, got = seen[s]
            r = ref_hash(s.encode("utf-8")) % n
            if "+" in dirs:
                return f"context {s[:30]!r} appears under shards {dirs}"
            if int(dirs) != r:
                return f"context {s[:30]!r} is under shard {dirs}, hash mod n = {r}"
            if tags != str(r % 1024):
                return f"ids of context {s[:30]!r} carry shard tags {tags}, expected {r % 1024}"
            if got != cnt:
                return f"context {s[:30]!r}: {got} events in the WAL for {cnt} STOREs"
        if set(seen) - set(want):
            return f"unexpected contexts {sorted(set(seen) - set(want))[:3]}"
        return None
    return None


def classify(c, impl):
    return None


def nontrivial_key(c, impl):
    if impl and impl[:2] in ("R ", "H ", "E "):
        return (c["kind"], c["line"])
    return None
