"""C03 — reads see every applied write exactly once at every stage of its flush."""
import re
from props import base, shardprop
import shardlib

PROP = "C03"
PROPS_V = "theories/Props/C03.v"
THEOREMS = ["C03_select_exact", "C03_read_your_writes", "C03_fragile_outcome_refuted",
            "C03_outcomes_exact_outside_known", "C03_count_refuted", "C03_count_exact_outside_known",
            "C03_count_other_type_exact", "C03_CountDuringFlush_spec", "C03_select_exact_example", "C03_outcomes_exact_example",
            "C03_count_exact_example"]
RULE = ("engine histories on one shard (STORE/FLUSH/observe, park points inside the flush worker with reads issued "
        "while parked); an observation = QUERY RETURN + COUNT per type and typed REPLAY per (type, context); "
        "non-trivial = an observation taken with at least one event outside the active memtable; distinct by "
        "(configuration, op sequence)")
ASSUMPTIONS = ["thread interleavings are explored only through park points and quiescent observations",
               "one shard; the per-shard mailbox order is the tokio mpsc FIFO order (not modelled further)"]
TRUSTED = ["Coq 8.16.1 kernel + coqc", "extraction (ExtrOcamlBasic) + ocaml/p_shard.ml",
           "engine harness vharn life + tools/engine.py + tools/shardlib.py (trace -> label mapping)",
           "hooks in /repo under cfg(sneldb_verif): labelled step points"]
CLAIMED = True
MANIFEST = {
 "level_text": "Theorems over the shard state machine Model/Shard.v (all crash-free label histories, any interleaving of STORE, manual FLUSH, WAL-thread steps and flush-worker stage labels, any number of queued rotations, any capacity; unique event ids assumed): a selection returns exactly the applied events of the type, each once, at every reachable state (inductive invariant: an applied event is in the memtable, in an unreleased passive copy, or in a complete published segment; the passive copy is released only after publication; nothing scanned was not applied); read-your-writes. Refuted with witnesses and proved exact outside the known classes: a read issued while an in-flight segment has no files of the queried type may return the in-memory rows only (ReadDuringFlushDropsSegmentFlow); COUNT counts rotated rows twice between publication and passive release (CountDuringFlush); outside that class COUNT equals the selection whatever other event types memory holds (the former class CountIgnoresTypeInMemory is repaired by fix dc170f4; the model reads the regenerated flag agg_mem_filters_type, so the theorem stops checking if the in-memory aggregate loses the event-type condition again). The model is validated against the engine by trace validation of hooked runs, with reads issued while the flush worker is parked at each stage.",
 "design_ref": "DESIGN.md \u00a76 C03",
 "level_note": "Trusted: Coq kernel; ExtrOcamlBasic extraction + ocaml/p_shard.ml; the engine harness, tools/engine.py, tools/shardlib.py (trace -> label mapping); hooks under cfg(sneldb_verif). Not covered by the theorems: histories with crash/restart (C01), thread interleavings finer than the hook points, more than one shard, compaction. Unique event ids are a hypothesis (C18)."
}

PARK_POINTS = ["fw_begin", "fl_dir_created", "fl_index_entry_added", "fw_flushed", "fw_verified", "fw_published",
               "fw_passive_cleared", "fw_wal_cleaned"]


def corpus():
    return base.corpus_for(PROP)


def cases(rng, tier):
    out = []
    n = 24 if tier == "quick" else 600
    for i in range(n):
        cfg = rng.choice(shardprop.CFGS)
        ntypes, nctx = rng.range(1, 2), rng.range(1, 3)
        if i % 12 == 4:
            # a reader holds the lock of a passive buffer while the next rotation prunes the buffer set;
            # the flush worker is parked so that the passive copy is the only readable copy
            cap = cfg["fill_factor"] * cfg["event_per_zone"]
            u = rng.below(ntypes)
            ops = [("PARK", "fw_begin")]
            ops += [("SN", u, rng.below(nctx)) for _ in range(cap)] + [("WAITP", "fw_begin")]
            ops += [("PARK", "rd_passive_locked"), ("BGQ", u), ("WAITP", "rd_passive_locked")]
            ops += [("SN", rng.below(ntypes), rng.below(nctx)) for _ in range(cap)]
            ops += [("RELEASE", "rd_passive_locked"), ("JOIN",), ("OP", "fw_begin"), ("OP", "fw_begin")]
            ops += [("RELEASE", "fw_begin"), ("SETTLE",), ("O",)]
            out.append(shardprop.mk_case("reader-holds-passive", cfg, ntypes, nctx, ops))
        elif i % 12 == 10:
            # a flush that fails (a file blocks the segment directory): the passive copy stays the only
            # readable copy and must keep being read; no model prediction for the failed flush (oracle only)
            cap = cfg["fill_factor"] * cfg["event_per_zone"]
            ops = [("BLOCKSEG", 0)]
            ops += [("SN", rng.below(ntypes), rng.below(nctx)) for _ in range(cap)] + [("SETTLE",), ("O",)]
            ops += [("SN", rng.below(ntypes), rng.below(nctx)) for _ in range(rng.range(1, cap))] + [("SETTLE",), ("O",), ("O",)]
            out.append(shardprop.mk_case("flush-fails", cfg, ntypes, nctx, ops))
        elif i % 6 == 5:
            # reads racing with background flushes: every STORE is followed at once by a QUERY; after the
            # engine settled, every acknowledged event must be readable (also before any restart)
            cap = cfg["fill_factor"] * cfg["event_per_zone"]
            ops = [("SQ", rng.below(ntypes), rng.below(nctx)) for _ in range(rng.range(2 * cap, 5 * cap))]
            ops += [("SETTLE",), ("O",), ("R",), ("O",)]
            c = shardprop.mk_case("race", cfg, ntypes, nctx, ops)
            out.append(c)
        elif i % 3 == 0:
            # a park point inside the flush of a full memtable, reads while parked
            cap = cfg["fill_factor"] * cfg["event_per_zone"]
            ops = []
            if rng.chance(1, 2):
                # an earlier complete rotation (and sometimes a manual flush) so that segments already exist
                ops += [("S", rng.below(ntypes), rng.below(nctx)) for _ in range(cap)]
                if rng.chance(1, 3):
                    ops += [("S", rng.below(ntypes), rng.below(nctx)), ("F",)]
            ops += [("S", rng.below(ntypes), rng.below(nctx)) for _ in range(cap - 1)]
            # the STORE that fills the memtable triggers the background flush, which parks
            ops += [("P", rng.choice(PARK_POINTS), 1), ("S", rng.below(ntypes), rng.below(nctx)), ("O",)]
            ops += [("S", rng.below(ntypes), rng.below(nctx)), ("O",)]
            out.append(shardprop.mk_case("park", cfg, ntypes, nctx, ops))
        else:
            ops = shardprop.gen_history(rng, rng.range(6, 22), ntypes, nctx, p_restart=0)
            out.append(shardprop.mk_case("history", cfg, ntypes, nctx, ops))
    return out


run_sides = shardprop.run_sides


def diffs(c, impl, model):
    d = shardprop.diffs(c, impl, model)
    if c.get("kind") == "flush-fails":
        return []
    if c.get("kind") == "race":
        # the settled observation after racing reads (obs#0) may miss segment rows (known, schedule dependent
        # finding ReadDuringFlushPoisonsSegmentCache): what was READ is judged by the oracle only; the
        # directories, WAL files and everything after the restart are still compared with the model
        d = [x for x in d if not (x.startswith("obs#0:") and re.search(r"obs#0: (sel|cnt|rp)", x))]
    return d


def same(c, impl, model):
    return not diffs(c, impl, model)


def oracle(c, impl):
    if impl.get("line") is None:
        return None
    for n, o in enumerate(impl["obs"]):
        exp = shardprop.expected(o, c["ntypes"], c["nctx"])
        for key, v in exp.items():
            if key.startswith("rp"):
                if sorted(o[key]) != sorted(v):
                    return f"obs#{n} {key}: REPLAY returned {o[key]}, acknowledged events {v}"
            elif o[key] != v:
                return f"obs#{n} {key}: read {o[key]}, acknowledged {v}" + (f" (parked at {o['parked_at']})" if o.get("parked_at") else "")
    return None


def classify(c, impl, model=None):
    why = oracle(c, impl) or ""
    # COUNT differs from the selection: known only while a flush is parked between publication and release
    # (the double count the model predicts); the former class CountIgnoresTypeInMemory is repaired (dc170f4),
    # so a wrong COUNT at a quiescent observation is a violation again
    if " cnt" in why and "parked at" in why:
        return "CountDuringFlush"
    if "parked at" in why and (" sel" in why or " rp" in why):
        # known only in the states the model marks fragile for that event type (an in-flight segment
        # without files for the type): the model's own account decides, not the mere fact of a park point
        m = re.match(r"obs#(\d+) (?:sel|rp)(\d+)", why)
        if m and model:
            obs = model.split(" | ")
            n, u = int(m.group(1)), m.group(2)
            if n < len(obs) and f"fragile{u}=true" in obs[n]:
                return "ReadDuringFlushDropsSegmentFlow"
        return None
    if c.get("kind") == "race" and "obs#0" in why and (" sel" in why or " rp" in why or " cnt" in why):
        return "ReadDuringFlushPoisonsSegmentCache"
    return None


def nontrivial_key(c, impl):
    if impl.get("obs") and any(o["dirs"] for o in impl["obs"]):
        return c["show"]
    return None
