"""C03 — reads see every applied write exactly once at every stage of its flush."""
import re
from props import base, shardprop
import shardlib

PROP = "C03"
PROPS_V = "theories/Props/C03.v"
THEOREMS = ["C03_select_exact", "C03_read_your_writes", "C03_fragile_outcome_refuted",
            "C03_outcomes_exact_outside_known", "C03_count_refuted", "C03_count_exact_outside_known",
            "C03_count_other_type_exact", "C03_CountDuringFlush_spec", "C03_select_exact_example", "C03_outcomes_exact_example",
            "C03_count_exact_example"]
RULE = ("engine histories on one shard (STORE/FLUSH/observe, park points inside the flush worker with reads issued "
        "while parked); an observation = QUERY RETURN + COUNT per type and typed REPLAY per (type, context); "
        "non-trivial = an observation taken with at least one event outside the active memtable; distinct by "
        "(configuration, op sequence); plus scenarios: a read parked in its set-up while a whole flush runs (and a shard "
        "busy for 2.6 s), a reader holding a passive buffer's lock through the flush's release step, a flush that fails, "
        "reads racing flushes, and three oracle-only scenarios no model run follows: a selection of 85 000+ rows inside a "
        "flush window, more concurrent STOREs than the shard mailbox holds (8096) while the shard is parked")
ASSUMPTIONS = ["thread interleavings are explored only through park points and quiescent observations",
               "one shard; the per-shard mailbox order is the tokio mpsc FIFO order (not modelled further)"]
TRUSTED = ["Coq 8.16.1 kernel + coqc", "extraction (ExtrOcamlBasic) + ocaml/p_shard.ml",
           "engine harness vharn life + tools/engine.py + tools/shardlib.py (trace -> label mapping)",
           "hooks in /repo under cfg(sneldb_verif): labelled step points"]
CLAIMED = True
MANIFEST = {
 "level_text": "Theorems over the shard state machine Model/Shard.v (all crash-free label histories, any interleaving of STORE, manual FLUSH, WAL-thread steps and flush-worker stage labels, any number of queued rotations, any capacity; unique event ids assumed): a selection returns exactly the applied events of the type, each once, at every reachable state (inductive invariant: an applied event is in the memtable, in an unreleased passive copy, or in a complete published segment; the passive copy is released only after publication; nothing scanned was not applied); read-your-writes. Refuted with witnesses and proved exact outside the known classes: a read issued while an in-flight segment has no files of the queried type may return the in-memory rows only (ReadDuringFlushDropsSegmentFlow); COUNT counts rotated rows twice between publication and passive release (CountDuringFlush); outside that class COUNT equals the selection whatever other event types memory holds (the former class CountIgnoresTypeInMemory is repaired by fix dc170f4; the model reads the regenerated flag agg_mem_filters_type, so the theorem stops checking if the in-memory aggregate loses the event-type condition again). The model is validated against the engine by trace validation of hooked runs, with reads issued while the flush worker is parked at each stage.",
 "design_ref": "DESIGN.md \u00a76 C03",
 "level_note": "Trusted: Coq kernel; ExtrOcamlBasic extraction + ocaml/p_shard.ml; the engine harness, tools/engine.py, tools/shardlib.py (trace -> label mapping); hooks under cfg(sneldb_verif). Not covered by the theorems: histories with crash/restart (C01), thread interleavings finer than the hook points, more than one shard, compaction. Unique event ids are a hypothesis (C18)."
}

PARK_POINTS = ["fw_begin", "fl_dir_created", "fl_index_entry_added", "fw_flushed", "fw_verified", "fw_published",
               "fw_passive_cleared", "fw_wal_cleaned"]


RD_SETUP_POINTS = ["rd_plan_built", "rd_ctx_built", "rd_scan_start"]


def corpus():
    return base.corpus_for(PROP)


def large_cases(rng, tier):
    """Oracle-only engine scripts at a scale no model run can follow: a selection of more than 65 536 rows
    (and more than 4096 per segment) issued while the newest rotated memtable is in its flush window (files
    written and scanned through the in-flight marker, passive copy not yet released), so that tens of
    thousands of rows lie between the two copies of an event.  Every applied event must be returned once."""
    out = []
    for j in range(1 if tier == "quick" else 4):
        per = rng.choice([17000, 18000]) if j == 0 else rng.choice([9000, 23000, 35000])
        older = 4 if j == 0 else rng.range(2, 8)
        cfg = {"fill_factor": per // 1000, "event_per_zone": 1000, "shards": 1}
        point = "fw_flushed" if j == 0 else rng.choice(["fw_flushed", "fw_verified", "fw_published"])
        script = [("cmd", 'DEFINE t0 FIELDS { k: "int" }')]
        k = 0
        for _ in range(older * per):
            k += 1
            script.append(("raw", f'STORE t0 FOR c{k % 7:02d} PAYLOAD {{"k": {k}}}'))
        script += [("quiesce",), ("raw", f"!park {point}")]
        for _ in range(per):
            k += 1
            script.append(("raw", f'STORE t0 FOR c{k % 7:02d} PAYLOAD {{"k": {k}}}'))
        script += [("raw", f"!wait_parked {point} 20000"), ("cmd", "QUERY t0 RETURN [k]"),
                   ("raw", f"!release {point}"), ("quiesce",), ("cmd", "QUERY t0 RETURN [k]")]
        out.append({"kind": "large", "cfg": cfg, "script": [list(x) for x in script], "n": k, "point": point,
                    "show": f"large: {older} x {per} events flushed, {per} more with the flush parked at {point}; "
                            f"QUERY t0 RETURN [k] while parked and after release ({k} events)"})
    return out


def cases(rng, tier):
    out = []
    n = 24 if tier == "quick" else 600
    for i in range(n):
        cfg = rng.choice(shardprop.CFGS)
        ntypes, nctx = rng.range(1, 2), rng.range(1, 3)
        if i % 12 == 4:
            # a reader holds the lock of a passive buffer while the next rotation prunes the buffer set;
            # the flush worker is parked so that the passive copy is the only readable copy
            cap = cfg["fill_factor"] * cfg["event_per_zone"]
            u = rng.below(ntypes)
            ops = [("PARK", "fw_begin")]
            ops += [("SN", u, rng.below(nctx)) for _ in range(cap)] + [("WAITP", "fw_begin")]
            ops += [("PARK", "rd_passive_locked"), ("BGQ", u), ("WAITP", "rd_passive_locked")]
            ops += [("SN", rng.below(ntypes), rng.below(nctx)) for _ in range(cap)]
            ops += [("RELEASE", "rd_passive_locked"), ("JOIN",), ("OP", "fw_begin"), ("OP", "fw_begin")]
            ops += [("RELEASE", "fw_begin"), ("SETTLE",), ("O",)]
            out.append(shardprop.mk_case("reader-holds-passive", cfg, ntypes, nctx, ops))
        elif i % 12 == 7 or (tier != "quick" and i % 12 == 1):
            # a read parked in the middle of its set-up (before the plan is built / after the plan, before the
            # passive snapshot / after the snapshot) while the flush of the rotated memtable runs from start to
            # finish (files, index, publication, passive release, marker removal): the read resumes afterwards
            # and must still return every applied event once
            cap = cfg["fill_factor"] * cfg["event_per_zone"]
            u = rng.below(ntypes)
            point = RD_SETUP_POINTS[(i // 12) % len(RD_SETUP_POINTS)] if tier == "quick" else rng.choice(RD_SETUP_POINTS)
            ops = []
            if rng.chance(1, 2):
                ops += [("S", rng.below(ntypes), rng.below(nctx)) for _ in range(cap)]
            ops += [("PARK", "fw_begin")]
            ops += [("SN", u if j == 0 else rng.below(ntypes), rng.below(nctx)) for j in range(cap)] + [("WAITP", "fw_begin")]
            ops += [("PARK", point), ("BGQ", u), ("WAITP", point), ("MARKHITS", "fw_wal_cleaned")]
            ops += [("RELEASE", "fw_begin"), ("WAITMORE", "fw_wal_cleaned", 1)]
            if i == 7:
                # ... and the shard takes long to answer (longer than any plausible per-shard time-out of the read
                # fan-out): the read must still wait for it and return its events
                ops += [("SLEEP", 2600)]
            ops += [("RELEASE", point), ("JOIN",), ("SETTLE",), ("O",)]
            out.append(shardprop.mk_case("reader-mid-setup", cfg, ntypes, nctx, ops))
        elif i % 12 == 2:
            # a reader holds the lock of the passive buffer while the flush of that buffer runs up to the point where it
            # releases the in-memory copy: the flush must still release it (afterwards, at rest, COUNT = selection)
            cap = cfg["fill_factor"] * cfg["event_per_zone"]
            u = rng.below(ntypes)
            ops = [("PARK", "fw_begin")]
            ops += [("SN", u if j == 0 else rng.below(ntypes), rng.below(nctx)) for j in range(cap)] + [("WAITP", "fw_begin")]
            ops += [("PARK", "rd_passive_locked"), ("BGQ", u), ("WAITP", "rd_passive_locked"), ("MARKHITS", "fw_published")]
            ops += [("RELEASE", "fw_begin"), ("WAITMORE", "fw_published", 1), ("SLEEP", 150)]
            ops += [("RELEASE", "rd_passive_locked"), ("JOIN",), ("SETTLE",), ("O",)]
            ops += [("SN", rng.below(ntypes), rng.below(nctx)), ("SETTLE",), ("O",)]
            out.append(shardprop.mk_case("reader-holds-passive-through-release", cfg, ntypes, nctx, ops))
        elif i % 12 == 10:
            # a flush that fails (a file blocks the segment directory): the passive copy stays the only
            # readable copy and must keep being read; no model prediction for the failed flush (oracle only)
            cap = cfg["fill_factor"] * cfg["event_per_zone"]
            ops = [("BLOCKSEG", 0)]
            ops += [("SN", rng.below(ntypes), rng.below(nctx)) for _ in range(cap)] + [("SETTLE",), ("O",)]
            ops += [("SN", rng.below(ntypes), rng.below(nctx)) for _ in range(rng.range(1, cap))] + [("SETTLE",), ("O",), ("O",)]
            out.append(shardprop.mk_case("flush-fails", cfg, ntypes, nctx, ops))
        elif i % 6 == 5:
            # reads racing with background flushes: every STORE is followed at once by a QUERY; after the
            # engine settled, every acknowledged event must be readable (also before any restart)
            cap = cfg["fill_factor"] * cfg["event_per_zone"]
            ops = [("SQ", rng.below(ntypes), rng.below(nctx)) for _ in range(rng.range(2 * cap, 5 * cap))]
            ops += [("SETTLE",), ("O",), ("R",), ("O",)]
            c = shardprop.mk_case("race", cfg, ntypes, nctx, ops)
            out.append(c)
        elif i % 3 == 0:
            # a park point inside the flush of a full memtable, reads while parked
            cap = cfg["fill_factor"] * cfg["event_per_zone"]
            ops = []
            if rng.chance(1, 2):
                # an earlier complete rotation (and sometimes a manual flush) so that segments already exist
                ops += [("S", rng.below(ntypes), rng.below(nctx)) for _ in range(cap)]
                if rng.chance(1, 3):
                    ops += [("S", rng.below(ntypes), rng.below(nctx)), ("F",)]
            ops += [("S", rng.below(ntypes), rng.below(nctx)) for _ in range(cap - 1)]
            # the STORE that fills the memtable triggers the background flush, which parks
            ops += [("P", rng.choice(PARK_POINTS), 1), ("S", rng.below(ntypes), rng.below(nctx)), ("O",)]
            ops += [("S", rng.below(ntypes), rng.below(nctx)), ("O",)]
            out.append(shardprop.mk_case("park", cfg, ntypes, nctx, ops))
        else:
            ops = shardprop.gen_history(rng, rng.range(6, 22), ntypes, nctx, p_restart=0)
            out.append(shardprop.mk_case("history", cfg, ntypes, nctx, ops))
    return out + large_cases(rng.fork("large"), tier) + mailbox_cases(rng.fork("mailbox"), tier)


def mailbox_cases(rng, tier):
    """Oracle-only: the shard worker is parked inside a STORE, more STOREs than the shard mailbox holds (8096) arrive
    concurrently, the shard stays busy for longer than the handler's send time-out, then drains.  Every STORE that
    was answered 200 must be readable exactly once (an answer under back-pressure must not promise what is dropped)."""
    out = []
    for j in range(1 if tier == "quick" else 3):
        n = rng.range(8150, 8400)
        cfg = {"fill_factor": 20, "event_per_zone": 1000, "shards": 1}
        script = [("cmd", 'DEFINE t0 FIELDS { k: "int" }'), ("raw", "!park st_wal_sent"),
                  ("raw", 'STORE t0 FOR c00 PAYLOAD {"k": 0}' if False else '!bg STORE t0 FOR c00 PAYLOAD {"k": 0}'),
                  ("raw", "!wait_parked st_wal_sent 3000"),
                  ("raw", f'!blast {n} 1 STORE t0 FOR c01 PAYLOAD {{"k": {{i}}}}'),
                  ("raw", f"!sleep {rng.range(1300, 1800)}"), ("raw", "!release st_wal_sent"), ("raw", "!join"),
                  ("quiesce",), ("raw", "!sleep 300"), ("cmd", "QUERY t0 RETURN [k]")]
        out.append({"kind": "mailbox", "cfg": cfg, "script": [list(x) for x in script], "n": n,
                    "show": f"mailbox: shard parked inside a STORE, {n} concurrent STOREs (mailbox 8096), shard busy > 1 s, drain, QUERY"})
    return out


def run_sides(cases_, model_ok):
    from props import englib
    mb = [c for c in cases_ if c.get("kind") == "mailbox"]
    mbi = []
    for c in mb:
        r = englib.run_script(c)
        res = [x for x in r.get("res", []) if x is not None]
        bl = next((x["blast"] for x in res if "blast" in x), None)
        q = res[-1] if res else {}
        ks = [row.get("k") for row in (q.get("rows") or [])]
        import collections as _c
        acked = set([0] + (bl or {}).get("ok", []))
        mbi.append({"ok": r.get("ok") and bl is not None, "err": r.get("err"), "line": "mailbox", "obs": [],
                    "acked": len(acked), "busy": len((bl or {}).get("busy", [])), "other": (bl or {}).get("other", [])[:5],
                    "status": q.get("status"), "rows": len(ks),
                    "missing": sorted(acked - set(ks))[:10], "repeated": sorted(k for k, m in _c.Counter(ks).items() if m > 1)[:10]})
    it_mb = iter(mbi)
    rest = [c for c in cases_ if c.get("kind") != "mailbox"]
    ri, rm = _run_sides_rest(rest, model_ok) if rest else ([], [])
    it_ri, it_rm = iter(ri), iter(rm)
    impl, model = [], []
    for c in cases_:
        if c.get("kind") == "mailbox":
            impl.append(next(it_mb)); model.append(None)
        else:
            impl.append(next(it_ri)); model.append(next(it_rm))
    return impl, model


def _run_sides_rest(cases_, model_ok):
    from props import englib
    sh = [c for c in cases_ if c.get("kind") != "large"]
    lg = [c for c in cases_ if c.get("kind") == "large"]
    si, sm = shardprop.run_sides(sh, model_ok) if sh else ([], [])
    li = []
    for c in lg:
        r = englib.run_script(c)
        # keep only what the oracle needs (the row lists are large)
        qs = [x for x in r.get("res", []) if x is not None]
        brief = []
        for x in qs[-2:]:
            ks = [row.get("k") for row in (x.get("rows") or [])]
            brief.append({"status": x.get("status"), "rows": len(ks), "distinct": len(set(ks)),
                          "missing": sorted(set(range(1, c["n"] + 1)) - set(ks))[:10],
                          "repeated": sorted(k for k, n in __import__("collections").Counter(ks).items() if n > 1)[:10]})
        li.append({"ok": r.get("ok"), "err": r.get("err"), "reads": brief, "line": "large", "obs": []})
    it_s, it_m, it_l = iter(si), iter(sm), iter(li)
    impl, model = [], []
    for c in cases_:
        if c.get("kind") == "large":
            impl.append(next(it_l)); model.append(None)
        else:
            impl.append(next(it_s)); model.append(next(it_m))
    return impl, model


def diffs(c, impl, model):
    if c.get("kind") in ("large", "mailbox"):
        return []
    d = shardprop.diffs(c, impl, model)
    if c.get("kind") == "flush-fails":
        return []
    if c.get("kind") == "race":
        # the settled observation after racing reads (obs#0) may miss segment rows (known, schedule dependent
        # finding ReadDuringFlushPoisonsSegmentCache): what was READ is judged by the oracle only; the
        # directories, WAL files and everything after the restart are still compared with the model
        d = [x for x in d if not (x.startswith("obs#0:") and re.search(r"obs#0: (sel|cnt|rp)", x))]
    return d


def same(c, impl, model):
    return not diffs(c, impl, model)


def oracle(c, impl):
    if c.get("kind") == "mailbox":
        if not impl.get("ok"):
            return "engine harness: " + str(impl.get("err"))
        if impl["status"] != 200 or impl["missing"] or impl["repeated"] or impl["other"]:
            return (f"mailbox saturation: {impl['acked']} STOREs were answered 200 ({impl['busy']} answered 503), the read after the "
                    f"drain returns {impl['rows']} rows: acknowledged events missing e.g. {impl['missing'][:5]}, returned twice e.g. "
                    f"{impl['repeated'][:5]}, answers that are neither 200 nor 503 e.g. {impl['other'][:3]} (status {impl['status']})")
        return None
    if c.get("kind") == "large":
        if not impl.get("ok"):
            return "engine harness: " + str(impl.get("err"))
        for which, rd in zip(("while the flush is parked at " + c["point"], "after the flush completed"), impl["reads"]):
            if rd["status"] != 200 or rd["rows"] != c["n"] or rd["distinct"] != c["n"]:
                return (f"large selection {which}: {rd['rows']} rows, {rd['distinct']} distinct events, {c['n']} applied "
                        f"(missing e.g. {rd['missing'][:5]}, repeated e.g. {rd['repeated'][:5]}, status {rd['status']})")
        return None
    if impl.get("line") is None:
        return None
    for q in impl.get("bgreads", []):
        # a read that was in the middle of its set-up while a whole flush ran: every event applied before the read
        # was issued exactly once
        got = q.get("rows", [])
        lost = sorted(set(q["must"]) - set(got))
        twice = sorted(k for k in set(got) if got.count(k) > 1)
        if q.get("status") != 200 or lost or twice:
            return (f"background QUERY t{q['u']} (parked in its set-up while a flush ran to completion) returned {got}, "
                    f"applied before it was issued {q['must']}: LOST {lost} TWICE {twice} status {q.get('status')}")
    for n, o in enumerate(impl["obs"]):
        exp = shardprop.expected(o, c["ntypes"], c["nctx"])
        for key, v in exp.items():
            if key.startswith("rp"):
                if sorted(o[key]) != sorted(v):
                    return f"obs#{n} {key}: REPLAY returned {o[key]}, acknowledged events {v}"
            elif o[key] != v:
                return f"obs#{n} {key}: read {o[key]}, acknowledged {v}" + (f" (parked at {o['parked_at']})" if o.get("parked_at") else "")
    return None


def classify(c, impl, model=None):
    why = oracle(c, impl) or ""
    # COUNT differs from the selection: known only while a flush is parked between publication and release
    # (the double count the model predicts); the former class CountIgnoresTypeInMemory is repaired (dc170f4),
    # so a wrong COUNT at a quiescent observation is a violation again
    if " cnt" in why and "parked at" in why:
        # ... and only as an OVER-count (rows present in the passive copy and in the segment): a COUNT below the number
        # of applied events means events are missing from the aggregate, which no known finding explains
        m = re.search(r"read (\d+), acknowledged (\d+)", why)
        if m and int(m.group(1)) > int(m.group(2)):
            return "CountDuringFlush"
        return None
    if "parked at" in why and (" sel" in why or " rp" in why):
        # known only in the states the model marks fragile for that event type (an in-flight segment
        # without files for the type): the model's own account decides, not the mere fact of a park point
        m = re.match(r"obs#(\d+) (?:sel|rp)(\d+)", why)
        if m and model:
            obs = model.split(" | ")
            n, u = int(m.group(1)), m.group(2)
            if n < len(obs) and f"fragile{u}=true" in obs[n]:
                return "ReadDuringFlushDropsSegmentFlow"
        return None
    if c.get("kind") == "race" and "obs#0" in why and (" sel" in why or " rp" in why or " cnt" in why):
        return "ReadDuringFlushPoisonsSegmentCache"
    return None


def nontrivial_key(c, impl):
    if c.get("kind") == "mailbox":
        return c["show"] if impl.get("ok") and impl.get("busy") else None
    if c.get("kind") == "large":
        return c["show"] if impl.get("ok") else None
    if impl.get("obs") and any(o["dirs"] for o in impl["obs"]):
        return c["show"]
    return None
