"""C15 — sequence queries return exactly the linked, correctly ordered pairs."""
import json, os, concurrent.futures
import vlib
from vlib import hx, unhx
from props import base

PROP = "C15"
PROPS_V = "theories/Props/C15.v"
THEOREMS = [
    "C15_pairs_sound",
    "C15_followed_by_matched_iff",
    "C15_matcher_incomplete_refuted",
    "C15_pushdown_exact_for_conjunctions",
    "C15_pushdown_refuted",
    "C15_matched_iff_exists_followed_by",
    "C15_matched_iff_exists_preceded_by",
    "C15_preceded_by_matched_iff",
    "C15_limit_bounds",
    "C15_each_a_matched_at_most_once",
    "C15_group_matches_follow_a_rows",
    "C15_matched_count_le_a_rows",
]
RULE = ("function level: columnar zones laid out like SequenceStreamMerger::batches_to_zones (1-3 zones per type incl. empty zones and "
        "zones without link / time column, link texts shared by many rows, by one side only, aliasing integers ('5','05','+5'), empty and "
        "'null'; times with ties, nulls, negatives, i64::MAX; field cells numeric, empty, non-numeric) x FOLLOWED BY / PRECEDED BY x WHERE "
        "trees (AND/OR/NOT over comparisons prefixed with either type, a third type, or un-prefixed incl. ambiguous ones) x LIMIT through "
        "the real ColumnarGrouper + SequenceWhereEvaluator + SequenceMatcher + SequenceMaterializer (zones share zone ids pairwise like zones of two segments; every built event must be the event of its row index), raw and pre-filtered by the per-type WHERE as the pipeline "
        "does; engine level: STORE histories over two event types (several contexts, 1 or 3 shards, memory / flushed / mixed placement) "
        "and QUERY a FOLLOWED BY|PRECEDED BY b LINKED BY k USING TIME t [WHERE ..] [LIMIT n] through the real engine.  A case is "
        "non-trivial when at least one pair was returned or expected; distinct by (kind, link, implementation output)")
ASSUMPTIONS = [
    "only integer comparisons in WHERE are modelled (Expr::Compare with an integer literal); IN, string and float literals are outside the model",
    "the two event types of a sequence are different (a FOLLOWED BY a pairs every event with itself; not part of the model)",
    "sequences with more than one link return nothing (SequenceMatcher::match_in_group) and are not part of the property",
    "engine level: each per-type sub-query is an exact row filter for the generated WHERE clauses (C02); this is observed per history (the rows each sub-query delivers are given to the model, which flags a difference) and holds on the repaired tree for every generated placement, memory / flushed / mixed, and operator incl. != and NOT",
    "rows with equal time keep an unspecified relative order (arrival order of batches); comparisons at engine level are modulo the choice among equal-time partners",
    "engine level: a read anomaly of the plain per-type QUERY (row without payload, unstable sub-query result; seen about once in 25 000 histories under heavy load, C03's domain) makes the history be repeated on a fresh engine (at most twice, logged to work/c15_anomalies.log)",
]
TRUSTED = [
    "Coq 8.16.1 kernel + coqc; vm_compute for closed witnesses; no native_compute",
    "translator tools/params/p60_sequence.py (which pointer the final else branch of match_preceded_by advances is read from the Rust text - the a pointer since fix 49473e7; the comparisons, pointer moves, u64 cast, group order and WHERE collapse rules the model hard-codes are checked to be still present)",
    "extraction: ExtrOcamlBasic only; ocaml/driver.ml, conv.ml, p_seq.ml (parsing/printing)",
    "correspondence harness /verif/harness (vharn fn seq_match; vharn life for the engine-level cases through tools/engine.py) built against /repo with --cfg sneldb_verif",
    "python oracle: brute-force enumeration of all (a, b) pairs per the property text, independent of model and implementation",
]

CLAIMED = True
MANIFEST = {
 "level_text": "Theorems over the model of grouping, the two sweeps, group order, LIMIT and the per-type WHERE push-down (all event sets, link values, times, WHERE trees): every returned pair is linked, correctly ordered and both sides satisfy their WHERE; for FOLLOWED BY on the composed pipeline an a-event is matched iff a qualifying b-event exists whenever the WHERE is a conjunction of one-sided conditions and times are non-negative; the same holds for PRECEDED BY since fix 49473e7 (no class of its own left); the matcher alone and cross-type OR/NOT are refuted with witnesses and the exact failing classes; LIMIT bounds the result; no a-event is matched twice (the a-components of the returned pairs are pairwise different whenever the a-rows are, and within a link group they are a subsequence of the group's time-ordered a-rows; hence never more sequences than a-rows), for both links, every WHERE, LIMIT and b-list. The model is run against the real ColumnarGrouper/SequenceMatcher on generated zones and against the real engine on generated histories, with a brute-force pair enumeration as oracle.",
 "design_ref": "DESIGN.md §6 C15",
 "level_note": "Trusted: Coq kernel; ExtrOcamlBasic extraction + OCaml driver; the Rust harness and the engine driver; the Python brute-force oracle. Only integer comparisons are modelled; the per-type sub-query is assumed to be an exact filter (C02)."
}

TA, TB, TC = "pa", "pb", "pc"


def corpus():
    return base.corpus_for(PROP)


# ------------------------------------------------------------------ WHERE trees (python side: generation, printing, reference semantics)
OPS = {"eq": "=", "ne": "!=", "gt": ">", "ge": ">=", "lt": "<", "le": "<="}


def leaf(p, f, op, c):
    return ("c", p, f, op, c)


def rpn(e):
    if e is None:
        return "-"
    if e[0] == "c":
        return f"c:{hx(e[1]) if e[1] else '-'}:{hx(e[2])}:{e[3]}:{e[4]}"
    if e[0] == "!":
        return rpn(e[1]) + "~!"
    return rpn(e[1]) + "~" + rpn(e[2]) + "~" + e[0]


def sql(e):
    if e[0] == "c":
        return f"{e[1] + '.' if e[1] else ''}{e[2]} {OPS[e[3]]} {e[4]}"
    if e[0] == "!":
        return f"NOT ({sql(e[1])})"
    return f"({sql(e[1])} {'AND' if e[0] == '&' else 'OR'} {sql(e[2])})"


def cmp_holds(op, n, c):
    return {"eq": n == c, "ne": n != c, "gt": n > c, "ge": n >= c, "lt": n < c, "le": n <= c}[op]


def parse_i64(s):
    if s is None:
        return None
    t = s[1:] if s[:1] in "+-" else s
    if not t or not (t.isascii() and t.isdigit()):
        return None
    v = int(s)
    return v if -2 ** 63 <= v < 2 ** 63 else None


def transform(e, ty):
    """the condition the property addresses to one side: own-prefixed and un-prefixed comparisons"""
    if e[0] == "c":
        if e[1]:
            return leaf(None, e[2], e[3], e[4]) if e[1] == ty else None
        return e
    if e[0] == "!":
        x = transform(e[1], ty)
        return ("!", x) if x else None
    l, r = transform(e[1], ty), transform(e[2], ty)
    if l and r:
        return (e[0], l, r)
    return l or r


def eval_row(e, fields):
    if e[0] == "c":
        n = parse_i64(fields.get(e[2]))
        return n is not None and cmp_holds(e[3], n, e[4])
    if e[0] == "!":
        return not eval_row(e[1], fields)
    if e[0] == "&":
        return eval_row(e[1], fields) and eval_row(e[2], fields)
    return eval_row(e[1], fields) or eval_row(e[2], fields)


def side_ok(wh, ty, fields):
    if wh is None:
        return True
    t = transform(wh, ty)
    return True if t is None else eval_row(t, fields)


def eval_pair(e, a, b, da, db):
    """WHERE read on a pair: pa.* about the a-event, pb.* about the b-event; an un-prefixed field that exactly one of the two
    schemas declares (da, db) is addressed to that type, any other un-prefixed field to both"""
    if e[0] == "c":
        if e[1] == TA:
            return eval_row(leaf(None, e[2], e[3], e[4]), a)
        if e[1] == TB:
            return eval_row(leaf(None, e[2], e[3], e[4]), b)
        if e[1]:
            return True
        ina, inb = e[2] in da, e[2] in db
        if ina and not inb:
            return eval_row(e, a)
        if inb and not ina:
            return eval_row(e, b)
        return eval_row(e, a) and eval_row(e, b)
    if e[0] == "!":
        return not eval_pair(e[1], a, b, da, db)
    if e[0] == "&":
        return eval_pair(e[1], a, b, da, db) and eval_pair(e[2], a, b, da, db)
    return eval_pair(e[1], a, b, da, db) or eval_pair(e[2], a, b, da, db)


def gen_where(rng, depth, fields_a, fields_b, conj_only=False):
    r = rng.below(10)
    if depth <= 0 or r < 4:
        p = rng.choice([TA, TA, TB, TB, None, TC]) if not conj_only else rng.choice([TA, TB])
        pool = {TA: fields_a, TB: fields_b}.get(p) or (fields_a + fields_b)
        f = rng.choice(pool + (["k", "t"] if rng.chance(1, 5) else []))
        return leaf(p, f, rng.choice(list(OPS)), rng.range(-1, 4))
    if conj_only:
        return ("&", gen_where(rng, depth - 1, fields_a, fields_b, True), gen_where(rng, depth - 1, fields_a, fields_b, True))
    if r < 7:
        return ("&", gen_where(rng, depth - 1, fields_a, fields_b), gen_where(rng, depth - 1, fields_a, fields_b))
    if r < 9:
        return ("|", gen_where(rng, depth - 1, fields_a, fields_b), gen_where(rng, depth - 1, fields_a, fields_b))
    return ("!", gen_where(rng, depth - 1, fields_a, fields_b))


# ------------------------------------------------------------------ function-level cases
LINKS = ["1", "2", "3", "1", "2", "5", "05", "+5", "u1", "", "null", "-0", "0", "9223372036854775807", "9223372036854775808", "é"]
CELLS = ["0", "1", "2", "3", "1", "2", "", "abc", "-1", "+2", "02"]


def gen_rows(rng, fields, nrows, times, links):
    rows = []
    for _ in range(nrows):
        t = rng.choice(times)
        rows.append({"k": rng.choice(links), "t": t, "f": {f: rng.choice(CELLS) for f in fields}})
    return rows


def zones_tok(zones, fields):
    """zones: list of (flags, rows)"""
    if zones is None:
        return "-"
    out = []
    for flags, rows in zones:
        rs = ";".join(",".join(["~" if r["k"] is None else hx(r["k"]), "n" if r["t"] is None else str(r["t"])] + [hx(r["f"][f]) for f in fields]) for r in rows)
        out.append(f"{flags}:{rs}")
    return "/".join(out)


def gen_fn(rng, prefilter):
    fa = rng.choice([["x"], ["x"], ["x", "z"], ["x", "w"]])
    fb = rng.choice([["y"], ["y"], ["y", "z"], ["y", "v"]])
    nice = rng.chance(3, 5)
    times = [rng.range(0, 9) for _ in range(5)] + ([None, -3, 2 ** 63 - 1, -2 ** 63] if not nice else [])
    links = [rng.choice(LINKS[:6]) for _ in range(rng.choice([1, 2, 2, 3]))] if nice else [rng.choice(LINKS) for _ in range(rng.choice([2, 3, 4]))]
    zs = {}
    for ty, f in ((TA, fa), (TB, fb)):
        if rng.chance(1, 25):
            zs[ty] = None
            continue
        zones = []
        for _ in range(rng.choice([1, 1, 2, 3])):
            flags = "LT" if nice or rng.chance(5, 6) else rng.choice(["L", "T", "N"])
            zones.append((flags, gen_rows(rng, f, rng.choice([0, 1, 2, 3, 4, 5, 6, 8]), times, links)))
        zs[ty] = zones
    wh = None
    if rng.chance(1, 2):
        wh = gen_where(rng, rng.range(0, 3), fa, fb, conj_only=rng.chance(1, 3))
    lk = rng.choice(["FB", "PB"])
    lim = rng.choice(["-", "-", "-", "-", "0", "1", "2", "5"])
    if prefilter and wh is not None:
        for ty in (TA, TB):
            if zs[ty] is not None:
                zs[ty] = [(fl, [r for r in rows if side_ok(wh, ty, r["f"] | {"k": r["k"], "t": None if r["t"] is None else str(r["t"])})]) for fl, rows in zs[ty]]
    line = (f"seq_match {lk} {lim} {rpn(wh)} {hx(TA)} {hx(TB)} {','.join(map(hx, fa))} {','.join(map(hx, fb))} "
            f"{zones_tok(zs[TA], fa)} {zones_tok(zs[TB], fb)}")
    show = f"{TA} {'FOLLOWED' if lk == 'FB' else 'PRECEDED'} BY {TB} LINKED BY k" + (f" WHERE {sql(wh)}" if wh else "") + ("" if lim == "-" else f" LIMIT {lim}")
    return {"kind": "fn_prefiltered" if prefilter else "fn_raw", "line": line, "show": show + " | " + line.split(" ", 8)[8]}


# ------------------------------------------------------------------ engine-level cases
def gen_eng(rng, idx):
    """events of two types with unique position u; the case line reuses the seq_match syntax (one zone per type = the stored
    events in STORE order) followed by the placement: <shards><i|s|o>:<ops>  (link field declared int / string / optional
    int) where ops = S<type index><row index> | F (FLUSH), ',' separated"""
    fa, fb = ["x"], ["y"]
    lkind = rng.choice(["i", "i", "i", "s", "o"])
    times = [rng.range(0, 12) for _ in range(6)]
    if rng.chance(1, 8):
        times += [-rng.range(1, 9), -1]
    if lkind == "s":
        links = [rng.choice(["5", "05", "x", "7", "+5", "x y"]) for _ in range(4)]
    else:
        links = [str(rng.range(1, rng.choice([1, 2, 3]))) for _ in range(4)]
        if lkind == "o":
            links += [None, None]
    ev = {}
    for ty, f, n in ((TA, fa, rng.range(0, 6)), (TB, fb, rng.range(0, 6))):
        ev[ty] = [{"k": rng.choice(links), "t": rng.choice(times), "f": {f[0]: str(rng.range(0, 3))}} for _ in range(n)]
    flushed = rng.choice(["mem", "mem", "flush_all", "mixed"])
    wh = None
    if rng.chance(3, 5):
        wh = gen_where(rng, rng.range(0, 2), fa, fb, conj_only=rng.chance(1, 2))
    lk = rng.choice(["FB", "PB"])
    lim = rng.choice(["-", "-", "-", "1", "2", "3"])
    order = [(0, i) for i in range(len(ev[TA]))] + [(1, i) for i in range(len(ev[TB]))]
    for i in range(len(order) - 1, 0, -1):
        j = rng.below(i + 1)
        order[i], order[j] = order[j], order[i]
    ops = [f"S{t}{i}" for t, i in order]
    if flushed == "flush_all":
        ops.append("F")
    elif flushed == "mixed" and ops:
        ops.insert(rng.range(1, len(ops)), "F")
    shards = rng.choice([1, 1, 3])
    line = (f"seq_eng {lk} {lim} {rpn(wh)} {hx(TA)} {hx(TB)} {hx('x')} {hx('y')} "
            f"{zones_tok([('LT', ev[TA])], fa)} {zones_tok([('LT', ev[TB])], fb)} {shards}{lkind}:{','.join(ops) if ops else '-'}")
    show = (f"[{shards} shard(s), {flushed}, k {dict(i='int', s='string', o='int | null')[lkind]}] QUERY {TA} {'FOLLOWED' if lk == 'FB' else 'PRECEDED'} BY {TB} LINKED BY k USING TIME t"
            + (f" WHERE {sql(wh)}" if wh else "") + ("" if lim == "-" else f" LIMIT {lim}")
            + " | " + TA + ": " + " ".join(f"(k={r['k']},t={r['t']},x={r['f']['x']})" for r in ev[TA])
            + " | " + TB + ": " + " ".join(f"(k={r['k']},t={r['t']},y={r['f']['y']})" for r in ev[TB]))
    return {"kind": "eng_" + flushed, "line": line, "show": show}


def gen_eng_large(rng, npairs):
    """many sequences in one answer (the result stream is cut into batches: sizes around multiples of the batch size):
    npairs link values, one a-event and one b-event each (a tenth of the b-events precede their a-event and match only
    with PRECEDED BY), no WHERE, no LIMIT"""
    fa, fb = ["x"], ["y"]
    ev = {TA: [], TB: []}
    for j in range(npairs):
        ta = rng.range(1, 9)
        tb = ta + rng.range(0, 3) if not rng.chance(1, 10) else ta - 1
        ev[TA].append({"k": str(j + 1), "t": ta, "f": {"x": str(j % 3)}})
        ev[TB].append({"k": str(j + 1), "t": tb, "f": {"y": str(j % 2)}})
    lk = rng.choice(["FB", "FB", "PB"])
    order = [(0, i) for i in range(npairs)] + [(1, i) for i in range(npairs)]
    for i in range(len(order) - 1, 0, -1):
        j = rng.below(i + 1)
        order[i], order[j] = order[j], order[i]
    ops = [f"S{t}{i}" for t, i in order]
    flushed = rng.choice(["mem", "flush_all", "mixed"])
    if flushed == "flush_all":
        ops.append("F")
    elif flushed == "mixed":
        ops.insert(rng.range(1, len(ops)), "F")
    # hundreds of automatic flushes are queued behind these stores; reads that race with them belong to C03 (its known
    # findings CountDuringFlush / ReadDuringFlushDropsSegmentFlow show here as an a-event matched twice - the sequence
    # path has no de-duplication - or as missing rows): the sequence query is asked once the flushes are done
    ops.append("W")
    shards = rng.choice([1, 3])
    line = (f"seq_eng {lk} - {rpn(None)} {hx(TA)} {hx(TB)} {hx('x')} {hx('y')} "
            f"{zones_tok([('LT', ev[TA])], fa)} {zones_tok([('LT', ev[TB])], fb)} {shards}i:{','.join(ops)}")
    show = (f"[{shards} shard(s), {flushed}, k int] QUERY {TA} {'FOLLOWED' if lk == 'FB' else 'PRECEDED'} BY {TB} LINKED BY k USING TIME t"
            f" | {npairs} link values, one {TA} and one {TB} event each")
    return {"kind": "eng_large_" + flushed, "line": line, "show": show}


def cases(rng, tier):
    quick = tier == "quick"
    out = []
    for _ in range(1500 if quick else 50000):
        out.append(gen_fn(rng, False))
    for _ in range(1500 if quick else 50000):
        out.append(gen_fn(rng, True))
    for i in range(300 if quick else 5000):
        out.append(gen_eng(rng, i))
    for n in ([rng.choice([513, 600]), rng.choice([512, 1025])] if quick else [511, 512, 513, 514, 600, 1023, 1024, 1025, 1026, 1537, 2049] + [rng.range(500, 2100) for _ in range(6)]):
        out.append(gen_eng_large(rng, n))
    return out


# ------------------------------------------------------------------ parsing a case line back (for the oracle and the engine driver)
def parse_where(tok):
    if tok == "-":
        return None
    st = []
    for t in tok.split("~"):
        if t in ("&", "|"):
            r = st.pop(); l = st.pop(); st.append((t, l, r))
        elif t == "!":
            st.append(("!", st.pop()))
        else:
            _, p, f, op, c = t.split(":")
            st.append(leaf(None if p == "-" else unhx(p).decode(), unhx(f).decode(), op, int(c)))
    return st.pop()


def parse_zones(tok, fields):
    """-> list of events {pos, k (text or None), t (int or None), f: {name: text}}"""
    if tok == "-":
        return []
    out = []
    for z in tok.split("/"):
        flags, rows = z.split(":", 1)
        if not rows:
            continue
        for r in rows.split(";"):
            c = r.split(",")
            out.append({"pos": len(out), "k": (None if c[0] == "~" else unhx(c[0]).decode()) if "L" in flags else None,
                        "t": (None if c[1] == "n" else int(c[1])) if "T" in flags else None,
                        "f": {f: unhx(c[2 + i]).decode() for i, f in enumerate(fields)}})
    return out


def parse_case(line):
    p = line.split()
    fa = [unhx(x).decode() for x in p[6].split(",")] if p[6] != "-" else []
    fb = [unhx(x).decode() for x in p[7].split(",")] if p[7] != "-" else []
    return {"probe": p[0], "link": p[1], "limit": None if p[2] == "-" else int(p[2]), "where": parse_where(p[3]),
            "fa": fa, "fb": fb, "A": parse_zones(p[8], fa), "B": parse_zones(p[9], fb), "place": p[10] if len(p) > 10 else None}


def row_fields(ev):
    d = dict(ev["f"])
    d["k"] = ev["k"]
    d["t"] = None if ev["t"] is None else str(ev["t"])
    return d


# ------------------------------------------------------------------ the engine side of seq_eng cases
def run_engine_case(line):
    """One engine per case.  A read anomaly of the plain per-type QUERY (a row without its payload, or the two observations of
    a sub-query differing) is not a sequence-query result: it was seen about once in 25 000 cases under heavy machine load and
    belongs to C03.  Such a case is repeated on a fresh engine (at most twice) and the anomaly is logged to
    work/c15_anomalies.log; if it persists it is reported."""
    out = None
    for attempt in range(3):
        out = run_engine_case_once(line)
        if not out.startswith(("ENGINE_EXC_ValueError", "UNSTABLE_READS")):
            return out
        try:
            with open(os.path.join(vlib.WORK, "c15_anomalies.log"), "a") as f:
                f.write(f"attempt {attempt}: {line}\n   {out}\n")
        except OSError:
            pass
    return out


def run_engine_case_once(line):
    import engine
    c = parse_case(line)
    shards, ops = c["place"].split(":")
    lkind = shards[-1]
    shards = shards[:-1]
    ktype = {"i": "int", "s": "string", "o": "int | null"}[lkind]
    e = engine.Engine(shards=int(shards))
    try:
        e.start()
        for ty, f in ((TA, "x"), (TB, "y")):
            r = e.cmd(f'DEFINE {ty} FIELDS {{ k: "{ktype}", t: "int", {f}: "int", u: "int" }}')
            if "200" not in r.get("out", ""):
                return f"ENGINE_ERR define {r}"
        evs = {0: c["A"], 1: c["B"]}
        if ops != "-":
            for op in ops.split(","):
                if op == "F":
                    e.cmd("FLUSH")
                    e.cmd("!flushwait")
                elif op == "W":
                    # no FLUSH: only wait until the automatic flushes of full memtables are done
                    e.cmd("!flushwait")
                else:
                    t, i = int(op[1]), int(op[2:])
                    ev = evs[t][i]
                    ty, f = (TA, "x") if t == 0 else (TB, "y")
                    payload = {"t": ev["t"], f: int(ev["f"][f]), "u": ev["pos"]}
                    if ev["k"] is not None:
                        payload["k"] = ev["k"] if lkind == "s" else int(ev["k"])
                    r = e.cmd(f'STORE {ty} FOR ctx{(i + t) % 3} PAYLOAD {json.dumps(payload)}')
                    if "200" not in r.get("out", ""):
                        return f"ENGINE_ERR store {r}"
        def delivered():
            """the rows each per-type sub-query delivers (same WHERE transformation as SequenceStreamingDispatcher)"""
            out = []
            for ty in (TA, TB):
                sq = f"QUERY {ty}"
                tw = transform(c["where"], ty) if c["where"] is not None else None
                if tw is not None:
                    sq += " WHERE " + sql(tw)
                rr = e.rows(sq)
                if rr.get("status") != 200:
                    return None
                if any(x.get("u") is None for x in rr["rows"]):
                    raise ValueError("row without u: " + sq + " -> " + json.dumps(rr["rows"]))
                out.append(sorted(int(x.get("u")) for x in rr["rows"]))
            return out
        q = f"QUERY {TA} {'FOLLOWED' if c['link'] == 'FB' else 'PRECEDED'} BY {TB} LINKED BY k USING TIME t"
        if c["where"] is not None:
            q += " WHERE " + sql(c["where"])
        if c["limit"] is not None:
            q += f" LIMIT {c['limit']}"
        d1 = delivered()
        r = e.rows(q)
        if r.get("status") != 200:
            return f"ENGINE_STATUS {r.get('status')} {str(r.get('message'))[:80]}".replace(" ", "_")
        d2 = delivered()
        if d1 is None or d1 != d2:
            return f"UNSTABLE_READS {d1} {d2}".replace(" ", "")
        rows = r["rows"]
        if len(rows) % 2:
            return "ODD_ROWS " + json.dumps(rows)[:200].replace(" ", "")
        pairs = []
        for i in range(0, len(rows), 2):
            x, y = rows[i], rows[i + 1]
            if x.get("event_type") == TB:
                x, y = y, x
            if x.get("event_type") != TA or y.get("event_type") != TB:
                return "BAD_PAIR " + json.dumps([x, y]).replace(" ", "")[:200]
            if x.get("u") is None or y.get("u") is None:
                raise ValueError("sequence row without u: " + json.dumps([x, y]))
            pairs.append(f"{x.get('u')}-{y.get('u')}")
        return (",".join(pairs) if pairs else "-") + ";A=" + ",".join(map(str, d1[0])) + ";B=" + ",".join(map(str, d1[1]))
    except Exception as ex:      # a crash of the engine is an observation
        import traceback
        tb = traceback.extract_tb(ex.__traceback__)[-1]
        return f"ENGINE_EXC_{type(ex).__name__}:{tb.name}:{tb.lineno}:{str(ex)[:700]}".replace(" ", "_")
    finally:
        e.destroy()


def run_sides(cases_, model_ok):
    lines = [c["line"] for c in cases_]
    impl = [None] * len(lines)
    fn_idx = [i for i, l in enumerate(lines) if l.startswith("seq_match")]
    res = vlib.run_lines(vlib.VHARN, ["fn"], [lines[i] for i in fn_idx], timeout=900)
    for i, r in zip(fn_idx, res):
        impl[i] = r
    eng_idx = [i for i, l in enumerate(lines) if l.startswith("seq_eng")]
    if eng_idx:
        with concurrent.futures.ThreadPoolExecutor(max_workers=int(os.environ.get("VERIF_ENGINES", "6"))) as ex:
            for i, r in zip(eng_idx, ex.map(run_engine_case, [lines[i] for i in eng_idx])):
                impl[i] = r
    # engine level: the model is given the rows the per-type sub-queries delivered (the exact-filter assumption is checked,
    # not presupposed: the model raises SubQueryInexact when they differ from the filter)
    mlines = list(lines)
    for i in eng_idx:
        if impl[i] and ";A=" in impl[i]:
            _, a, b = impl[i].split(";")
            mlines[i] = lines[i] + f" D{a[2:] or '-'}:{b[2:] or '-'}"
    model = vlib.run_lines(vlib.MODEL_RUN, [], mlines, timeout=900) if model_ok else [None] * len(lines)
    return impl, model


# ------------------------------------------------------------------ comparison modulo the unspecified orders
def parse_pairs(s):
    if s is not None and ";" in s:
        s = s.split(";")[0]
    if s in ("-", "", None):
        return []
    return [tuple(int(x) for x in p.split("-")) for p in s.split(",")]


def parse_model(m):
    """'L<limit>;ets:pairs|ets:pairs #F:flags' -> (limit, [(ets, [pairs])], flags)"""
    flags = set()
    if " #F:" in m:
        m, f = m.split(" #F:")
        flags = set(x for x in f.split(",") if x)
    if m == "AMBIGUOUS":
        return "AMBIGUOUS", None, flags
    head, rest = m.split(";", 1)
    lim = None if head[1:] == "-" else int(head[1:])
    groups = []
    if rest:
        for g in rest.split("|"):
            e, ps = g.split(":")
            groups.append((int(e), parse_pairs(ps)))
    return lim, groups, flags


def same(c, impl, model):
    if model is None or impl is None:
        return False
    lim, groups, _ = parse_model(model)
    if lim == "AMBIGUOUS":
        return impl == "AMBIGUOUS" or impl.startswith("ENGINE_STATUS_400")
    head = impl.split(";")[0]
    if not (head == "-" or head[:1].isdigit()):
        return False
    got = parse_pairs(impl)
    total = sum(len(ps) for _, ps in groups)
    want_n = total if lim is None else min(lim, total)
    if len(got) != want_n:
        return False
    eng = c["line"].startswith("seq_eng")
    if eng:
        return same_engine(c, got, groups, lim)
    remaining = list(groups)
    i = 0
    while i < len(got):
        g = next((g for g in remaining if g[1] and g[1][0] == got[i]), None)
        if g is None or g[0] != min(x[0] for x in remaining):
            return False
        n = min(len(g[1]), len(got) - i)
        if got[i:i + n] != g[1][:n]:
            return False
        if n < len(g[1]) and i + n != len(got):
            return False
        remaining.remove(g)
        i += n
    return True


def same_engine(c, got, groups, lim):
    """engine level: rows with equal time arrive in an unspecified order, so compare the matched a-events with the time of
    their partner, group by group; with LIMIT only the groups that must be complete are compared exactly."""
    pc = parse_case(c["line"])
    tb = {e["pos"]: e["t"] for e in pc["B"]}
    ta = {e["pos"]: e["t"] for e in pc["A"]}
    key = lambda p: (p[0], tb.get(p[1]))
    want_all = [key(p) for _, ps in groups for p in ps]
    got_k = [key(p) for p in got]
    if lim is None:
        # a-events with equal time may be swapped inside a group as well: compare as multisets, and the order of times per group
        return sorted(want_all, key=str) == sorted(got_k, key=str)
    return all(k in want_all for k in got_k) and len(set(got_k)) == len(got_k)


# ------------------------------------------------------------------ direct property oracle (brute force, independent of the model)
def failing(c, impl):
    """-> list of (kind, text).  kinds: struct | pair_link | pair_time | pair_where | dup | missing | extra | limit"""
    line = c["line"]
    if impl is None or impl in ("PANIC", "ABORT", "UNKNOWN_PROBE") or impl.startswith(("ENGINE_ERR", "ENGINE_EXC", "ODD_ROWS", "BAD_PAIR", "UNSTABLE_READS")):
        return [("struct", f"implementation answered {impl}")]
    pc = parse_case(line)
    if impl == "AMBIGUOUS" or impl.startswith("ENGINE_STATUS"):
        # rejecting a query is not a wrong answer; the ambiguity rule itself is part of the correspondence
        return []
    got = parse_pairs(impl)
    A = {e["pos"]: e for e in pc["A"]}
    B = {e["pos"]: e for e in pc["B"]}
    fb = pc["link"] == "FB"
    wh = pc["where"]
    eng = pc["probe"] == "seq_eng"
    out = []

    def time_rel(a, b):
        if a["t"] is None or b["t"] is None:
            return False
        return b["t"] >= a["t"] if fb else b["t"] < a["t"]

    def linked(a, b):
        return a["k"] is not None and b["k"] is not None and a["k"] == b["k"]

    def where_ok(a, b):
        if wh is None:
            return True
        if eng:
            return eval_pair(wh, row_fields(a), row_fields(b), ["k", "t", "u"] + pc["fa"], ["k", "t", "u"] + pc["fb"])
        # function level: the rows are what the per-type sub-queries delivered; each side must satisfy its own conditions
        return side_ok(wh, TA, row_fields(a)) and side_ok(wh, TB, row_fields(b))

    seen_a = set()
    for (pa, pb) in got:
        a, b = A.get(pa), B.get(pb)
        if a is None or b is None:
            out.append(("struct", f"pair {pa}-{pb} names an event that was not stored"))
            continue
        d = f"a#{pa}(k={a['k']!r},t={a['t']}) b#{pb}(k={b['k']!r},t={b['t']})"
        if not linked(a, b):
            out.append(("pair_link", f"returned pair with different link values: {d}"))
        if not time_rel(a, b):
            out.append(("pair_time", f"returned pair violates the time relation ({'b >= a' if fb else 'b < a'}): {d}"))
        if not where_ok(a, b):
            out.append(("pair_where", f"returned pair violates WHERE: {d} fields {a['f']} {b['f']}"))
        if pa in seen_a:
            out.append(("dup", f"a-event #{pa} matched twice"))
        seen_a.add(pa)
    if pc["limit"] is not None and len(got) > pc["limit"]:
        out.append(("limit", f"{len(got)} sequences returned with LIMIT {pc['limit']}"))
    # completeness: only where the property claims it — the composed pipeline (engine level) or rows already filtered per type
    complete = eng or c.get("kind") == "fn_prefiltered"
    if complete:
        expected = [a["pos"] for a in pc["A"] if any(linked(a, b) and time_rel(a, b) and where_ok(a, b) for b in pc["B"])]
        if pc["limit"] is None:
            for pa in expected:
                if pa not in seen_a:
                    a = A[pa]
                    out.append(("missing", f"a-event #{pa}(k={a['k']!r},t={a['t']},{a['f']}) has a qualifying b-event but was not matched"))
        else:
            want = min(pc["limit"], len(expected))
            if len(seen_a) < want:
                out.append(("missing", f"only {len(seen_a)} sequences returned with LIMIT {pc['limit']} although {len(expected)} a-events have a qualifying b-event"))
    return out


def oracle(c, impl):
    f = failing(c, impl)
    if not f:
        return None
    return "; ".join(x[1] for x in f[:3]) + (f" (+{len(f) - 3} more)" if len(f) > 3 else "")


CLASS_OF = {
    # failure kind -> candidate classes in order; a class applies only if the model raised its flag for the case
    "missing": ["UnprefixedFieldAppliedToBothTypes", "CrossTypeOrNot", "TimeNotU64Ordered", "SubQueryNotComplement"],
    "pair_time": ["TimeNotU64Ordered"],
    "pair_link": ["AbsentLinkGroupedAsNull", "LinkTextAliasesInteger"],
    "pair_where": ["UnprefixedFieldAppliedToBothTypes", "CrossTypeOrNot"],
}


def classify(c, impl, model=None):
    f = failing(c, impl)
    if not f or model is None:
        return None
    _, _, flags = parse_model(model)
    # the NOT-complement loss exists only on flushed zones: the class needs a FLUSH in the history
    if "SubQueryNotComplement" in flags and ",F" not in c["line"].split()[-1] and not c["line"].split()[-1].endswith(":F"):
        flags = flags - {"SubQueryNotComplement"}
    found = []
    for kind, _ in f:
        cls = next((k for k in CLASS_OF.get(kind, []) if k in flags), None)
        if cls is None:
            return None
        found.append(cls)
    return found[0]


def nontrivial_key(c, impl):
    if not impl or not (impl[:1].isdigit()):
        return None
    return (c.get("kind"), c["line"].split()[1], impl.split(";")[0])
