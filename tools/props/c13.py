"""C13 — no data command runs without authentication and the required permission.

One case = one probe line; the lines of one history (`hist`) run in one process per side, in
order (one process = one engine lifetime with its own config, auth ON).  The Rust side is the
real AuthManager / gates / dispatcher (harness/src/probes/auth.rs), the model side the
extracted Model/Auth.v (ocaml/p_auth.ml).  The oracle is a declarative policy tracked here in
Python from the commands the implementation actually executed; it never consults the model.
"""
import concurrent.futures, hashlib, hmac as _hmac, json, os, shutil, socket, subprocess, tempfile
import vlib
from vlib import hx
from props import base

PROP = "C13"
PROPS_V = "theories/Props/C13.v"
THEOREMS = ["C13_gate_sound", "C13_auth_sound", "C13_gate_unix_sound", "C13_gate_http_sound",
            "C13_can_read_spec", "C13_can_write_spec", "C13_revoke_key_next", "C13_revoke_perm_next",
            "C13_reserved_id_rejected", "C13_no_reserved_account", "C13_gate_never_reserved",
            "C13_gate_unix_never_reserved", "C13_gate_http_never_reserved", "C13_no_identity_commands",
            "C13_authorized_only_refuted", "C13_outside_known", "C13_read_commands_checked", "C13_served_outside_known",
            "C13_served_unix_outside_known", "C13_served_http_outside_known", "C13_grant_many_eq_fold",
            "C13_revoke_many_eq_fold", "C13_dispatch_grant_many", "C13_grant_many_entry", "C13_revoke_many_entry",
            "C13_perm_commands_keep_active", "C13_grant_permission_keeps_active", "C13_revoke_permission_keeps_active",
            "C13_dispatch_active_frame", "C13_never_reactivated",
            "C13_can_read_own_record", "C13_can_write_own_record", "C13_unknown_id_denied"]
RULE = ("histories of probe lines against one engine process each (auth ON): (a) the full role-set x "
        "permission-entry table and random grant/revoke/revoke-key sequences through AuthManager with "
        "can_read/can_write/is_admin after every step; (b) parse_auth / verify_signature / session-token lines "
        "(valid, wrong, truncated, over-long, expired, revoked); (c) gate lines over loopback TCP, the unix "
        "Connection and HTTP /command (AUTH, inline, connection-scoped, TOKEN, credential-like payloads); "
        "(e) ONE connection over time: AUTH, the token used, key / session / token revocation or expiry through "
        "the AuthManager, the same token and connection-scoped signatures again on the same, another and a fresh "
        "connection; (f) GRANT / REVOKE over several event types (all orders, repetitions, an undefined type) for "
        "users holding different permission sets on the listed types, then the permission table, can_read / "
        "can_write and STORE / QUERY per type; "
        "(g) REVOKE / GRANT of READ / WRITE on a type for role-holding users with and without an explicit entry, then "
        "every command kind over the type as the next request; proper signature prefixes of every length 1..63 for AUTH, "
        "inline, connection-scoped, header and unix forms; "
        "(h) REVOKE KEY, then an administrative operation naming the dead account (GRANT / REVOKE single and multi-type, "
        "manager calls, CREATE USER again, ...), then every authentication form, then restarts on the same directories; "
        "(d) every command kind under admin / reading / writing / no-role / reserved-name / unknown / revoked "
        "users through parse_command + dispatch_command.  A case is non-trivial when the implementation "
        "answered it (no ABORT/UNKNOWN); distinct by (kind, op, identity class, command kind, result)")
ASSUMPTIONS = [
    "HMAC-SHA256 is an uninterpreted function in the theorems (unforgeability is not modelled); the model run instantiates it with an OCaml HMAC-SHA256",
    "the command parser is an uninterpreted function in the theorems; case lines carry the abstract command next to the command text",
    "user ids and whitespace are modelled on ASCII (char::is_alphanumeric / str::trim are Unicode-aware in the code)",
    "WebSocket gate = the TCP check_auth plus a duplicate of its TOKEN branch: modelled by gate_tcp, not driven",
    "rate limiting is switched off in the generated configs and not modelled",
]
TRUSTED = [
    "Coq 8.16.1 kernel + coqc; vm_compute for closed witnesses; no native_compute",
    "translator tools/params/p30_auth.py (limits, reserved ids, role names, per-handler reserved-id shortcut and per-arm identity flags read from the Rust text)",
    "extraction: ExtrOcamlBasic only; ocaml/driver.ml, conv.ml, p_auth.ml (case parsing, printing, HMAC-SHA256 instance of the uninterpreted hmac)",
    "correspondence harness /verif/harness (vharn fn auth_*) built against /repo with --cfg sneldb_verif; loopback sockets for the TCP / HTTP gates",
    "python oracle: declarative RBAC policy + CPython hmac/hashlib (independent of model and implementation)",
]

CLAIMED = True
MANIFEST = {
 "level_text": "Theorems over the model (all stores, lines, users, no bound): the permission cache answers for a user id from that user's own record only (two reachable states holding the same record under an id answer alike whatever other accounts exist - an id differing only in letter case lends nothing - and an id without an account is granted nothing); the TCP/unix/HTTP gates dispatch only on hmac(key,msg) of an active user for the right message or a live token of an active user; can_read/can_write are equivalent to a declarative RBAC statement; key and permission revocation hold for the next request; the reserved ids cannot be created, exist in no reachable state and are never the identity a gate hands on (repaired by 139a8cf); REPLAY, REMEMBER, comparison and sequence queries check read permission for every event type they read (repaired by d146031, 8e7945c, 20fee3f, 79dcefb); the main statement is refuted with two witnesses (SHOW, FLUSH: still dispatched without identity) and proved outside those two command kinds for every user id, end to end through the TCP, unix and HTTP gates. The handler flags and constants of the model are regenerated from the Rust text; the model is run against the real AuthManager, gates (loopback TCP/HTTP, unix Connection) and dispatcher.",
 "design_ref": "DESIGN.md §6 C13",
 "level_note": "Trusted: Coq kernel; p30_auth.py; extraction + p_auth.ml (incl. its HMAC-SHA256); the Rust harness; the Python policy oracle. HMAC and the parser are uninterpreted; Unicode ids/whitespace, rate limiting and the WebSocket fast path are not modelled; check_auth is reached through a loopback socket until hooks/C13-check-auth.diff is applied."
}

ADMIN, ADMIN_KEY = "root", "rootkey"
CHECKED = ("st", "q", "def", "mku", "rvk", "lsu", "gr", "rv", "shp")
MGMT = ("mku", "rvk", "lsu", "gr", "rv", "shp")
READ_ROLES = {"admin", "read-only", "viewer", "editor"}
WRITE_ROLES = {"admin", "editor", "write-only"}


def sign(key, msg):
    if isinstance(key, str):
        key = key.encode()
    if isinstance(msg, str):
        msg = msg.encode()
    return _hmac.new(key, msg, hashlib.sha256).hexdigest()


def corpus():
    return base.corpus_for(PROP)


# ------------------------------------------------------------------ descriptors
def hl(xs):
    return ",".join(hx(x) for x in xs) if xs else "-"


def d_st(t): return f"st:{hx(t)}"
def d_q(t, seq=()): return "q:" + hl([t] + list(seq))
def d_rp(t, present): return f"rp:{hx(t) if t else '-'}:{hl(present)}"
def d_cmp(qs): return "cmp:" + ";".join(hl(q) for q in qs)
def d_rem(n, t): return f"rem:{hx(n)}:{hl([t])}"
def d_show(n): return f"show:{hx(n)}"
def d_def(t): return f"def:{hx(t)}"


def d_mku(u, key, roles):
    r = "-" if roles is None else ("=" if roles == [] else hl(roles))
    return f"mku:{hx(u)}:{hx(key) if key is not None else '-'}:{r}"


def d_gr(r, w, ts, u): return f"gr:{int(r)}{int(w)}:{hl(ts)}:{hx(u)}"
def d_rv(r, w, ts, u): return f"rv:{int(r)}{int(w)}:{hl(ts)}:{hx(u)}"


def qid(u):
    return f'"{u}"' if not u.replace("_", "").isalnum() else u


# ------------------------------------------------------------------ history builder
class Hist:
    def __init__(self, name, kind, expiry=300):
        self.name, self.kind, self.cases, self.expiry = name, kind, [], expiry
        self.add("auth_cfg %d" % expiry, op="cfg", show=f"session expiry {expiry}s")

    def add(self, line, **meta):
        c = {"line": line, "hist": self.name, "kind": self.kind, "expiry": getattr(self, "expiry", 300)}
        c.update(meta)
        c.setdefault("show", line)
        c["show"] = f"[{self.name}] " + c["show"]
        self.cases.append(c)
        return c

    # engine level
    def cmd(self, who, desc, text, **meta):
        return self.add(f"auth_cmd {hx(who) if who is not None else '-'} {desc} {hx(text)}", op="cmd", who=who, desc=desc,
                        show=f"{who or '<no identity>'}> {text}", **meta)

    # manager level
    def mk(self, u, key, roles):
        return self.add(f"auth_mk {hx(u)} {hx(key) if key is not None else '-'} {hl(roles)}", op="mk", u=u, roles=roles,
                        show=f"create_user_with_roles({u!r}, key, {roles})")

    def grant(self, u, t, r, w):
        return self.add(f"auth_grant {hx(u)} {hx(t)} {int(r)} {int(w)}", op="grant", u=u, t=t, r=r, w=w,
                        show=f"grant_permission({u},{t},read={r},write={w})")

    def revoke(self, u, t):
        return self.add(f"auth_revoke {hx(u)} {hx(t)}", op="revoke", u=u, t=t, show=f"revoke_permission({u},{t})")

    def revkey(self, u):
        return self.add(f"auth_revkey {hx(u)}", op="revkey", u=u, show=f"revoke_key({u})")

    def active(self, u):
        return self.add(f"auth_active {hx(u)}", op="active", u=u, show=f"list_users: active flag of {u}")

    def perms(self, u):
        return self.add(f"auth_perms {hx(u)}", op="perms", u=u, show=f"get_permissions({u})")

    def can(self, u, t):
        return self.add(f"auth_can {hx(u)} {hx(t)}", op="can", u=u, t=t, show=f"can_read/can_write/is_admin({u},{t})")

    # gates
    def tcp(self, conn, line, desc, exp, cred, **meta):
        if os.environ.get("VERIF_C13_HOOK", "1") == "1":
            # the same line through the hooked check_auth (exact result); its AUTH token lives in slot gate:<conn>
            self.add(f"authg_line {conn} {desc} {hx(exp)} {hx(line.replace('@{auth:', '@{gate:'))}", op="gate", desc=desc, cred=cred,
                     show=f"check_auth[{conn}]< {line}", **meta)
        return self.add(f"auth_tcp {conn} {desc} {hx(exp)} {hx(line)}", op="tcp", desc=desc, cred=cred,
                        show=f"tcp[{conn}]< {line}", **meta)

    def unix(self, line, desc, exp, cred, **meta):
        return self.add(f"auth_unix {desc} {hx(exp)} {hx(line)}", op="unix", desc=desc, cred=cred, show=f"unix< {line}", **meta)

    def http(self, u, sg, body, desc, exp, cred, **meta):
        return self.add(f"auth_http {hx(u) if u else '-'} {hx(sg) if sg else '-'} {desc} {hx(exp)} {hx(body)}", op="http",
                        desc=desc, cred=cred, show=f"http[{u}:{(sg or '')[:8]}..]< {body}", **meta)


def setup_types(h, types, fields='k: "int"'):
    for t in types:
        h.cmd(ADMIN, d_def(t), f'DEFINE {t} FIELDS {{ {fields} }}')


# ------------------------------------------------------------------ (a) permission table
ROLE_NAMES = ["admin", "read-only", "viewer", "editor", "write-only"]


def gen_table(rng, tier, idx):
    h = Hist(f"table{idx}", "table")
    n = 0
    entries = [None, (0, 0), (0, 1), (1, 0), (1, 1)]
    for mask in range(32):
        roles = [r for i, r in enumerate(ROLE_NAMES) if mask >> i & 1]
        if rng.chance(1, 4):
            roles = roles + [rng.choice(["bogus", "Admin", "ADMIN", "read_only", ""])]
        if rng.chance(1, 5) and roles:
            roles = roles + [roles[0]]
        for e in entries:
            u = f"u{idx}x{n}"
            n += 1
            h.mk(u, "k" + u, roles)
            if e is not None:
                h.grant(u, "ta", e[0], e[1])
            h.can(u, "ta")
            h.can(u, "tb")
    # grant / revoke / revoke-key sequences
    nseq = 12 if tier == "quick" else 200
    for s in range(nseq):
        u = f"s{idx}x{s}"
        roles = [r for r in ROLE_NAMES if rng.chance(1, 4)]
        h.mk(u, "k" + u, roles)
        for _ in range(rng.range(3, 9)):
            r = rng.below(10)
            t = rng.choice(["ta", "tb", "tc"])
            if r < 5:
                h.grant(u, t, rng.below(2), rng.below(2))
            elif r < 8:
                h.revoke(u, t)
            elif r < 9:
                h.revkey(u)
            else:
                h.grant(f"ghost{s}", t, 1, 1)
            h.can(u, t)
            if rng.chance(1, 3):
                h.can(u, rng.choice(["ta", "tb", "tc"]))
    # users whose ids differ only in letter case are different users: roles and grants of one never serve the other
    for j, (r_lo, r_up) in enumerate([(["admin"], []), ([], ["admin"]), (["read-only"], ["write-only"]),
                                      (["editor"], []), ([], ["read-only"]), (["write-only"], ["editor"])]):
        lo, up = f"twin{idx}x{j}", f"Twin{idx}X{j}"
        h.mk(lo, "k" + lo, [r for r in r_lo if r in ROLE_NAMES])
        h.mk(up, "k" + up, [r for r in r_up if r in ROLE_NAMES])
        if j % 2 == 1:
            h.grant(lo, "ta", 1, 0)
        if j % 3 == 2:
            h.grant(up, "tb", 0, 1)
        for u in (lo, up):
            h.can(u, "ta")
            h.can(u, "tb")
    return h


# ------------------------------------------------------------------ (b) parse_auth / verify / tokens / user ids
def gen_fn(rng, tier, idx):
    h = Hist(f"fn{idx}", "fn")
    # user-id validation
    ids = ["", "a", "A_b-9", "bypass", "no-auth", "Bypass", "a b", "a:b", "a.b", "a/b", "a@b", "x" * 64, "x" * 65, "x" * 200,
           "-", "_", "0", "tab\tx", "q\"r", "semi;colon", "plus+", "star*", "paren(", "bypass ", " bypass", "bypass\n"]
    for k in range(20 if tier == "quick" else 400):
        n = rng.range(1, 70)
        ids.append("".join(rng.choice("abcXYZ019_-" + ("" if rng.chance(3, 4) else " :.!~^`|")) for _ in range(n)))
    seen = set()
    for i in ids:
        h.add(f"auth_mk {hx(i)} {hx('key')} -", op="mk", u=i, roles=[], show=f"create_user({i!r})")
        seen.add(i)
    h.add(f"auth_mk {hx('dup1')} {hx('key')} -", op="mk", u="dup1", roles=[])
    h.add(f"auth_mk {hx('dup1')} {hx('key2')} {hl(['admin'])}", op="mkdup", u="dup1", roles=["admin"])
    h.add(f"auth_mk {hx('klen512')} {hx('k' * 512)} -", op="mk", u="klen512", roles=[])
    h.add(f"auth_mk {hx('klen513')} {hx('k' * 513)} -", op="mkbad", u="klen513", roles=[])
    h.add(f"auth_mk {hx('nokey')} - -", op="mk", u="nokey", roles=[])
    # parse_auth
    for k in range(60 if tier == "quick" else 3000):
        r = rng.below(8)
        if r == 0:
            s = "".join(rng.choice("ab:: \t{}\"") for _ in range(rng.range(0, 20)))
        elif r == 1:
            s = "u" * rng.choice([0, 1, 63, 64, 65, 66]) + ":" + "s" * rng.choice([0, 1, 255, 256, 257]) + ":" + "cmd"
        elif r == 2:
            s = f"user:sig:STORE t FOR c PAYLOAD {{\"a\":\"b:c\"}}"
        elif r == 3:
            s = rng.choice(["", ":", "::", ":::", "a:", "a::", ":a:", "::a", "a:b", "a:b:", " a : b : c "])
        else:
            parts = ["".join(rng.choice("abz09_-. ") for _ in range(rng.range(0, 6))) for _ in range(rng.range(1, 5))]
            s = ":".join(parts)
        h.add(f"auth_parse {hx(s)}", op="parse", show=f"parse_auth({s!r})")
    # verify_signature
    h.mk("v1", "key-v1", [])
    h.mk("v2", "K" * 100, ["admin"])     # key longer than the HMAC block
    h.mk("v3", "key-v3", [])
    h.revkey("v3")
    msgs = ["PING", "", "STORE ta FOR c PAYLOAD {\"k\":1}", "x" * 300, "méssage"]
    for m in msgs:
        for (u, key) in [("v1", "key-v1"), ("v2", "K" * 100), ("v3", "key-v3"), ("ghost", "nokey")]:
            good = sign(key, m)
            for s, tag in [(good, "valid"), (good[:-1], "truncated"), (good + "0", "extended"), (good.upper(), "uppercase"),
                           (sign(key, m + " "), "other-message"), (sign("wrong", m), "wrong-key"), ("", "empty"),
                           ("f" * 256, "len256"), ("f" * 257, "len257")]:
                valid = tag == "valid" and u in ("v1", "v2")
                h.add(f"auth_verify {hx(m)} {hx(u)} {hx(s)}", op="verify", valid=valid,
                      show=f"verify_signature(msg={m[:20]!r}.., user={u}, {tag} signature)")
    h.add(f"auth_verify {hx('PING')} {hx('v' * 65)} {hx(sign('k', 'PING'))}", op="verify", valid=False)
    good = sign("key-v1", "PING")
    for L in range(0, 64):
        h.add(f"auth_verify {hx('PING')} {hx('v1')} {hx(good[:L])}", op="verify", valid=False,
              show=f"verify_signature(msg='PING', user=v1, {L}-character prefix of the signature)")
    for extra in ("0", "00", good):
        h.add(f"auth_verify {hx('PING')} {hx('v1')} {hx(good + extra)}", op="verify", valid=False,
              show=f"verify_signature(msg='PING', user=v1, signature followed by {len(extra)} more characters)")
    # session tokens
    h.mk("t1", "key-t1", [])
    h.mk("t2", "key-t2", [])
    h.add(f"auth_tok_new a {hx('t1')}", op="toknew", u="t1")
    h.add(f"auth_tok_new b {hx('t1')}", op="toknew", u="t1")
    h.add(f"auth_tok_new c {hx('t2')}", op="toknew", u="t2")
    h.add(f"auth_tok_new g {hx('ghost')}", op="toknew", u="ghost")
    for tx, live, who in [("@{a}", True, "t1"), ("@{c}", True, "t2"), ("@{g}", False, None), ("@{a}0", False, None), ("", False, None),
                          ("nope", False, None), (" @{a}", False, None)]:
        h.add(f"auth_tok_check {hx(tx)}", op="tokcheck", live=live, u=who, show=f"validate_session_token({tx})")
    h.add(f"auth_tok_revoke {hx('@{a}')}", op="tokrevoke")
    h.add(f"auth_tok_check {hx('@{a}')}", op="tokcheck", live=False, u=None)
    h.add(f"auth_tok_check {hx('@{b}')}", op="tokcheck", live=True, u="t1")
    h.add(f"auth_tok_revoke {hx('@{a}')}", op="tokrevoke")
    h.add(f"auth_sess_revoke {hx('t1')}", op="sessrevoke")
    h.add(f"auth_tok_check {hx('@{b}')}", op="tokcheck", live=False, u=None)
    h.add(f"auth_tok_check {hx('@{c}')}", op="tokcheck", live=True, u="t2")
    h.revkey("t2")
    h.add(f"auth_tok_check {hx('@{c}')}", op="tokcheck", live=False, u=None, show="validate_session_token(token of a user whose key was revoked)")
    return h


def gen_expiry(rng, tier, idx):
    h = Hist(f"expiry{idx}", "expiry", expiry=2)
    setup_types(h, ["ta"])
    h.mk("e1", "key-e1", ["write-only"])
    h.add(f"auth_tok_new a {hx('e1')}", op="toknew", u="e1")
    h.add(f"auth_tok_check {hx('@{a}')}", op="tokcheck", live=True, u="e1")
    st = 'STORE ta FOR c1 PAYLOAD {"k":1}'
    h.tcp("x", f"{st} TOKEN @{{a}}", d_st("ta"), st, {"valid": True, "user": "e1"})
    h.tcp("y", f"AUTH e1:{sign('key-e1', 'e1')}", "bad", "", {"valid": True, "user": "e1", "auth": True})
    for _ in range(2):
        h.tcp("y", f"{st} TOKEN @{{auth:y}}", d_st("ta"), st, {"valid": True, "user": "e1"}, note="AUTH token used on its own connection")
    h.tcp("y", f"{st} TOKEN @{{a}}", d_st("ta"), st, {"valid": True, "user": "e1"}, note="session token used on an authenticated connection")
    h.add("auth_sleep 3", op="sleep")
    for _ in range(2):
        h.tcp("y", f"{st} TOKEN @{{auth:y}}", d_st("ta"), st, {"valid": False, "user": "e1"}, note="expired AUTH token re-used on its own connection")
    h.tcp("y", f"{st} TOKEN @{{a}}", d_st("ta"), st, {"valid": False, "user": "e1"}, note="expired session token re-used on the same connection")
    h.add(f"auth_tok_check {hx('@{a}')}", op="tokcheck", live=False, u=None, show="validate_session_token(expired token)")
    h.tcp("x", f"{st} TOKEN @{{a}}", d_st("ta"), st, {"valid": False, "user": "e1"}, note="expired token")
    h.tcp("x", f"{st} TOKEN @{{auth:y}}", d_st("ta"), st, {"valid": False, "user": "e1"}, note="expired AUTH token")
    h.tcp("y", f"{sign('key-e1', st)}:{st}", d_st("ta"), st, {"valid": True, "user": "e1"}, note="connection auth does not expire")
    return h


# ------------------------------------------------------------------ (c) gates
def gen_gate(rng, tier, idx):
    h = Hist(f"gate{idx}", "gate")
    setup_types(h, ["ta", "tb"], 'k: "int", s: "string"')
    users = {"ga": "key-ga", "gb": "key-gb", "gx": "key-gx", "bypass": "key-bp"}
    h.mk("ga", users["ga"], [])
    h.grant("ga", "ta", 0, 1)
    h.mk("gb", users["gb"], [])
    h.grant("gb", "tb", 0, 1)
    h.mk("gx", users["gx"], ["admin"])
    h.revkey("gx")
    h.mk("bypass", users["bypass"], [])
    active = {"ga", "gb"}        # "bypass" cannot be created since 139a8cf: its credentials are never valid

    def store(t):
        return f'STORE {t} FOR c1 PAYLOAD {{"k":{rng.below(100)},"s":"v"}}'

    def cred(u, ok):
        return {"valid": bool(ok and u in active), "user": u}

    nconn = [0]

    def newconn():
        nconn[0] += 1
        return f"c{nconn[0]}"

    rounds = 6 if tier == "quick" else 120
    for rd in range(rounds):
        u = rng.choice(["ga", "gb", "ga", "gx", "bypass", "ghost"])
        key = users.get(u, "nokey")
        t = rng.choice(["ta", "tb"])
        st = store(t)
        pad = rng.choice(["", "", " ", "  ", "\t"])
        chan = rng.choice(["tcp", "tcp", "unix", "http"])
        variants = [
            (f"{u}:{sign(key, st)}:{st}", st, True, "inline valid"),
            (f"{pad}{u}:{sign(key, st)}:{st}{pad}", st, True, "inline valid padded"),
            (f"{u}:{sign(key, st)}:{pad} {st}", st, False, "inline, signed text differs by leading blanks"),
            (f"{u}:{sign(key, st)[:-1]}:{st}", st, False, "inline truncated signature"),
            (f"{u}:{sign(key, st)}0:{st}", st, False, "inline extended signature"),
            (f"{u}:{sign(key, st + 'x')}:{st}", st, False, "inline signature of another message"),
            (f"{u}:{sign('wrong', st)}:{st}", st, False, "inline wrong key"),
            (f"{u}:{sign(users['gb' if u != 'gb' else 'ga'], st)}:{st}", st, False, "inline signature by another user's key"),
            (f"{u}::{st}", st, False, "inline empty signature"),
            (f":{sign(key, st)}:{st}", st, False, "inline empty user"),
            (f"{st}", st, False, "no credentials"),
            (f"{u}:{st}", st, False, "one colon only"),
            (f"{u.upper()}:{sign(key, st)}:{st}", st, False, "user id in upper case"),
        ]
        for line, exp, ok, note in variants:
            c = cred(u, ok)
            if chan == "tcp":
                h.tcp(newconn(), line, d_st(t), exp, c, note=note)
            elif chan == "unix":
                h.unix(line, d_st(t), exp, c, note=note)
            else:
                h.http(None, None, line, d_st(t), exp, c, note=note)
        # header-based HTTP
        body = st
        for sg, ok, note in [(sign(key, body), True, "header valid"), (sign(key, body)[:-2], False, "header truncated"),
                             (sign(key, body + " "), False, "header signature of padded body"), (sign("wrong", body), False, "header wrong key")]:
            h.http(u, sg, body, d_st(t), body, cred(u, ok), note=note)
        h.http(u, sign(key, body), f"  {body}  ", d_st(t), body, cred(u, True), note="header valid, padded body")
        # connection AUTH + connection-scoped signatures
        cn = newconn()
        au = sign(key, u)
        form = rng.choice([f"AUTH {u}:{au}", f"auth {u}:{au}", f"AuTh   {u}:{au}  ", f"AUTH {u}:{au}"])
        bad = rng.choice([f"AUTH {u}:{au[:-1]}", f"AUTH {u}:{sign(key, st)}", f"AUTH {u}", f"AUTH :{au}", f"AUTH {u} {au}", f"AUTH\t{u}:{au}",
                          f"AUTHX {u}:{au}", f"AUTH {u}:{sign('wrong', u)}"])
        h.tcp(cn, bad, "bad", "", {"valid": False, "user": u, "auth": True}, note="bad AUTH")
        h.tcp(cn, f"{sign(key, st)}:{st}", d_st(t), st, cred(u, False), note="connection-scoped form before AUTH")
        h.tcp(cn, form, "bad", "", {"valid": u in active, "user": u, "auth": True}, note="AUTH")
        authed = u in active
        lines = [
            (f"{sign(key, st)}:{st}", st, authed, "connection-scoped valid"),
            (f"{sign(key, st)}:   {st}  ", st, authed, "connection-scoped valid, blanks around the command"),
            (f"{sign(key, st)[:-1]}:{st}", st, False, "connection-scoped truncated"),
            (f"{sign(key, st + ' ')}:{st}", st, False, "connection-scoped signature of another message"),
            (f"{st}", st, False, "connection-scoped without signature"),
            (f"{u}:{sign(key, st)}:{st}", st, (not authed) and u in active, "inline form on an authenticated connection"),
            (f"{st} TOKEN @{{auth:{cn}}}", st, authed, "token returned by AUTH"),
        ]
        other = "gb" if u != "gb" else "ga"
        st_o = store("tb" if other == "gb" else "ta")
        lines.append((f"{other}:{sign(users[other], st_o)}:{st_o}", st_o, not authed, "another user's inline request on this connection"))
        for line, exp, ok, note in lines:
            who = u
            if note.startswith("another"):
                who = other
                dsc = d_st("tb" if other == "gb" else "ta")
                h.tcp(cn, line, dsc, exp, {"valid": bool(ok), "user": who}, note=note)
            else:
                h.tcp(cn, line, d_st(t), exp, {"valid": bool(ok), "user": who}, note=note)
        # TOKEN forms
        tu = rng.choice(["ga", "gb"])
        tt = "ta" if tu == "ga" else "tb"
        slot = f"k{rd}"
        h.add(f"auth_tok_new {slot} {hx(tu)}", op="toknew", u=tu)
        stt = store(tt)
        pay_tok = f'STORE {tt} FOR c1 PAYLOAD {{"k":1,"s":" TOKEN @{{{slot}}}"}}'
        tok_lines = [
            (f"{stt} TOKEN @{{{slot}}}", stt, True, "valid token"),
            (f"{stt} TOKEN   @{{{slot}}}  ", stt, True, "valid token, blanks"),
            (f"{stt} TOKEN @{{{slot}}}x", stt, False, "token with a trailing character"),
            (f"{stt} TOKEN ", stt, False, "empty token"),
            (f"{stt} TOKEN {'a' * 129}", stt, False, "over-long token"),
            (f"{stt} token @{{{slot}}}", stt, False, "lower-case marker"),
            (f"{stt}TOKEN @{{{slot}}}", stt, False, "marker without leading blank"),
            (pay_tok, pay_tok, False, "live token only inside the JSON payload"),
            (f'{stt} TOKEN @{{{slot}}} TOKEN zzz', stt, False, "live token followed by a second marker"),
            (f'STORE {tt} FOR c1 PAYLOAD {{"k":1,"s":"x TOKEN y"}} TOKEN @{{{slot}}}',
             f'STORE {tt} FOR c1 PAYLOAD {{"k":1,"s":"x TOKEN y"}}', True, "marker inside payload, live token at the end"),
            (f"{tu}:{sign(users[tu], stt + ' TOKEN zzz')}:{stt} TOKEN zzz", stt + " TOKEN zzz", True,
             "dead token, but the whole line carries a valid inline signature (the text then fails to parse)"),
        ]
        for line, exp, ok, note in tok_lines:
            h.tcp(newconn(), line, "bad" if note.startswith("dead token") else d_st(tt), exp, {"valid": ok, "user": tu}, note=note)
        if rng.chance(1, 2):
            h.add(f"auth_tok_revoke {hx('@{' + slot + '}')}", op="tokrevoke")
            h.tcp(newconn(), f"{stt} TOKEN @{{{slot}}}", d_st(tt), stt, {"valid": False, "user": tu}, note="revoked token")
    # proper prefixes of the right signature, every length 1..63, for AUTH, inline and connection-scoped
    # signatures (and the HTTP header / unix forms): only the full 64 hex characters authenticate
    if idx == 0 or tier != "quick":
        pu, pk = "ga", users["ga"]
        pc = newconn()
        h.tcp(pc, f"AUTH {pu}:{sign(pk, pu)}", "bad", "", {"valid": True, "user": pu, "auth": True}, note="AUTH (connection for the prefix lines)")
        for L in range(1, 64):
            stp = store("ta")
            full, fa = sign(pk, stp), sign(pk, pu)
            h.tcp(newconn(), f"AUTH {pu}:{fa[:L]}", "bad", "", {"valid": False, "user": pu, "auth": True}, note=f"AUTH with a {L}-character prefix of the signature")
            h.tcp(newconn(), f"{pu}:{full[:L]}:{stp}", d_st("ta"), stp, {"valid": False, "user": pu}, note=f"inline, {L}-character prefix of the signature")
            h.tcp(pc, f"{full[:L]}:{stp}", d_st("ta"), stp, {"valid": False, "user": pu}, note=f"connection-scoped, {L}-character prefix of the signature")
            if L % 3 == 0 or L in (1, 2, 62, 63):
                h.http(pu, full[:L], stp, d_st("ta"), stp, {"valid": False, "user": pu}, note=f"http header, {L}-character prefix of the signature")
                h.unix(f"{pu}:{full[:L]}:{stp}", d_st("ta"), stp, {"valid": False, "user": pu}, note=f"unix inline, {L}-character prefix of the signature")
        stp = store("ta")
        h.tcp(pc, f"{sign(pk, stp)}:{stp}", d_st("ta"), stp, {"valid": True, "user": pu}, note="connection-scoped, full signature")
    # revoking a key takes effect for the next request on every form
    st = store("ta")
    cn = newconn()
    h.tcp(cn, f"AUTH ga:{sign(users['ga'], 'ga')}", "bad", "", {"valid": True, "user": "ga", "auth": True})
    h.add(f"auth_tok_new last {hx('ga')}", op="toknew", u="ga")
    h.tcp(cn, f"{sign(users['ga'], st)}:{st}", d_st("ta"), st, {"valid": True, "user": "ga"})
    h.cmd(ADMIN, "rvk:" + hx("ga"), "REVOKE KEY ga")
    active.discard("ga")
    for line, note, c in [(f"{sign(users['ga'], st)}:{st}", "connection-scoped after REVOKE KEY", cn),
                          (f"ga:{sign(users['ga'], st)}:{st}", "inline after REVOKE KEY", newconn()),
                          (f"{st} TOKEN @{{last}}", "session token after REVOKE KEY", newconn()),
                          (f"{st} TOKEN @{{auth:{cn}}}", "AUTH token after REVOKE KEY", newconn()),
                          (f"AUTH ga:{sign(users['ga'], 'ga')}", "AUTH after REVOKE KEY", newconn())]:
        h.tcp(c, line, d_st("ta") if not line.startswith("AUTH") else "bad", st if not line.startswith("AUTH") else "",
              {"valid": False, "user": "ga", "auth": line.startswith("AUTH")}, note=note)
    h.unix(f"ga:{sign(users['ga'], st)}:{st}", d_st("ta"), st, {"valid": False, "user": "ga"}, note="unix inline after REVOKE KEY")
    h.http("ga", sign(users['ga'], st), st, d_st("ta"), st, {"valid": False, "user": "ga"}, note="http header after REVOKE KEY")
    return h


# ------------------------------------------------------------------ (d) every command kind under every identity
def gen_engine(rng, tier, idx):
    h = Hist(f"engine{idx}", "engine")
    types = ["ta", "tb", "tc"]
    setup_types(h, types)
    U = {
        "adm2": ["admin"], "rdr": ["read-only"], "vwr": ["viewer"], "edt": ["editor"], "wro": ["write-only"],
        "nor": [], "pra": [], "pwa": [], "prw": [], "bypass": [], "no-auth": [], "mix": ["read-only", "write-only"],
        "gone": ["admin"],
    }
    for u, roles in U.items():
        text = f"CREATE USER {qid(u)} WITH KEY \"key-{u}\"" + (f" WITH ROLES [{', '.join(chr(34) + r + chr(34) for r in roles)}]" if roles else "")
        h.cmd(ADMIN, d_mku(u, f"key-{u}", roles if roles else None), text)
    h.cmd(ADMIN, d_gr(1, 0, ["ta"], "pra"), "GRANT READ ON ta TO pra")
    h.cmd(ADMIN, d_gr(0, 1, ["ta"], "pwa"), "GRANT WRITE ON ta TO pwa")
    h.cmd(ADMIN, d_gr(1, 1, ["ta", "tb"], "prw"), "GRANT READ, WRITE ON ta, tb TO prw")
    h.cmd(ADMIN, "rvk:" + hx("gone"), "REVOKE KEY gone")
    for i in range(3):
        for t in types:
            h.cmd(ADMIN, d_st(t), f'STORE {t} FOR c1 PAYLOAD {{"k":{i}}}')
    h.cmd(ADMIN, d_rem("m_root_a", "ta"), "REMEMBER QUERY ta AS m_root_a")
    h.cmd(ADMIN, d_rem("m_root_b", "tb"), "REMEMBER QUERY tb AS m_root_b")
    ids = list(U.keys()) + ["ghost", None, ADMIN]
    rng_ids = ids[:]
    n = [0]

    def kinds(u):
        n[0] += 1
        tag = f"{idx}_{n[0]}"
        ks = [
            (d_st("ta"), 'STORE ta FOR c1 PAYLOAD {"k":7}'),
            (d_st("tb"), 'STORE tb FOR c1 PAYLOAD {"k":7}'),
            (d_q("ta"), "QUERY ta"),
            (d_q("tb"), "QUERY tb WHERE k = 1"),
            (d_q("tc"), "QUERY tc LIMIT 2"),
            (d_q("ta"), "PLOT COUNT OF ta"),
            (d_q("ta", ["tb"]), "QUERY ta FOLLOWED BY tb LINKED BY k"),
            (d_q("tb", ["ta"]), "QUERY tb PRECEDED BY ta LINKED BY k"),
            (d_q("ta", ["tb"]), "PLOT COUNT OF ta -> tb"),
            (d_rp(None, types), "REPLAY FOR c1"),
            (d_rp("ta", types), "REPLAY ta FOR c1"),
            (d_rp("tb", types), "REPLAY tb FOR c1"),
            (d_cmp([["ta"], ["tb"]]), "PLOT COUNT OF ta VS COUNT OF tb"),
            (d_cmp([["tb"], ["tc"]]), "PLOT TOTAL(k) OF tb VS TOTAL(k) OF tc"),
            (d_rem(f"m_{tag}_a", "ta"), f"REMEMBER QUERY ta AS m_{tag}_a"),
            (d_rem(f"m_{tag}_b", "tb"), f"REMEMBER QUERY tb AS m_{tag}_b"),
            (d_show("m_root_a"), "SHOW m_root_a"),
            (d_show("m_root_b"), "SHOW m_root_b"),
            ("flush", "FLUSH"),
            ("ping", "PING"),
            (d_def(f"t_{tag}"), f'DEFINE t_{tag} FIELDS {{ k: "int" }}'),
            (d_mku(f"x_{tag}", "kx", None), f'CREATE USER x_{tag} WITH KEY "kx"'),
            (d_mku(f"y_{tag}", "ky", ["admin"]), f'CREATE USER y_{tag} WITH KEY "ky" WITH ROLES ["admin"]'),
            ("lsu", "LIST USERS"),
            (d_gr(1, 0, ["tc"], "nor"), "GRANT READ ON tc TO nor"),
            ("shp:" + hx("nor"), "SHOW PERMISSIONS FOR nor"),
            (d_rv(1, 1, ["tc"], "nor"), "REVOKE READ, WRITE ON tc FROM nor"),
            ("rvk:" + hx(f"x_{tag}"), f"REVOKE KEY x_{tag}"),
            ("batch", 'BATCH [ STORE ta FOR c1 PAYLOAD {"k":9} ]'),
        ]
        return ks

    for u in rng_ids:
        ks = kinds(u)
        if tier == "quick" and idx > 0:
            ks = [k for k in ks if rng.chance(2, 3)]
        for desc, text in ks:
            h.cmd(u, desc, text)
    # d146031: REPLAY needs READ on the named type, whole-context REPLAY on EVERY defined type
    h.cmd(ADMIN, d_mku("pall", "key-pall", None), 'CREATE USER pall WITH KEY "key-pall"')
    h.cmd(ADMIN, d_gr(1, 0, types, "pall"), f"GRANT READ ON {', '.join(types)} TO pall")
    h.cmd("pra", d_rp(None, types), "REPLAY FOR c1", expect="403", note="READ on ta only: whole-context REPLAY")
    h.cmd("pra", d_rp("ta", types), "REPLAY ta FOR c1", expect="200", note="READ on ta only: REPLAY ta")
    h.cmd("pra", d_rp("tb", types), "REPLAY tb FOR c1", expect="403", note="READ on ta only: REPLAY tb")
    h.cmd(ADMIN, d_def(f"tnew{idx}"), f'DEFINE tnew{idx} FIELDS {{ k: "int" }}')
    h.cmd("pall", d_rp(None, types), "REPLAY FOR c1", expect="403",
          note="READ on ta, tb, tc, but tnew is a defined event type too")
    for t in types:
        h.cmd("pall", d_rp(t, types), f"REPLAY {t} FOR c1", expect="200", note="READ on the named type")
    h.cmd("rdr", d_rp(None, types), "REPLAY FOR c1", expect="200", note="read-only role: whole-context REPLAY")
    h.cmd(None, d_rp("ta", types), "REPLAY ta FOR c1", expect="401", note="no identity")
    # grant / revoke sequences: the next request sees the change
    for rd in range(6 if tier == "quick" else 60):
        u = rng.choice(["nor", "rdr", "wro", "edt", "pra", "pwa", "prw", "mix", "vwr"])
        t = rng.choice(types)
        r = rng.below(6)
        if r < 2:
            pr, pw = rng.choice([(1, 0), (0, 1), (1, 1)])
            names = ", ".join(n_ for n_, b in (("READ", pr), ("WRITE", pw)) if b)
            h.cmd(ADMIN, d_gr(pr, pw, [t], u), f"GRANT {names} ON {t} TO {u}")
        else:
            pr, pw = rng.choice([(1, 0), (0, 1), (1, 1), (1, 1)])
            names = ", ".join(n_ for n_, b in (("READ", pr), ("WRITE", pw)) if b)
            h.cmd(ADMIN, d_rv(pr, pw, [t], u), f"REVOKE {names} ON {t} FROM {u}")
        h.cmd(u, d_q(t), f"QUERY {t}")
        h.cmd(u, d_st(t), f'STORE {t} FOR c1 PAYLOAD {{"k":3}}')
        h.can(u, t)
    # unknown user / unknown event type in GRANT, duplicate user
    h.cmd(ADMIN, d_gr(1, 0, ["ta"], "ghost"), "GRANT READ ON ta TO ghost")
    h.cmd(ADMIN, d_gr(1, 0, ["nosuchtype"], "nor"), "GRANT READ ON nosuchtype TO nor")
    h.cmd(ADMIN, d_gr(1, 0, ["ta", "nosuchtype", "tb"], "nor"), "GRANT READ ON ta, nosuchtype, tb TO nor")
    h.can("nor", "ta")
    h.can("nor", "tb")
    h.cmd(ADMIN, d_mku("nor", "k", None), 'CREATE USER nor WITH KEY "k"')
    h.cmd(ADMIN, "rvk:" + hx("ghost"), "REVOKE KEY ghost")
    h.cmd(ADMIN, "shp:" + hx("ghost"), "SHOW PERMISSIONS FOR ghost")
    h.cmd(ADMIN, d_mku("bad id", "k", None), 'CREATE USER "bad id" WITH KEY "k"')
    return h


# ------------------------------------------------------------------ (e) one connection over time
def gen_conn(rng, tier, idx):
    """Credential state carried by ONE connection (one TcpAuthState / verif::Gate) across lines: AUTH, the
    token used successfully, then key / session / token revocation through the AuthManager, then the SAME
    token and connection-scoped signatures again on the SAME connection (and on other / fresh ones)."""
    h = Hist(f"conn{idx}", "conn")
    setup_types(h, ["ta"], 'k: "int", s: "string"')
    events = ["revkey_cmd", "revkey_mgr", "sess_revoke", "tok_revoke", "none"]
    nsc = 10 if tier == "quick" else 60
    for n in range(nsc):
        ev = events[n % len(events)] if n < 2 * len(events) else rng.choice(events)
        u, v = f"cu{idx}x{n}", f"cv{idx}x{n}"
        ku, kv = f"key-{u}", f"key-{v}"
        c, d, e = f"c{n}", f"d{n}", f"e{n}"
        x = f"x{n}"
        h.mk(u, ku, ["write-only"])
        h.mk(v, kv, ["write-only"])

        def st():
            return f'STORE ta FOR c1 PAYLOAD {{"k":{rng.below(1000)},"s":"v"}}'

        def line(conn, who, form, ok, note):
            key = ku if who == u else kv
            t = st()
            if form == "sig":
                ln = f"{sign(key, t)}:{t}"
            elif form == "inline":
                ln = f"{who}:{sign(key, t)}:{t}"
            else:                       # a token slot
                ln = f"{t} TOKEN @{{{form}}}"
            h.tcp(conn, ln, d_st("ta"), t, {"valid": bool(ok), "user": who}, note=note)

        def auth(conn, who, ok, note="AUTH"):
            key = ku if who == u else kv
            h.tcp(conn, f"AUTH {who}:{sign(key, who)}", "bad", "", {"valid": bool(ok), "user": who, "auth": True}, note=note)

        # before anything: the forms need credentials
        line(c, u, "sig", False, "connection-scoped form before AUTH")
        auth(c, u, True)
        auth(d, v, True)
        for k in range(rng.range(1, 3)):
            line(c, u, f"auth:{c}", True, "own AUTH token on its connection")
        line(c, u, "sig", True, "connection-scoped signature")
        line(d, u, f"auth:{c}", True, "u's token on v's connection")
        line(c, v, f"auth:{d}", True, "v's token on u's connection")
        h.add(f"auth_tok_new {x} {hx(u)}", op="toknew", u=u)
        line(c, u, x, True, "second session token of u on u's connection")
        if rng.chance(1, 2):
            line(d, u, x, True, "second session token of u on v's connection")
        h.add(f"auth_tok_check {hx('@{' + x + '}')}", op="tokcheck", live=True, u=u, show=f"validate_session_token(second token of {u}) after successful uses")
        h.add(f"auth_tok_check {hx('@{auth:' + c + '}')}", op="tokcheck", live=True, u=u, show=f"validate_session_token(AUTH token of {u}) after successful uses")
        h.http(u, sign(ku, "PING"), "PING", "ping", "PING", {"valid": True, "user": u}, note="http header before the event")
        # the event, through the AuthManager / an admin command - never through the connection itself
        if ev == "revkey_cmd":
            h.cmd(ADMIN, "rvk:" + hx(u), f"REVOKE KEY {u}")
        elif ev == "revkey_mgr":
            h.revkey(u)
        elif ev == "sess_revoke":
            h.add(f"auth_sess_revoke {hx(u)}", op="sessrevoke")
        elif ev == "tok_revoke":
            h.add(f"auth_tok_revoke {hx('@{auth:' + c + '}')}", op="tokrevoke")
            h.add(f"auth_tok_revoke {hx('@{gate:' + c + '}')}", op="tokrevoke")
        key_ok = ev in ("sess_revoke", "tok_revoke", "none")
        authtok_ok = ev == "none"
        x_ok = ev in ("tok_revoke", "none")
        tag = {"revkey_cmd": "after REVOKE KEY", "revkey_mgr": "after revoke_key", "sess_revoke": "after revoke_user_sessions",
               "tok_revoke": "after revoke_session_token", "none": "control, nothing revoked"}[ev]
        h.add(f"auth_tok_check {hx('@{' + x + '}')}", op="tokcheck", live=x_ok, u=u if x_ok else None, show=f"validate_session_token(second token of {u}) {tag}")
        h.add(f"auth_tok_check {hx('@{auth:' + c + '}')}", op="tokcheck", live=authtok_ok, u=u if authtok_ok else None, show=f"validate_session_token(AUTH token of {u}) {tag}")
        # the SAME connection again, every form, the token twice
        for k in range(2):
            line(c, u, f"auth:{c}", authtok_ok, f"own AUTH token RE-USED on the same connection {tag}")
        line(c, u, x, x_ok, f"second session token re-used on the same connection {tag}")
        line(c, u, "sig", key_ok, f"connection-scoped signature on the same connection {tag}")
        line(c, u, f"auth:{c}", authtok_ok, f"own AUTH token once more {tag}")
        # other connections, a fresh one, the other user
        line(d, u, f"auth:{c}", authtok_ok, f"u's token on v's connection {tag}")
        line(e, u, f"auth:{c}", authtok_ok, f"u's token on a fresh connection {tag}")
        line(e, u, "inline", key_ok, f"inline signature on a fresh connection {tag}")
        line(d, v, f"auth:{d}", True, f"v's own token {tag} of u")
        line(c, v, f"auth:{d}", True, f"v's token on u's connection {tag} of u")
        line(d, v, "sig", True, f"v's connection-scoped signature {tag} of u")
        h.http(u, sign(ku, "PING"), "PING", "ping", "PING", {"valid": key_ok, "user": u}, note=f"http header {tag}")
        # AUTH again on the same connection
        auth(c, u, key_ok, f"AUTH again on the same connection {tag}")
        line(c, u, f"auth:{c}", key_ok, f"token of the new AUTH {tag}")
        line(c, u, "sig", key_ok, f"connection-scoped signature after the new AUTH {tag}")
        line(c, u, x, x_ok, f"old second token after the new AUTH {tag}")
        if ev in ("none", "tok_revoke", "sess_revoke") and rng.chance(1, 2):
            # now revoke the key as well: everything of u dies, on the connection that just re-authenticated too
            h.cmd(ADMIN, "rvk:" + hx(u), f"REVOKE KEY {u}")
            line(c, u, f"auth:{c}", False, "fresh AUTH token re-used on the same connection after REVOKE KEY")
            line(c, u, "sig", False, "connection-scoped signature on the same connection after REVOKE KEY")
            line(c, u, x, False, "second token on the same connection after REVOKE KEY")
            line(c, v, f"auth:{d}", True, "v's token on the dead user's connection")
    return h


# ------------------------------------------------------------------ (f) GRANT / REVOKE over several event types
def gen_multi(rng, tier, idx):
    """GRANT / REVOKE naming several event types, for users that already hold different permission sets on
    the listed types; afterwards the whole table (get_permissions, SHOW PERMISSIONS, can_read / can_write)
    and STORE / QUERY per type."""
    import itertools
    h = Hist(f"multi{idx}", "multi")
    T = ["alpha", "beta", "gamma"]
    setup_types(h, T)
    for t in T:
        h.cmd(ADMIN, d_st(t), f'STORE {t} FOR c1 PAYLOAD {{"k":1}}')
    lists = [list(p) for p in itertools.permutations(T, 2)] + [list(p) for p in itertools.permutations(T, 3)]
    pre_cycle = [("w", None, "r"), (None, "w", "rw"), ("rw", "r", None), ("r", "deny", "w"), ("deny", None, "rw"), (None, None, None),
                 ("w", "w", "r"), ("r", "rw", "deny")]
    scen = []
    for i, ls in enumerate(lists):
        for kind in ("grant", "revoke"):
            pre = pre_cycle[(i * 2 + (kind == "revoke")) % len(pre_cycle)]
            scen.append((kind, ls, dict(zip(ls + [t for t in T if t not in ls], pre)), [(1, 0), (0, 1), (1, 1)][(i + (kind == "revoke")) % 3], []))
    nrand = 12 if tier == "quick" else 150
    for _ in range(nrand):
        ls = list(rng.choice(lists))
        if rng.chance(1, 4):
            ls.insert(rng.below(len(ls) + 1), rng.choice(ls))          # a type listed twice
        kind = rng.choice(["grant", "revoke"])
        if kind == "grant" and rng.chance(1, 6):
            ls.insert(rng.below(len(ls) + 1), "nosuch")                 # GRANT stops at an undefined type
        pre = {t: rng.choice([None, None, "r", "w", "rw", "deny"]) for t in T}
        roles = rng.choice([[], [], [], ["read-only"], ["editor"], ["write-only"], ["viewer", "write-only"]])
        scen.append((kind, ls, pre, rng.choice([(1, 0), (0, 1), (1, 1)]), roles))
    for n, (kind, ls, pre, (pr, pw), roles) in enumerate(scen):
        u = f"mu{idx}x{n}"
        text = f'CREATE USER {u} WITH KEY "k"' + (f" WITH ROLES [{', '.join(chr(34) + r + chr(34) for r in roles)}]" if roles else "")
        h.cmd(ADMIN, d_mku(u, "k", roles if roles else None), text)
        for t in T:
            p = pre.get(t)
            if p in ("r", "deny"):
                h.cmd(ADMIN, d_gr(1, 0, [t], u), f"GRANT READ ON {t} TO {u}")
            if p == "w":
                h.cmd(ADMIN, d_gr(0, 1, [t], u), f"GRANT WRITE ON {t} TO {u}")
            if p == "rw":
                h.cmd(ADMIN, d_gr(1, 1, [t], u), f"GRANT READ, WRITE ON {t} TO {u}")
            if p == "deny":
                h.cmd(ADMIN, d_rv(1, 1, [t], u), f"REVOKE READ, WRITE ON {t} FROM {u}")
        h.perms(u)
        names = ", ".join(n_ for n_, b in (("READ", pr), ("WRITE", pw)) if b)
        if kind == "grant":
            h.cmd(ADMIN, d_gr(pr, pw, ls, u), f"GRANT {names} ON {', '.join(ls)} TO {u}", note=f"multi-type GRANT, held before: {pre}")
        else:
            h.cmd(ADMIN, d_rv(pr, pw, ls, u), f"REVOKE {names} ON {', '.join(ls)} FROM {u}", note=f"multi-type REVOKE, held before: {pre}")
        h.perms(u)
        h.cmd(ADMIN, "shp:" + hx(u), f"SHOW PERMISSIONS FOR {u}")
        for t in T:
            h.can(u, t)
            h.cmd(u, d_st(t), f'STORE {t} FOR c1 PAYLOAD {{"k":2}}')
            h.cmd(u, d_q(t), f"QUERY {t}")
    return h


# ------------------------------------------------------------------ (g) revocation vs roles, next request
def gen_rolerev(rng, tier, idx):
    """REVOKE / GRANT of READ / WRITE on one event type for users who have access through a ROLE, with and
    without an explicit entry beforehand; then every command kind that reads / writes the type as that user
    (the next request), a control type the REVOKE did not name, GRANT back, and REVOKE KEY at the end."""
    h = Hist(f"rolerev{idx}", "rolerev")
    T, C = "alpha", "beta"
    setup_types(h, [T, C])
    for t in (T, C):
        h.cmd(ADMIN, d_st(t), f'STORE {t} FOR c1 PAYLOAD {{"k":1}}')
    role_sets = [["read-only"], ["viewer"], ["editor"], ["write-only"], ["read-only", "write-only"], [], ["admin"]]
    pres = [None, "r", "w", "rw"]
    combos = [(rs, pre, rv) for rs in role_sets for pre in pres for rv in ((1, 0), (0, 1), (1, 1))]
    if tier == "quick":
        keep = [c for c in combos if c[1] is None]                       # role only, no entry: the full grid
        rest = [c for c in combos if c[1] is not None]
        combos = keep + [rest[(7 * i + 3 * idx) % len(rest)] for i in range(12)]
    n = 0

    def requests(u, tag):
        for t in (T, C):
            h.can(u, t)
            h.cmd(u, d_st(t), f'STORE {t} FOR c1 PAYLOAD {{"k":2}}', note=f"{tag}: STORE {t}")
            h.cmd(u, d_q(t), f"QUERY {t}", note=f"{tag}: QUERY {t}")
            h.cmd(u, d_rp(t, [T, C]), f"REPLAY {t} FOR c1", note=f"{tag}: REPLAY {t}")
        h.cmd(u, d_q(C, [T]), f"QUERY {C} FOLLOWED BY {T} LINKED BY k", note=f"{tag}: sequence over both")
        h.cmd(u, d_cmp([[C], [T]]), f"PLOT COUNT OF {C} VS COUNT OF {T}", note=f"{tag}: comparison over both")
        h.cmd(u, d_q(T), f"PLOT COUNT OF {T}", note=f"{tag}: aggregate over {T}")
        h.cmd(u, d_rp(None, [T, C]), "REPLAY FOR c1", note=f"{tag}: whole-context REPLAY")

    for rs, pre, (rr, rw) in combos:
        n += 1
        u = f"rr{idx}x{n}"
        text = f'CREATE USER {u} WITH KEY "key-{u}"' + (f" WITH ROLES [{', '.join(chr(34) + r + chr(34) for r in rs)}]" if rs else "")
        h.cmd(ADMIN, d_mku(u, f"key-{u}", rs if rs else None), text)
        if pre:
            pr, pw = "r" in pre, "w" in pre
            names = ", ".join(x for x, b in (("READ", pr), ("WRITE", pw)) if b)
            h.cmd(ADMIN, d_gr(pr, pw, [T], u), f"GRANT {names} ON {T} TO {u}")
        if rng.chance(1, 2):
            requests(u, f"roles {rs}, entry {pre}, before the REVOKE")
        names = ", ".join(x for x, b in (("READ", rr), ("WRITE", rw)) if b)
        h.cmd(ADMIN, d_rv(rr, rw, [T], u), f"REVOKE {names} ON {T} FROM {u}", note=f"roles {rs}, entry before: {pre}")
        requests(u, f"roles {rs}, entry {pre}, next request after REVOKE {names}")
        h.perms(u)
        # grant it back: the next request is served again
        h.cmd(ADMIN, d_gr(rr, rw, [T], u), f"GRANT {names} ON {T} TO {u}")
        requests(u, f"roles {rs}, after GRANT {names} again")
        if rng.chance(1, 3):
            st = f'STORE {C} FOR c1 PAYLOAD {{"k":3}}'
            h.unix(f"{u}:{sign('key-' + u, st)}:{st}", d_st(C), st, {"valid": True, "user": u}, note="before REVOKE KEY")
            h.cmd(ADMIN, "rvk:" + hx(u), f"REVOKE KEY {u}")
            h.unix(f"{u}:{sign('key-' + u, st)}:{st}", d_st(C), st, {"valid": False, "user": u}, note="next request after REVOKE KEY")
            h.tcp(f"k{n}", f"{u}:{sign('key-' + u, st)}:{st}", d_st(C), st, {"valid": False, "user": u}, note="next request after REVOKE KEY")
            h.http(u, sign('key-' + u, st), st, d_st(C), st, {"valid": False, "user": u}, note="next request after REVOKE KEY")
    return h


# ------------------------------------------------------------------ (h) administration of a revoked account
def gen_revadm(rng, tier, idx):
    """REVOKE KEY u, then an administrative operation that names u (GRANT / REVOKE, one or several event types,
    the manager-level calls, CREATE USER u again, REVOKE KEY again, SHOW PERMISSIONS), then u tries every
    authentication form; then a restart on the same directories (auth WAL replay) and u tries again."""
    h = Hist(f"revadm{idx}", "revadm")
    T = ["ta", "tb"]
    setup_types(h, T, 'k: "int", s: "string"')
    ops = ["grant_r", "grant_w", "grant_rw_multi", "revoke_r", "revoke_w", "revoke_multi", "mgr_grant", "mgr_revoke",
           "create_again", "revkey_again", "showperm", "grant_then_revoke", "none"]
    if tier == "quick":
        chosen = ops[:]
    else:
        chosen = ops + [rng.choice(ops) for _ in range(20)]
    users = []
    st_v = 'STORE ta FOR c1 PAYLOAD {"k":1,"s":"v"}'
    h.mk(f"ctl{idx}", "key-ctl", ["editor"])

    def tries(u, key, c_old, tag, ok=False, tokens=()):
        st = f'STORE ta FOR c1 PAYLOAD {{"k":{rng.below(1000)},"s":"v"}}'
        cred = {"valid": ok, "user": u}
        h.active(u)
        h.tcp(f"n{u}{len(h.cases)}", f"{u}:{sign(key, st)}:{st}", d_st("ta"), st, cred, note=f"inline signature {tag}")
        if c_old:
            h.tcp(c_old, f"{sign(key, st)}:{st}", d_st("ta"), st, cred, note=f"connection-scoped signature on the old connection {tag}")
        h.tcp(f"a{u}{len(h.cases)}", f"AUTH {u}:{sign(key, u)}", "bad", "", {"valid": ok, "user": u, "auth": True}, note=f"AUTH {tag}")
        for tk in tokens:
            h.tcp(f"t{u}{len(h.cases)}", f"{st} TOKEN @{{{tk}}}", d_st("ta"), st, cred, note=f"session token issued earlier {tag}")
            h.add(f"auth_tok_check {hx('@{' + tk + '}')}", op="tokcheck", live=ok, u=u if ok else None,
                  show=f"validate_session_token(token of {u}) {tag}")
        h.unix(f"{u}:{sign(key, st)}:{st}", d_st("ta"), st, cred, note=f"unix inline {tag}")
        h.http(u, sign(key, st), st, d_st("ta"), st, cred, note=f"http header {tag}")
        h.http(None, None, f"{u}:{sign(key, st)}:{st}", d_st("ta"), st, cred, note=f"http inline {tag}")

    for n, op in enumerate(chosen):
        u, key = f"ra{idx}x{n}", f"key-ra{idx}x{n}"
        roles = rng.choice([["editor"], ["write-only"], [], ["admin"], ["read-only", "write-only"]])
        h.mk(u, key, roles)
        if not (set(roles) & {"editor", "write-only", "admin"}) or rng.chance(1, 2):
            h.cmd(ADMIN, d_gr(1, 1, ["ta"], u), f"GRANT READ, WRITE ON ta TO {u}")
        c_old, tok = f"o{n}", f"tk{n}"
        h.tcp(c_old, f"AUTH {u}:{sign(key, u)}", "bad", "", {"valid": True, "user": u, "auth": True}, note="AUTH while active")
        h.add(f"auth_tok_new {tok} {hx(u)}", op="toknew", u=u)
        tries(u, key, c_old, "while active", ok=True, tokens=(tok,))
        # the key is revoked ...
        if rng.chance(1, 2):
            h.cmd(ADMIN, "rvk:" + hx(u), f"REVOKE KEY {u}")
        else:
            h.revkey(u)
        tries(u, key, c_old, "right after REVOKE KEY", tokens=(tok, f"auth:{c_old}"))
        # ... and then somebody administers the dead account
        if op == "grant_r":
            h.cmd(ADMIN, d_gr(1, 0, ["ta"], u), f"GRANT READ ON ta TO {u}")
        elif op == "grant_w":
            h.cmd(ADMIN, d_gr(0, 1, ["tb"], u), f"GRANT WRITE ON tb TO {u}")
        elif op == "grant_rw_multi":
            h.cmd(ADMIN, d_gr(1, 1, ["tb", "ta"], u), f"GRANT READ, WRITE ON tb, ta TO {u}")
        elif op == "revoke_r":
            h.cmd(ADMIN, d_rv(1, 0, ["ta"], u), f"REVOKE READ ON ta FROM {u}")
        elif op == "revoke_w":
            h.cmd(ADMIN, d_rv(0, 1, ["ta"], u), f"REVOKE WRITE ON ta FROM {u}")
        elif op == "revoke_multi":
            h.cmd(ADMIN, d_rv(1, 1, ["ta", "tb"], u), f"REVOKE READ, WRITE ON ta, tb FROM {u}")
        elif op == "mgr_grant":
            h.grant(u, "ta", 1, 1)
        elif op == "mgr_revoke":
            h.revoke(u, "ta")
        elif op == "create_again":
            h.cmd(ADMIN, d_mku(u, key, ["admin"]), f'CREATE USER {u} WITH KEY "{key}" WITH ROLES ["admin"]', note="CREATE USER of a revoked id")
            h.add(f"auth_mk {hx(u)} {hx('other-key')} {hl(['admin'])}", op="mkdup", u=u, roles=["admin"], show=f"create_user_with_roles({u!r}) again after REVOKE KEY")
        elif op == "revkey_again":
            h.cmd(ADMIN, "rvk:" + hx(u), f"REVOKE KEY {u}")
        elif op == "showperm":
            h.cmd(ADMIN, "shp:" + hx(u), f"SHOW PERMISSIONS FOR {u}")
        elif op == "grant_then_revoke":
            h.cmd(ADMIN, d_gr(1, 1, ["ta"], u), f"GRANT READ, WRITE ON ta TO {u}")
            h.cmd(ADMIN, d_rv(0, 1, ["ta"], u), f"REVOKE WRITE ON ta FROM {u}")
        h.add(f"auth_tok_new {tok}b {hx(u)}", op="toknew", u=u)      # a session minted for the dead account
        tries(u, key, c_old, f"after REVOKE KEY and then {op}", tokens=(tok, f"{tok}b", f"auth:{c_old}"))
        h.perms(u)
        users.append((u, key, op))
    ctl = f"ctl{idx}"
    h.unix(f"{ctl}:{sign('key-ctl', st_v)}:{st_v}", d_st("ta"), st_v, {"valid": True, "user": ctl}, note="control user")
    # restart on the same directories: the auth WAL replay must not resurrect anybody
    h.add("auth_restart", op="restart", show="process restart on the same directories (auth WAL replay)")
    h.unix(f"{ctl}:{sign('key-ctl', st_v)}:{st_v}", d_st("ta"), st_v, {"valid": True, "user": ctl}, note="control user after the restart")
    for u, key, op in users:
        tries(u, key, None, f"after the restart (REVOKE KEY, then {op}, then restart)")
    # and once more after another permission change + restart
    for u, key, op in users[:4]:
        h.cmd(ADMIN, d_gr(1, 1, ["ta"], u), f"GRANT READ, WRITE ON ta TO {u}")
    h.add("auth_restart", op="restart", show="second restart")
    for u, key, op in users[:4]:
        tries(u, key, None, "after GRANT on the dead account and a second restart")
    return h


def gen_restart(rng, tier, idx):
    h = Hist(f"restart{idx}", "restart")
    setup_types(h, ["ta"])
    h.cmd(ADMIN, d_mku("ra", "key-ra", ["editor"]), 'CREATE USER ra WITH KEY "key-ra" WITH ROLES ["editor"]')
    h.cmd(ADMIN, d_mku("rb", "key-rb", ["read-only"]), 'CREATE USER rb WITH KEY "key-rb" WITH ROLES ["read-only"]')
    h.cmd(ADMIN, d_gr(0, 1, ["ta"], "rb"), "GRANT WRITE ON ta TO rb")
    h.cmd(ADMIN, d_rv(0, 1, ["ta"], "ra"), "REVOKE WRITE ON ta FROM ra")
    h.cmd(ADMIN, "rvk:" + hx("rb"), "REVOKE KEY rb")
    h.add(f"auth_tok_new a {hx('ra')}", op="toknew", u="ra")
    h.add("auth_restart", op="restart", show="process restart on the same directories")
    st = 'STORE ta FOR c1 PAYLOAD {"k":1}'
    h.can("ra", "ta")
    h.can("rb", "ta")
    h.cmd("ra", d_st("ta"), st)
    h.cmd("ra", d_q("ta"), "QUERY ta")
    h.unix(f"rb:{sign('key-rb', st)}:{st}", d_st("ta"), st, {"valid": False, "user": "rb"}, note="revoked key after restart")
    h.unix(f"ra:{sign('key-ra', st)}:{st}", d_st("ta"), st, {"valid": True, "user": "ra"}, note="valid key after restart")
    h.add(f"auth_tok_check {hx('@{a}')}", op="tokcheck", live=False, u=None, show="validate_session_token(token from before the restart)")
    return h


def cases(rng, tier):
    hs = []
    q = tier == "quick"
    for i in range(1 if q else 6):
        hs.append(gen_table(rng.fork(f"table{i}"), tier, i))
    for i in range(1 if q else 6):
        hs.append(gen_fn(rng.fork(f"fn{i}"), tier, i))
    hs.append(gen_expiry(rng.fork("expiry"), tier, 0))
    for i in range(3 if q else 30):
        hs.append(gen_gate(rng.fork(f"gate{i}"), tier, i))
    for i in range(8 if q else 120):
        hs.append(gen_engine(rng.fork(f"engine{i}"), tier, i))
    for i in range(1 if q else 4):
        hs.append(gen_restart(rng.fork(f"restart{i}"), tier, i))
    for i in range(2 if q else 12):
        hs.append(gen_conn(rng.fork(f"conn{i}"), tier, i))
    for i in range(2 if q else 10):
        hs.append(gen_multi(rng.fork(f"multi{i}"), tier, i))
    for i in range(2 if q else 8):
        hs.append(gen_rolerev(rng.fork(f"rolerev{i}"), tier, i))
    for i in range(2 if q else 8):
        hs.append(gen_revadm(rng.fork(f"revadm{i}"), tier, i))
    out = []
    for h in hs:
        out += h.cases
    return out


# ------------------------------------------------------------------ running both sides
def free_ports(n):
    socks, ports = [], []
    for _ in range(n):
        s = socket.socket()
        s.bind(("127.0.0.1", 0))
        ports.append(s.getsockname()[1])
        socks.append(s)
    for s in socks:
        s.close()
    return ports


CFG = '''[wal]
enabled = true
fsync = false
buffered = true
buffer_size = "100KB"
dir = "{d}/wal/"
flush_each_write = true
fsync_every_n = 1024
conservative_mode = false
archive_dir = "{d}/wal/archived/"
compression_level = 3
compression_algorithm = "zstd"

[engine]
fill_factor = 2
data_dir = "{d}/cols"
index_dir = "{d}/index/"
shard_count = 1
event_per_zone = 2
compaction_interval = 3000
sys_io_threshold = 10
sys_memory_threshold_mb = "128MB"
max_inflight_passives = 8
segments_per_merge = 2
compaction_max_shard_concurrency = 1

[schema]
def_dir = "{d}/schema/"

[server]
socket_path = "{d}/sneldb.sock"
log_level = "error"
output_format = "json"
tcp_addr = "127.0.0.1:{tp}"
http_addr = "127.0.0.1:{hp}"
ws_addr = "127.0.0.1:{wp}"
auth_token = "mysecrettoken"

[playground]
enabled = false
allow_unauthenticated = false

[auth]
bypass_auth = false
initial_admin_user = "{admin}"
initial_admin_key = "{key}"
rate_limit_enabled = false
session_token_expiry_seconds = {expiry}

[logging]
log_dir = "{d}/logs"
stdout_level = "error"
file_level = "error"

[query]
zone_index_cache_max_entries = 256
column_block_cache_max_bytes = "64MB"
zone_surf_cache_max_bytes = "10MB"

[time]
timezone = "UTC"
week_start = "Mon"
use_calendar_bucketing = true
'''


def run_impl_history(lines, expiry):
    """One history on the real code: one vharn process per lifetime (split at auth_restart)."""
    d = tempfile.mkdtemp(prefix="c13-", dir=vlib.WORK)
    try:
        tp, hp, wp = free_ports(3)
        cfg = os.path.join(d, "cfg.toml")
        open(cfg, "w").write(CFG.format(d=d, tp=tp, hp=hp, wp=wp, admin=ADMIN, key=ADMIN_KEY, expiry=expiry))
        env = dict(os.environ)
        env.update({"SNELDB_CONFIG": cfg, "SNELDB_AUTH_WAL_DIR": os.path.join(d, "authwal"), "RUST_LOG": "off"})
        out, seg = [], []

        def flush_seg():
            if not seg:
                return
            try:
                p = subprocess.run([vlib.VHARN, "fn"], input="\n".join(seg) + "\n", env=env, cwd=d, stdout=subprocess.PIPE,
                                   stderr=subprocess.DEVNULL, text=True, timeout=900)
                ol = p.stdout.split("\n")
            except subprocess.TimeoutExpired as ex:
                ol = (ex.stdout or b"").decode("utf-8", "replace").split("\n") if isinstance(ex.stdout, bytes) else (ex.stdout or "").split("\n")
            if ol and ol[-1] == "":
                ol.pop()
            for k in range(len(seg)):
                out.append(ol[k] if k < len(ol) else "ABORT")
            seg.clear()

        for ln in lines:
            if ln.strip() == "auth_restart":
                flush_seg()
                out.append("R")
            else:
                seg.append(ln)
        flush_seg()
        return out
    finally:
        shutil.rmtree(d, ignore_errors=True)


def run_model_history(lines):
    try:
        p = subprocess.run([vlib.MODEL_RUN], input="\n".join(lines) + "\n", stdout=subprocess.PIPE, stderr=subprocess.DEVNULL,
                           text=True, timeout=900)
        ol = p.stdout.split("\n")
    except subprocess.TimeoutExpired:
        ol = []
    if ol and ol[-1] == "":
        ol.pop()
    return [ol[k] if k < len(ol) else "ABORT" for k in range(len(lines))]


def run_sides(cases_, model_ok):
    # group into histories (a replayed single case carries its own prefix)
    groups, order = {}, []
    for i, c in enumerate(cases_):
        key = c.get("hist", f"_solo{i}")
        if "prefix" in c and sum(1 for x in cases_ if x.get("hist") == c.get("hist")) == 1:
            key = f"_replay{i}"
        if key not in groups:
            groups[key] = []
            order.append(key)
        groups[key].append(i)
    impl, model = [None] * len(cases_), [None] * len(cases_)

    def work(key):
        idxs = groups[key]
        if key.startswith("_replay"):
            c = cases_[idxs[0]]
            pre = list(c["prefix"])
            lines = [p["line"] for p in pre] + [c["line"]]
            full = pre + [c]
        else:
            lines = [cases_[i]["line"] for i in idxs]
            full = [cases_[i] for i in idxs]
        expiry = full[0].get("expiry", 300)
        io = run_impl_history(lines, expiry)
        mo = run_model_history(lines) if model_ok else [None] * len(lines)
        verdicts = judge_history(full, io)
        off = len(full) - len(idxs)
        for k, i in enumerate(idxs):
            impl[i], model[i] = io[off + k], mo[off + k]
            cases_[i]["_verdict"] = verdicts[off + k]
            bad = verdicts[off + k] is not None or (model_ok and not same(cases_[i], impl[i], model[i]))
            if bad and "prefix" not in cases_[i]:
                cases_[i]["prefix"] = [{"line": p["line"], **{kk: vv for kk, vv in p.items() if kk in ("op", "who", "desc", "u", "roles", "t", "r", "w", "cred", "expiry", "hist", "kind")}}
                                       for p in full[:off + k]]
    with concurrent.futures.ThreadPoolExecutor(max_workers=min(16, (os.cpu_count() or 4))) as ex:
        list(ex.map(work, order))
    return impl, model


def status_of(out):
    return (out or "").split(" ")[0]


def perms_of(out):
    """permission table of a SHOW PERMISSIONS / get_permissions answer: {type: (read, write)} or None"""
    for tok in (out or "").split(" "):
        if tok.startswith("perms="):
            return tok[6:]
    return None


def perm_table(txt):
    d = {}
    if txt and txt != "-":
        for e in txt.split(","):
            t, rw = e.rsplit(":", 1)
            d[bytes.fromhex(t).decode("utf-8", "replace") if t != "-" else ""] = ("r" in rw, "w" in rw)
    return d


def same(c, impl, model):
    if impl is None or model is None:
        return impl == model
    if c.get("op") == "cmd":
        return (status_of(impl), perms_of(impl)) == (status_of(model), perms_of(model))
    return impl == model


# ------------------------------------------------------------------ the declarative policy (oracle side)
class Policy:
    """Who may do what, tracked from what the implementation actually executed.

    Besides the sets of explicit grants in force (`rd`, `wr`: the weak policy "a permission or a role"),
    the oracle keeps what the user-management documentation says must be visible at the NEXT request:
      nr / nw   : READ / WRITE on the type was revoked (REVOKE answered 200) and not granted again;
      sr / sw   : READ / WRITE on the type was granted (GRANT answered 200) and not revoked since;
      touched   : types that ever got an explicit entry for the user (others are governed by the role alone).
    Documented rules used (docs/src/commands/user_management.md, "How Permission Override Works"):
      - admin: always allowed;
      - an explicit grant gives access whatever the roles;
      - after revoking WRITE the entry denies WRITE, overriding every role;
      - after revoking READ the entry denies READ, overriding every role - except that an entry that still
        grants WRITE falls back to the role for READ (the one case the documentation leaves to the role);
      - a type without any entry is governed by the role."""

    def __init__(self):
        self.users = {}
        self.add_user(ADMIN, ["admin"])
        self.mats = {}

    def known(self, u):
        return u is not None and u in self.users

    def admin(self, u):
        return self.known(u) and "admin" in self.users[u]["roles"]

    def may_read(self, u, t):
        return self.known(u) and (bool(self.users[u]["roles"] & READ_ROLES) or t in self.users[u]["rd"])

    def may_write(self, u, t):
        return self.known(u) and (bool(self.users[u]["roles"] & WRITE_ROLES) or t in self.users[u]["wr"])

    def writer(self, u):
        return self.known(u) and bool(self.users[u]["roles"] & WRITE_ROLES)

    def add_user(self, u, roles):
        if u not in self.users:
            self.users[u] = {"roles": set(roles or []), "rd": set(), "wr": set(), "active": True,
                             "nr": set(), "nw": set(), "sr": set(), "sw": set(), "touched": set()}

    # --- what the next request must show
    def must_deny(self, u, t, p):
        if not self.known(u) or self.admin(u):
            return False
        d = self.users[u]
        if p == "w":
            return t in d["nw"]
        return t in d["nr"] and not (bool(d["roles"] & (READ_ROLES - {"admin"})) and t in d["wr"])

    def must_allow(self, u, t, p):
        if not self.known(u):
            return False
        if self.admin(u):
            return True
        d = self.users[u]
        if t in d["s" + p]:
            return True
        roles = (READ_ROLES if p == "r" else WRITE_ROLES) - {"admin"}
        return t not in d["touched"] and bool(d["roles"] & roles)

    # --- effects
    def set_perm(self, u, t, p, on, sure=True):
        """READ (p='r') / WRITE (p='w') on t switched on by a grant or off by a revocation."""
        d = self.users[u]
        d["touched"].add(t)
        full = {"r": "rd", "w": "wr"}[p]
        if on:
            d[full].add(t)
            d["n" + p].discard(t)
            if sure:
                d["s" + p].add(t)
        else:
            d[full].discard(t)
            d["s" + p].discard(t)
            d["n" + p].add(t)

    def drop_entry(self, u, t):
        d = self.users[u]
        for k in ("rd", "wr", "nr", "nw", "sr", "sw", "touched"):
            d[k].discard(t)


def unhexl(s):
    return [] if s in ("-", "", "=") else [bytes.fromhex(x).decode("utf-8", "replace") if x != "-" else "" for x in s.split(",")]


def parse_desc(d):
    p = d.split(":")
    k = p[0]
    if k == "st":
        return k, {"types": unhexl(p[1])}
    if k == "q":
        ts = unhexl(p[1])
        return k, {"types": ts, "head": ts[:1], "tail": ts[1:]}
    if k == "rp":
        return k, {"types": unhexl(p[1]) if p[1] != "-" else None, "present": unhexl(p[2])}
    if k == "cmp":
        return k, {"types": [t for q in p[1].split(";") for t in unhexl(q)]}
    if k == "rem":
        return k, {"name": unhexl(p[1])[0], "types": unhexl(p[2])}
    if k == "show":
        return k, {"name": unhexl(p[1])[0]}
    if k == "def":
        return k, {"t": unhexl(p[1])[0]}
    if k == "mku":
        return k, {"u": (unhexl(p[1]) or [""])[0], "roles": unhexl(p[3])}
    if k in ("rvk", "shp"):
        return k, {"u": (unhexl(p[1]) or [""])[0]}
    if k in ("gr", "rv"):
        return k, {"r": p[1][0] == "1", "w": p[1][1] == "1", "types": unhexl(p[2]), "u": (unhexl(p[3]) or [""])[0]}
    return k, {}


def returned_types(out):
    for tok in (out or "").split(" "):
        if tok.startswith("types=") and tok != "types=-":
            return [bytes.fromhex(x).decode("utf-8", "replace") if x != "-" else "" for x in tok[6:].split(",")]
    return []


RESERVED = ("bypass", "no-auth")


def judge_command(pol, who, desc, status, out, injected=False):
    """-> (why or None).  `status` is the implementation's status code as a string.
    `injected`: the identity was handed to dispatch_command by the harness, not produced by a gate."""
    kind, a = parse_desc(desc)
    executed = status not in ("401", "403", "PARSE", "PARSEERR", "PANIC", "EOF", "AUTHFAIL", "ABORT", "TOKEN")
    why = None
    if kind == "mku" and status == "200" and a["u"] in RESERVED:
        return f"an account was created under the reserved id {a['u']!r}"
    if kind == "mku" and status == "200" and a["u"] in pol.users:
        return f"CREATE USER replaced the existing account {a['u']!r}" + ("" if pol.users[a["u"]]["active"] else " whose key had been revoked")
    # dispatch_command(.., Some("bypass")) is the contract of bypass_auth mode; since 139a8cf no account and no
    # gate can produce that identity (gate lines with it are judged as invalid credentials), so an injected
    # "bypass" is judged only if such an account nevertheless exists.
    judged = not (injected and who == "bypass" and not pol.known(who))
    if executed and judged and kind not in ("bad", "batch"):
        who_s = repr(who) if who is not None else "<no identity>"
        if kind == "st":
            if not all(pol.may_write(who, t) for t in a["types"]):
                why = f"STORE into {a['types']} executed (status {status}) for {who_s} without write permission or writing role"
        elif kind == "q":
            bad = [t for t in a["types"] if not pol.may_read(who, t)]
            if bad:
                why = f"query over {a['types']} executed (status {status}) for {who_s} who cannot read {bad}"
        elif kind == "rp":
            ts = a["types"] if a["types"] is not None else returned_types(out)
            bad = [t for t in set(ts) | set(returned_types(out)) if not pol.may_read(who, t)]
            if bad or not pol.known(who):
                why = f"REPLAY executed (status {status}) for {who_s} and covers event types {sorted(bad)} the identity cannot read"
        elif kind == "cmp":
            bad = [t for t in a["types"] if not pol.may_read(who, t)]
            if bad:
                why = f"comparison over {a['types']} executed (status {status}) for {who_s} who cannot read {bad}"
        elif kind == "rem":
            bad = [t for t in a["types"] if not pol.may_read(who, t)]
            if bad and status == "200":
                why = f"REMEMBER over {a['types']} executed for {who_s} who cannot read {bad}"
        elif kind == "show":
            ts = set(pol.mats.get(a["name"], [])) | set(returned_types(out))
            bad = [t for t in ts if not pol.may_read(who, t)]
            if bad and status == "200":
                why = f"SHOW {a['name']} returned event types {sorted(bad)} to {who_s} who cannot read them"
        elif kind == "flush":
            if not pol.writer(who):
                why = f"FLUSH executed (status {status}) for {who_s} who holds no writing role"
        elif kind in ("def",) + MGMT:
            if not pol.admin(who):
                why = f"admin-only command {kind} executed (status {status}) for {who_s} who is not an admin"
    # revocation / grant must show at this request (documented override rules, see Policy)
    if why is None and judged and pol.known(who) and kind in ("st", "q", "rp", "cmp", "rem") and status not in ("PARSE", "PARSEERR", "PANIC", "EOF", "ABORT"):
        p = "w" if kind == "st" else "r"
        need = a["types"] if a.get("types") is not None else a.get("present", [])
        word = "WRITE" if p == "w" else "READ"
        deny = [t for t in need if pol.must_deny(who, t, p)]
        if deny and executed:
            why = (f"{word} on {deny} was revoked from {who!r} (REVOKE answered 200) but the next {kind} request over "
                   f"{need} was served (status {status}); roles {sorted(pol.users[who]['roles'])}")
        elif status == "403" and a.get("types") is not None and need and all(pol.must_allow(who, t, p) for t in need):
            why = (f"{who!r} holds {word} on {need} (explicit grant answered 200, or role with no entry for the type) "
                   f"but the {kind} request was refused (403); roles {sorted(pol.users[who]['roles'])}")
    # effects follow what the implementation did
    if status == "200":
        if kind == "mku":
            pol.add_user(a["u"], a["roles"])
        elif kind == "rvk" and a["u"] in pol.users:
            pol.users[a["u"]]["active"] = False
        elif kind == "rv" and a["u"] in pol.users:
            for t in a["types"]:
                if a["r"]:
                    pol.set_perm(a["u"], t, "r", False)
                if a["w"]:
                    pol.set_perm(a["u"], t, "w", False)
        elif kind == "rem":
            pol.mats.setdefault(a["name"], a["types"])
    # a GRANT the implementation did not refuse counts as in force for every listed type, also when it
    # stopped half-way with 400 (the issuing identity is judged above)
    if status in ("200", "400") and kind == "gr" and a.get("u") in pol.users:
        for t in a["types"]:
            if a["r"]:
                pol.set_perm(a["u"], t, "r", True, sure=(status == "200"))
            if a["w"]:
                pol.set_perm(a["u"], t, "w", True, sure=(status == "200"))
    return why


def judge_table(pol, u, table, what):
    """every entry of a permission table must come from a grant in force, judged type by type"""
    for t, (r, w) in sorted(table.items()):
        if r and t not in pol.users[u]["rd"]:
            return f"{what}: user {u} holds READ on {t!r}, which was never granted (or was revoked)"
        if w and t not in pol.users[u]["wr"]:
            return f"{what}: user {u} holds WRITE on {t!r}, which was never granted (or was revoked)"
    return None


def judge_history(full, outs):
    pol = Policy()
    verdicts = []
    for c, out in zip(full, outs):
        op = c.get("op")
        st = status_of(out)
        why = None
        if out in ("ABORT", "UNKNOWN_PROBE") or (out or "").startswith("MODEL_EXN"):
            why = f"probe did not answer: {out}"
        elif op == "cmd":
            why = judge_command(pol, c.get("who"), c["desc"], st, out, injected=True)
            if why is None and c.get("expect") and st != c["expect"]:
                why = f"expected status {c['expect']} ({c.get('note')}), got {st}"
            if why is None and c["desc"].startswith("shp:") and st == "200" and perms_of(out) is not None:
                tu = parse_desc(c["desc"])[1]["u"]
                if tu in pol.users:
                    why = judge_table(pol, tu, perm_table(perms_of(out)), "SHOW PERMISSIONS")
        elif op == "gate":
            cred = c.get("cred", {})
            if cred.get("auth"):
                if st == "TOKEN" and not cred.get("valid"):
                    why = f"AUTH accepted without a valid signature of an active user ({c.get('note')})"
                elif st == "TOKEN" and cred.get("user") in pol.users and not pol.users[cred["user"]]["active"]:
                    why = f"AUTH accepted for a user whose key was revoked ({c.get('note')})"
            elif st in ("D", "TOKEN") and len(out.split(" ")) > 1 and bytes.fromhex(out.split(" ")[-1] if out.split(" ")[-1] != "-" else "").decode("utf-8", "replace") in RESERVED:
                why = f"check_auth attributed a line to a reserved id: {c.get('note')}"
            elif st in ("D", "TOKEN") and len(out.split(" ")) > 1 and out.split(" ")[-1] != "-" \
                    and bytes.fromhex(out.split(" ")[-1]).decode("utf-8", "replace") in pol.users \
                    and not pol.users[bytes.fromhex(out.split(" ")[-1]).decode("utf-8", "replace")]["active"]:
                why = f"check_auth served a user whose key was revoked: {c.get('note')}"
            elif st == "D" and not cred.get("valid"):
                why = f"check_auth handed the line on without valid credentials: {c.get('note')}"
            elif st == "D" and cred.get("user") is not None and bytes.fromhex(out.split(" ")[2]).decode("utf-8", "replace") != cred.get("user"):
                why = f"check_auth attributed the line to another user: {c.get('note')}"
        elif op in ("tcp", "unix", "http"):
            cred = c.get("cred", {})
            passed = st not in ("AUTHFAIL", "NOCONN", "IOERR", "TIMEOUT", "EMPTY")
            if cred.get("auth"):
                if st == "TOKEN" and not cred.get("valid"):
                    why = f"AUTH accepted without a valid signature of an active user ({c.get('note')})"
            elif passed and cred.get("user") in pol.users and not pol.users[cred["user"]]["active"]:
                why = f"request of {cred['user']!r} passed the {op} gate (result {st}) after its key was revoked: {c.get('note')}"
            elif passed and not cred.get("valid"):
                why = f"request passed the {op} gate (result {st}) without valid credentials: {c.get('note')}"
            elif passed and st not in ("PARSEERR",):
                why = judge_command(pol, cred.get("user"), c["desc"], st, out)
        elif op == "mk":
            if out == "OK":
                pol.add_user(c["u"], c.get("roles"))
                if c["u"] in RESERVED:
                    why = f"create_user accepted the reserved id {c['u']!r}"
        elif op == "mkdup":
            if out == "OK":
                why = "create_user replaced an existing user"
        elif op == "mkbad":
            if out == "OK":
                why = "create_user accepted an over-long key"
        elif op == "grant" and out == "OK" and c["u"] in pol.users:
            pol.set_perm(c["u"], c["t"], "r", bool(c["r"]))      # AuthManager::grant_permission SETS the entry
            pol.set_perm(c["u"], c["t"], "w", bool(c["w"]))
        elif op == "revoke" and out == "OK" and c["u"] in pol.users:
            pol.drop_entry(c["u"], c["t"])                       # AuthManager::revoke_permission drops it: the role decides again
        elif op == "revkey" and out == "OK" and c["u"] in pol.users:
            pol.users[c["u"]]["active"] = False
        elif op == "can":
            f = dict(x.split("=") for x in out.split(" ") if "=" in x)
            u, t = c["u"], c["t"]
            if f.get("a") == "1" and not pol.admin(u):
                why = f"is_admin({u}) holds without the admin role"
            elif f.get("r") == "1" and not pol.may_read(u, t):
                why = f"can_read({u},{t}) holds without read permission or a reading role"
            elif f.get("w") == "1" and not pol.may_write(u, t):
                why = f"can_write({u},{t}) holds without write permission or a writing role"
            elif pol.known(u):
                for p, word in (("r", "READ"), ("w", "WRITE")):
                    if f.get(p) == "1" and pol.must_deny(u, t, p):
                        why = f"{word} on {t!r} was revoked from {u!r} but can_{'read' if p == 'r' else 'write'} still holds; roles {sorted(pol.users[u]['roles'])}"
                    elif f.get(p) == "0" and pol.must_allow(u, t, p):
                        why = f"{u!r} holds {word} on {t!r} (explicit grant, or role with no entry) but can_{'read' if p == 'r' else 'write'} is false; roles {sorted(pol.users[u]['roles'])}"
        elif op == "active":
            if out == "A 1" and c["u"] in pol.users and not pol.users[c["u"]]["active"]:
                why = f"account {c['u']!r} is listed as active although its key was revoked (REVOKE KEY answered 200 / OK) and no new key was issued"
        elif op == "perms":
            if out.startswith("PT ") and c["u"] in pol.users:
                why = judge_table(pol, c["u"], perm_table(out[3:]), "get_permissions")
        elif op == "verify":
            if out == "OK" and not c.get("valid"):
                why = "verify_signature accepted a signature that is not hmac(key, message) of an active user"
        elif op == "tokcheck":
            if out.startswith("U ") and bytes.fromhex(out[2:]).decode("utf-8", "replace") in pol.users \
                    and not pol.users[bytes.fromhex(out[2:]).decode("utf-8", "replace")]["active"]:
                why = "validate_session_token accepted a token of a user whose key was revoked"
            elif out.startswith("U ") and not c.get("live"):
                why = "validate_session_token accepted a dead token"
            elif out.startswith("U ") and c.get("u") and bytes.fromhex(out[2:]).decode() != c["u"]:
                why = "validate_session_token returned another user"
        verdicts.append(why)
    return verdicts


def oracle(c, impl_out):
    return c.get("_verdict")


def classify(c, impl_out):
    if not c.get("_verdict"):
        return None
    if c.get("op") == "cmd":
        who = c.get("who")
    elif c.get("op") in ("tcp", "unix", "http"):
        who = c.get("cred", {}).get("user")
        if not c.get("cred", {}).get("valid") or c.get("cred", {}).get("auth"):
            return None
    else:
        return None
    kind, a = parse_desc(c.get("desc", "bad"))
    # REPLAY / REMEMBER / comparison / sequence leaks are repaired (d146031, 8e7945c, 20fee3f, 79dcefb):
    # only SHOW and FLUSH are still known, anything else is a VIOLATION again
    if kind == "show":
        return "UncheckedShow"
    if kind == "flush":
        return "FlushNoRole"
    return None


def nontrivial_key(c, impl_out):
    if impl_out in (None, "ABORT", "UNKNOWN_PROBE"):
        return None
    who = c.get("who") if c.get("op") == "cmd" else (c.get("cred", {}).get("user") if "cred" in c else c.get("u"))
    return (c.get("kind"), c.get("op"), str(who)[:8], (c.get("desc") or "").split(":")[0], c.get("note"), status_of(impl_out))
