"""C04 — REPLAY returns a context's events in the order they were appended."""
import re
from props import base, shardprop

PROP = "C04"
PROPS_V = "theories/Props/C04.v"
THEOREMS = ["C04_membership", "C04_membership_rows", "C04_order_within_tier", "C04_mem_flow_order_refuted",
            "C04_mem_flow_order_outside_known", "C04_seg_then_mem_append_order", "C04_seg_then_mem_refuted",
            "C04_seg_then_mem_outside_known", "C04_fanin_order_refuted", "C04_append_order_outside_known",
            "C04_append_order_example", "C04_stable_merge_keeps_order",
            "C04_order_if_stable", "C04_compaction_order_refuted", "C04_tiers_example", "C04_seg_then_mem_example",
            "C04_compaction_example"]
RULE = ("engine histories on one shard in which a few contexts span the active memtable, passive buffers, several L0 "
        "segments and compacted segments (STORE/FLUSH/compaction rounds/restart); every observation issues the typed "
        "REPLAY for each (type, context) and each REPLAY is repeated to sample schedules; non-trivial = some context "
        "with events in at least two tiers; distinct by (configuration, op sequence)")
ASSUMPTIONS = ["the scheduling of the in-memory and on-disk result streams is sampled by repeated reads, not enumerated",
               "one shard"]
TRUSTED = ["Coq 8.16.1 kernel + coqc", "extraction (ExtrOcamlBasic) + ocaml/p_shard.ml",
           "engine harness vharn life + tools/engine.py + tools/shardlib.py", "hooks in /repo under cfg(sneldb_verif)"]
CLAIMED = True
MANIFEST = {
 "level_text": "Theorems over the shard state machine Model/Shard.v and Model/Compaction.v (all crash-free label histories, any interleaving of STORE, manual FLUSH, WAL-thread steps and flush-worker stage labels, any number of queued rotations, any capacity; unique event ids assumed). The typed REPLAY of a context is an arbitrary interleaving of the memory flow and the segment flow, de-duplicated by event id. Proved: membership (every interleaving, de-duplicated, is a permutation of exactly the context's events of the type); order inside the tiers (the segment flow, every directory, the active memtable, every passive copy, and the passive copies followed by the active memtable are subsequences of the append order: flush_order is a stable sort by context and level-0 directories are created in rotation order; inductive order invariant on top of the C03 invariant); the sequential composition segments, passive copies, active memtable, de-duplicated, is EXACTLY the append order at every reachable state (the minimal repair). Refuted with witnesses and proved outside the class: the memory flow reads the active memtable before the passive copies (ActiveBeforePassive: 2,1); the fan-in may emit in-memory events before older on-disk ones (MemtableAndSegmentFlowsInterleave: 4,1,3); outside both classes every schedule returns exactly the append order. Compaction: the model's merge is stable, so for any 'appended before' relation sorted inputs listed in label order give a sorted output, and after any batch the policy can produce (batch_ok, inputs then in label order) the output directory holds the context's events in append order (C04_order_if_stable); refuted on the model: the output directory is listed after newer level-0 directories, the segment flow after a compaction is 3,1,2 (CompactionScramblesContextOrder). The models are validated against the engine by trace validation of hooked runs; REPLAY sequences are compared with the model's set of interleavings, as multisets after a compaction.",
 "design_ref": "DESIGN.md \u00a76 C04",
 "level_note": "Trusted: Coq kernel; ExtrOcamlBasic extraction + ocaml/p_shard.ml; the engine harness, tools/engine.py, tools/shardlib.py (trace -> label mapping); hooks under cfg(sneldb_verif). Not covered by the theorems: histories with crash/restart; the schedule of the two result streams (any interleaving is allowed); the implementation's arbitrary tie order between compaction inputs (outside the model, compared as multisets); the order of the segment flow after a compaction beyond the output directory; the wildcard (untyped) REPLAY; more than one shard. Unique event ids are a hypothesis (C18)."
}


def corpus():
    return base.corpus_for(PROP)


def cases(rng, tier):
    out = []
    n = 30 if tier == "quick" else 1000
    # (a) a flush backlog: the first rotation is flushed, the flush worker then parks, two more rotations
    #     queue up; REPLAY while parked must list the passive copies in rotation (= append) order
    for i in range(2 if tier == "quick" else 40):
        cfg = dict(rng.choice(shardprop.CFGS)); cfg["wildcard_replay"] = False
        cap = cfg["fill_factor"] * cfg["event_per_zone"]
        if i % 2 == 0:
            # rotation 0 flushed before the backlog builds up
            ops = [("S", 0, 0) for _ in range(cap)]
            ops += [("PARK", "fw_begin")] + [("SN", 0, 0) for _ in range(cap)] + [("WAITHITS", "fw_begin", 2)]
            ops += [("SN", 0, 0) for _ in range(cap)] + [("OP", "fw_begin"), ("OP", "fw_begin")]
        else:
            # two rotations pending, only the OLDER one is allowed to finish (its passive copy is released and
            # stays in the set as an empty slot), then a third rotation while the second is still pending
            ops = [("PARK", "fw_begin")] + [("SN", 0, 0) for _ in range(cap)] + [("WAITHITS", "fw_begin", 1)]
            ops += [("SN", 0, 0) for _ in range(cap)]
            ops += [("RELEASE", "fw_begin"), ("PARK", "fw_begin"), ("WAITHITS", "fw_begin", 2)]
            ops += [("SN", 0, 0) for _ in range(cap)] + [("OP", "fw_begin"), ("OP", "fw_begin")]
        ops += [("RELEASE", "fw_begin"), ("SETTLE",), ("O",)]
        out.append(shardprop.mk_case("passive-backlog", cfg, 1, 1, ops))
    # (a') the same backlog, then the process is killed and restarted: recovery replays several live log files and
    #      must apply them in log order (REPLAY after the restart is in append order)
    for i in range(2 if tier == "quick" else 40):
        cfg = dict(rng.choice(shardprop.CFGS)); cfg["wildcard_replay"] = False
        cap = cfg["fill_factor"] * cfg["event_per_zone"]
        nrot = rng.range(3, 6)
        ops = [("S", 0, 0) for _ in range(cap)] if i % 2 == 0 else []
        ops += [("PARK", "fw_begin")]
        for r_ in range(nrot):
            ops += [("SN", 0, rng.below(2)) for _ in range(cap)]
        ops += [("SN", 0, rng.below(2)) for _ in range(rng.range(0, cap - 1))] if cap > 1 else []
        ops += [("KR",), ("SETTLE",), ("O",)]
        out.append(shardprop.mk_case("backlog-kill-restart", cfg, 1, 2, ops))
    # (a'') the wall clock steps back and forth between STOREs of one context (event stamps are whole seconds taken
    #       by the connection handler): REPLAY follows the order in which the STOREs were applied, not the stamps. All
    #       stores fit one memtable, so that neither a rotation nor the (known) memory/segment fan-in interferes;
    #       then a FLUSH: the order must survive it
    for i in range(2 if tier == "quick" else 40):
        cfg = dict(rng.choice([c for c in shardprop.CFGS if c["fill_factor"] * c["event_per_zone"] >= 4])); cfg["wildcard_replay"] = False
        cap = cfg["fill_factor"] * cfg["event_per_zone"]
        t0 = 1790000000
        ops = []
        for j in range(cap - 1):
            ops.append(("NOW", t0 + (60 if j % 2 == 0 else -60) + rng.range(-20, 20)))
            ops.append(("S", 0, 0 if j % 3 else rng.below(2)))
        ops += [("O",), ("F",), ("O",)]
        if i % 2 == 1:
            ops += [("R",), ("O",)]
        out.append(shardprop.mk_case("clock-steps", cfg, 1, 2, ops))
    # (b) large memtables (more than 20 events per flush) with two event types: the flusher's regrouping by
    #     type must keep append order inside a context
    for i in range(2 if tier == "quick" else 40):
        cfg = {"fill_factor": rng.choice([6, 8, 11]), "event_per_zone": rng.choice([4, 5]), "segments_per_merge": 2, "wildcard_replay": False}
        cap = cfg["fill_factor"] * cfg["event_per_zone"]
        ops = [("SN", rng.below(2), rng.below(2)) for _ in range(cap)] + [("SETTLE",), ("O",)]
        ops += [("SN", rng.below(2), 0) for _ in range(cap + 3)] + [("SETTLE",), ("O",)]
        out.append(shardprop.mk_case("big-flush", cfg, 2, 2, ops))
    for i in range(n):
        cfg = dict(rng.choice(shardprop.CFGS))
        cfg["segments_per_merge"] = rng.choice([2, 3])
        cfg["wildcard_replay"] = True
        ntypes, nctx = rng.range(1, 2), rng.range(1, 3)
        cap = cfg["fill_factor"] * cfg["event_per_zone"]
        ops = []
        for s in range(rng.range(1, 5)):
            ops += [("S", rng.below(ntypes), rng.below(nctx)) for _ in range(cap)]
            if rng.chance(1, 3):
                ops.append(("O",))
        if i % 3 == 1:
            ops += [("C",), ("O",)]
            if rng.chance(1, 2):
                ops += [("S", rng.below(ntypes), rng.below(nctx)) for _ in range(cap)] + [("C",), ("O",)]
        ops += [("S", rng.below(ntypes), rng.below(nctx)) for _ in range(rng.range(1, cap - 1) if cap > 1 else 0)]
        ops.append(("O",))
        if i % 5 == 4:
            ops += [("R",), ("O",)]
        out.append(shardprop.mk_case("replay", cfg, ntypes, nctx, ops))
    return out


run_sides = shardprop.run_sides
same = shardprop.same
diffs = shardprop.diffs


def oracle(c, impl):
    if impl.get("line") is None:
        return None
    for n, o in enumerate(impl["obs"]):
        for cc in range(c["nctx"]):
            if f"rpw{cc}" in o:
                exp = [k for (k, uu, c2) in o["acked"] if c2 == cc]
                if sorted(o[f"rpw{cc}"]) != sorted(exp):
                    return f"obs#{n} rpw{cc}: REPLAY FOR ctx (no type) returned {o[f'rpw{cc}']}, the context's events are {exp} (WILDCARD)"
        for u in range(c["ntypes"]):
            for cc in range(c["nctx"]):
                exp = [k for (k, uu, c2) in o["acked"] if uu == u and c2 == cc]
                got = o[f"rp{u}_{cc}"]
                if sorted(got) != sorted(exp):
                    return f"obs#{n} rp{u}_{cc}: REPLAY returned {got}, the context's events are {exp} (MEMBERSHIP)"
                if got != exp:
                    return f"obs#{n} rp{u}_{cc}: REPLAY returned {got}, append order is {exp} (ORDER)" + (" after-compaction" if o.get("compacted") else "")
    return None


def classify(c, impl, model=None):
    why = oracle(c, impl) or ""
    if "(WILDCARD)" in why and c["ntypes"] > 1 and any(o["dirs"] for o in impl["obs"]):
        return "WildcardReplayDropsTypes"
    if "(ORDER)" in why and model and not shardprop.diffs(c, impl, model):
        return "CompactionScramblesContextOrder" if "after-compaction" in why else "MemtableAndSegmentFlowsInterleave"
    # SegmentLabelReusedStaleCache was repaired by a19e65f and is no longer an accepted class
    return None


def nontrivial_key(c, impl):
    obs = impl.get("obs") or []
    if any(o["dirs"] and len(o["acked"]) > 0 for o in obs):
        return c["show"]
    return None
