"""C09 — aggregates equal a fold over the selection (function-level core)."""
import datetime, math
from fractions import Fraction
import vlib
from props import base
from props import ordlib as L

PROP = "C09"
PROPS_V = "theories/Props/C09.v"
THEOREMS = ["C09_agg_merge_assoc_comm", "C09_agg_partition", "C09_total_is_wrapped_sum", "C09_int_column_metrics", "C09_agg_partition_refuted",
            "C09_agg_partition_outside_known", "C09_each_event_one_group", "C09_pipeline_equals_fold", "C09_flow_alts_single", "C09_merged_groups_alts_single", "C09_count_unique_texts", "C09_limit_caps_groups",
            "C09_bucket_contains", "C09_bucket_on_boundary", "C09_calendar_bucket_of_exact"]
RULE = ("(1) full pipeline runs: 1-3 flows x 1-3 batches of generated rows (time, group-by values, metric field values of every "
        "runtime kind incl. nulls) through the real AggregateOp per flow and the real partial-row parser / AggState::merge / "
        "agg_state_to_scalar at the coordinator, for every metric (COUNT, COUNT f, COUNT UNIQUE, TOTAL, AVG as (sum,count), MIN, MAX), "
        "with and without BY / PER; one deviation source per scenario; (2) split pairs: the same rows under two different "
        "splits into flows and batches must give the same groups and metrics; (3) CalendarTimeBucketer (no tz and UTC, every "
        "week start) and naive_bucket_of on instants around hour/day/week/month/year boundaries, leap days, the chrono range "
        "limits and u64 wrap-around. A case is non-trivial when at least one group is reported; distinct by (probe, scenario, result)")
ASSUMPTIONS = [
    "the coordinator glue of merge_batch_into_groups / emit_merged_groups (pub(crate)) is re-implemented in the harness probe from the public parse_aggregate_row, AggState::merge and agg_state_to_scalar; the ORDER BY / LIMIT part of emit_merged_groups is covered by theorem only at function level",
    "i64::to_string followed by str::parse::<i64> is the identity (used by snapshot_aggregator's re-parse)",
    "the AHash-based group pre-hash and the 1000-entry group-key cache are collision free",
    "AVG is compared as the (sum, count) pair; the final f64 division is not modelled",
    "the sink's bucket_of reads the process-wide CONFIG ([time] of config/test.toml: UTC, Monday, calendar bucketing); other week starts are exercised on CalendarTimeBucketer directly",
    "event-id de-duplication inside the sink never triggers in the streaming path (the event_id column is not among the converted columns) and is not modelled",
]
TRUSTED = [
    "Coq 8.16.1 kernel + coqc; vm_compute for closed witnesses and the 400-year civil-calendar sweep; no native_compute",
    "extraction: ExtrOcamlBasic only; ocaml/driver.ml, conv.ml, p_order.ml, p_agg.ml (parsing/printing)",
    "correspondence harness /verif/harness (vharn fn agg_run/agg_raw/agg_bucket) built against /repo with --cfg sneldb_verif",
    "python oracle tools/props/c09.py: recomputation of every metric from the rows under the typed semantics (exact integers / rationals, CPython datetime for calendar buckets)",
]
CLAIMED = True
MANIFEST = {
 "level_text": "Theorems (unbounded): AggState::merge is associative and commutative; for every split of the rows of a group into parts, folding the parts separately (update per cell), snapshotting, and merging equals folding the whole list (sums as wrap64(Σ), exact when Σ fits in i64) — refuted for MIN when a part holds only nulls, with the strongest statement outside that class; every row lands in exactly one group; LIMIT/OFFSET only select groups; calendar buckets are aligned (bucket <= ts < next bucket, on the hour/day/week-start/month/year boundary). The model's per-cell update, partial snapshot, wire encoding, merge and finalisation are run against the real AggregateOp + AggState on generated rows under arbitrary splits, the bucketers against CalendarTimeBucketer / naive_bucket_of.",
 "design_ref": "DESIGN.md §6 C09",
 "level_note": "Function-level core only (the engine-level FOR/SINCE finding and the aggregate-vs-selection comparison on real shards are added separately). Trusted: Coq kernel; ExtrOcamlBasic extraction + OCaml driver; the Rust harness incl. its re-implementation of the pub(crate) coordinator glue; the Python recomputation oracle. AVG compared as (sum,count); hash collisions of group keys excluded."
}

EPOCH = datetime.datetime(1970, 1, 1)
DT_MAX = 253402300799


def corpus():
    return base.corpus_for(PROP)


# ------------------------------------------------------------------ reference semantics
def ref_bucket(ts, g, week_start=0):
    """calendar bucket (UTC) of a second count within the datetime range"""
    day = ts - ts % 86400
    if g == "h":
        return ts - ts % 3600
    if g == "d":
        return day
    d = EPOCH + datetime.timedelta(seconds=day)
    if g == "w":
        back = (d.weekday() - week_start) % 7
        return day - back * 86400
    if g == "m":
        return int((datetime.datetime(d.year, d.month, 1) - EPOCH).total_seconds())
    return int((datetime.datetime(d.year, 1, 1) - EPOCH).total_seconds())


def group_text(v):
    t = v[0]
    if t == "n":
        return None
    if t == "s":
        return v[1]
    if t in ("i", "t"):
        return str(v[1]).encode()
    if t == "f":
        return L.rust_f64_display(v[1]).encode()
    if t == "b":
        return b"true" if v[1] else b"false"
    return b""


def wrap64(z):
    return (z + 2 ** 63) % 2 ** 64 - 2 ** 63


def num_value(v):
    if v[0] in ("i", "t"):
        return Fraction(v[1])
    f = L.f64_from_bits(v[1])
    return Fraction(f)


def ref_metric(kind, vals):
    """('i', n) | ('avg', sum, count) | ('s', bytes) | ('q', Fraction) | None (unspecified) under the typed semantics"""
    nn = [v for v in vals if v[0] != "n"]
    if kind == "c":
        return ("i", len(vals))
    if kind == "f":
        return ("i", len(nn))
    fam = L.column_family(vals)
    if kind == "u":
        if fam is None:
            return None
        d = len(set(L.ref_key(fam, v) for v in nn))
        # whether a missing value counts as one more distinct value is not fixed by the property: accept both
        return ("ialt", d, d + (1 if len(nn) < len(vals) else 0))
    if kind in ("t", "a"):
        if fam in ("int",):
            s = sum(v[1] for v in nn)
            return ("i", wrap64(s)) if kind == "t" else ("avg", wrap64(s), len(nn))
        if fam == "num":
            s = sum(num_value(v) for v in nn)
            return ("q", s) if kind == "t" else ("qavg", s, len(nn))
        return None
    if kind in ("m", "x"):
        if fam is None or fam == "bool":
            return None
        if not nn:
            return ("empty",)
        keys = [(L.ref_key(fam, v), v) for v in nn]
        k, v = (min if kind == "m" else max)(keys, key=lambda kv: kv[0])
        if fam in ("int", "u64"):
            return ("i", k[1])
        if fam == "num":
            return ("q", k[1])
        return ("s", v[1])
    return None


def metric_matches(exp, got):
    """got: impl metric string (i<n> | s<hex> | a<s>/<c> | u<n>[..])"""
    if exp is None:
        return True
    if exp[0] == "i":
        return got == f"i{exp[1]}" or (got.startswith("u") and got.split("[")[0] == f"u{exp[1]}")
    if exp[0] == "ialt":
        return got.startswith("u") and got.split("[")[0] in (f"u{exp[1]}", f"u{exp[2]}")
    if exp[0] == "avg":
        return got == f"a{exp[1]}/{exp[2]}"
    if exp[0] == "empty":
        return True
    if exp[0] == "s":
        return got == "s" + L.hexb(exp[1])
    if exp[0] == "q":
        if got.startswith("i"):
            return Fraction(int(got[1:])) == exp[1]
        if got.startswith("s"):
            s = bytes.fromhex(got[1:]) if got[1:] != "-" else b""
            f = L.parse_f64(s)
            return f is not None and not math.isnan(f) and not math.isinf(f) and Fraction(f) == exp[1]
        return False
    if exp[0] == "qavg":
        if not got.startswith("a"):
            return False
        s, n = got[1:].split("/")
        return Fraction(int(s)) == exp[1] and int(n) == exp[2]
    return True


# ------------------------------------------------------------------ case encoding
def enc_row(r):
    return ":".join(L.tok(v) for v in r)


def enc_flows(flows):
    return "/".join(";".join(",".join(enc_row(r) for r in b) for b in f) if f else "e" for f in flows)


def untok(t):
    tag, rest = t[0], t[1:]
    if tag == "n":
        return ("n",)
    if tag == "b":
        return ("b", rest == "1")
    if tag in "it":
        return (tag, int(rest))
    if tag == "f":
        return ("f", int(rest.split(".")[0], 16))
    return (tag, b"" if rest == "-" else bytes.fromhex(rest))


def dec_flows(tok):
    return [[] if f == "e" else [[[untok(v) for v in r.split(":")] for r in b.split(",")] for b in f.split(";")] for f in tok.split("/")]


def parse_out(res):
    """'G<n> b;g.g;m,m ...' -> {(bucket|None, (g bytes..)): [metric strings]}"""
    if res is None or not res.startswith("G"):
        return None
    parts = res.split()
    out = {}
    for p in parts[1:]:
        b, gs, ms = p.split(";")
        key = (None if b == "-" else int(b), tuple() if gs == "" else tuple(b"" if g == "-" else bytes.fromhex(g) for g in gs.split(".")))
        out[key] = ms.split(",")
    return out


# ------------------------------------------------------------------ generators
GROUP_CLEAN = [("s", b"a"), ("s", b"b"), ("s", b"cc"), ("s", b"x y"), ("s", "é".encode()), ("b", True), ("b", False), ("i", 7), ("i", -3), ("i", 0),
               ("s", b"1a"), ("s", b"7.5")]
TS_EDGES = [0, 1, 3599, 3600, 86399, 86400, 604799, 604800, 951782399, 951782400, 951868800, 1078012800, 1077926400, 1704067199, 1704067200,
            1706745599, 1706745600, 1709251199, 1709251200, 1735689599, 1735689600, 4102444800, 4107542400, 345600, 259200]


def g_ts(rng):
    r = rng.below(4)
    if r == 0:
        return ("t", rng.choice(TS_EDGES) + rng.choice([0, 0, -1, 1, 3600, 86400]) if rng.chance(1, 2) else rng.choice(TS_EDGES))
    if r == 1:
        return ("t", rng.range(0, 4 * 10 ** 9))
    if r == 2:
        return ("t", 1704067200 + rng.range(0, 40) * 86400 + rng.range(0, 86399))
    return ("t", rng.range(0, DT_MAX))


def g_field(rng, fam):
    if fam == "int":
        r = rng.below(6)
        if r == 0:
            return ("i", rng.choice([0, 1, -1, L.I64_MAX, L.I64_MIN, L.I64_MAX - 1, 2 ** 62, -(2 ** 62), 2 ** 53 + 1]))
        if r == 1:
            return ("i", rng.range(L.I64_MIN, L.I64_MAX))
        return ("i", rng.range(-50, 50))
    if fam == "float":
        r = rng.below(4)
        if r == 0:
            return ("f", L.bits_from_f64(float(rng.range(-20, 20))))
        if r == 1:
            return ("f", L.bits_from_f64(rng.range(-2000, 2000) / rng.choice([2, 4, 8, 10, 100])))
        if r == 2:
            return ("i", rng.range(-20, 20))
        return ("f", L.bits_from_f64(rng.choice([0.5, 1.5, 9.5, 10.5, -1.5, -2.5, 100.25, 1e3, 2.5e-3, 1e21])))
    if fam == "intfloat":
        return ("f", L.bits_from_f64(float(rng.range(-9, 9)))) if rng.chance(1, 4) else ("i", rng.range(-20, 20))
    if fam == "plain":
        return ("s", rng.choice([b"a", b"b", b"abc", b"abd", b"B", b"zz", b"z", b"x1", "é".encode(), b"_", b"a b", b"tru", b"10a", b"9z"]))
    if fam == "numstr":
        return ("s", rng.choice([b"9", b"10", b"1a", b"007", b"+7", b"7", b"-3", b"1.5", b"abc", b"100", b"99"]))
    if fam == "bool":
        return ("b", rng.chance(1, 2))
    if fam == "ts":
        return ("t", rng.range(0, 2 * 10 ** 9))
    return ("n",)


SCENARIOS = {
    # name: (field family, null rate, group source, ts source, metrics allowed, expected class when the deviation is present)
    "clean_int": ("int", 0, "clean", "ok", "cftam x", None),
    "clean_int_nulls": ("int", 4, "clean", "ok", "cftamx", None),
    "clean_plain": ("plain", 0, "clean", "ok", "cfumx", None),
    "clean_ts": ("ts", 0, "clean", "ok", "cfumxta", None),
    "uniq_typed": ("int", 5, "clean", "ok", "u", None),          # class CountUniqueTypedBatch fixed by 6631182
    "countfield_null": ("plain", 3, "clean", "ok", "f", "CountFieldNullInStringBatch"),
    "float_field": ("float", 0, "clean", "ok", "tamx", "NonIntegerMetricField"),
    "minmax_numstr": ("numstr", 0, "clean", "ok", "mx", "MinMaxNumericLookingStrings"),
    "min_null_str": ("plain", 3, "clean", "ok", "m", "MinNullAsEmptyString"),
    "empty_group": ("int", 0, "empty", "ok", "ct", "EmptyGroupDropped"),
    "group_numeric": ("int", 0, "numeric", "ok", "ct", "GroupKeyNumericNormalised"),
    "bad_time": ("int", 0, "clean", "bad", "ct", "BucketOfInvalidTime"),
    "mixed_paths": ("intfloat", 0, "clean", "ok", "cta", None),  # class UngroupedMixedBatchPaths fixed by d49da47
}


def g_rows(rng, sc, ng, nf, n):
    fam, nullrate, gsrc, tsrc, _, _ = SCENARIOS[sc]
    rows = []
    pool = [rng.choice(GROUP_CLEAN) for _ in range(3)]
    for _ in range(n):
        ts = g_ts(rng)
        if tsrc == "bad" and rng.chance(1, 3):
            ts = rng.choice([("n",), ("i", -rng.range(1, 10 ** 6)), ("s", b"x"), ("t", -1), ("s", b"12")])
        gs = []
        for j in range(ng):
            if gsrc == "empty" and rng.chance(1, 4):
                gs.append(rng.choice([("n",), ("s", b"")]))
            elif gsrc == "numeric" and rng.chance(1, 2):
                gs.append(("s", rng.choice([b"007", b"+7", b"7", b"-0", b"0", b"00"])))
            else:
                gs.append(rng.choice(pool))
        fs = []
        for j in range(nf):
            if nullrate and rng.chance(1, nullrate):
                fs.append(("n",))
            else:
                fs.append(g_field(rng, fam))
        rows.append([ts] + gs + fs)
    return rows


def split_rows(rng, rows):
    """random split into flows x batches keeping every row exactly once"""
    nfl = rng.choice([1, 1, 2, 2, 3])
    flows = [[] for _ in range(nfl)]
    for r in rows:
        flows[rng.below(nfl)].append(r)
    out = []
    for fr in flows:
        batches = []
        i = 0
        while i < len(fr):
            k = rng.choice([1, 1, 2, 3, 5, 8])
            batches.append(fr[i:i + k])
            i += k
        out.append(batches)
    return out


def g_metrics(rng, allowed, nf):
    allowed = [m for m in allowed if m != " "]
    k = rng.choice([1, 1, 2, 3, 4])
    ms = []
    for _ in range(k):
        m = rng.choice(allowed)
        ms.append(m if m == "c" else f"{m}{rng.below(nf)}")
    return ms


def cases(rng, tier):
    q = tier == "quick"
    out = []

    def add(kind, line, **kw):
        d = {"kind": kind, "line": line}
        d.update(kw)
        out.append(d)

    # (1) pipeline runs, one deviation source per scenario
    for sc in SCENARIOS:
        for _ in range(160 if q else 6000):
            ng = rng.choice([0, 1, 1, 2])
            if sc in ("empty_group", "group_numeric"):
                ng = rng.choice([1, 2])
            nf = rng.choice([1, 1, 2])
            gran = rng.choice(["-", "-", "h", "d", "w", "m", "y"])
            if sc == "bad_time":
                gran = rng.choice(["h", "d", "w", "m", "y"])
            if sc == "mixed_paths":
                ng, gran = 0, "-"
            rows = g_rows(rng, sc, ng, nf, rng.choice([1, 2, 3, 5, 8, 13]))
            flows = split_rows(rng, rows)
            ms = g_metrics(rng, SCENARIOS[sc][4], nf)
            raw = rng.chance(1, 4)
            add(("raw_" if raw else "run_") + sc, f"{'agg_raw' if raw else 'agg_run'} {','.join(ms)} {gran} {ng} {nf} {enc_flows(flows)}",
                scenario=sc, show=f"{','.join(ms)} PER {gran} BY {ng} fields; {len(rows)} rows in {len(flows)} flows")
    # (2) split pairs (agg_partition on the implementation)
    for sc in ("clean_int", "clean_int_nulls", "clean_plain", "uniq_typed", "countfield_null", "min_null_str", "float_field", "minmax_numstr", "mixed_paths"):
        for _ in range(120 if q else 5000):
            ng = rng.choice([0, 1])
            nf = 1
            gran = rng.choice(["-", "-", "d", "m"])
            if sc == "mixed_paths":
                ng, gran = 0, "-"
            rows = g_rows(rng, sc, ng, nf, rng.choice([2, 3, 5, 8]))
            fa, fb = split_rows(rng, rows), split_rows(rng, rows)
            if rng.chance(1, 3):
                fb = [[rows]]
            ms = g_metrics(rng, SCENARIOS[sc][4], nf)
            head = f"agg_run {','.join(ms)} {gran} {ng} {nf} "
            add("split_" + sc, None, split=[head + enc_flows(fa), head + enc_flows(fb)], scenario=sc,
                show=f"{','.join(ms)} PER {gran} BY {ng}; {len(rows)} rows split two ways")
    # (3) buckets
    for _ in range(1500 if q else 150000):
        g = rng.choice("hdwmy")
        ws = rng.below(7)
        r = rng.below(8)
        if r < 3:
            ts = rng.choice(TS_EDGES) + rng.choice([0, -1, 1, 86400, -86400, 3599])
        elif r < 5:
            ts = rng.range(0, DT_MAX)
        elif r == 5:
            ts = rng.choice([2 ** 64 - 1, 2 ** 63, 2 ** 63 - 1, 2 ** 64 - 86400, 2 ** 64 - 31536000 * 2, 8210266876799, 8210266876800, 8210298412799, 8210298412800,
                             2 ** 64 - 8334601228800, 2 ** 64 - 8334601228801, 2 ** 64 - 8334632851200, 2 ** 64 - 8334632851201, 10 ** 13, 2 ** 64 - 10 ** 13]) + rng.choice([0, 0, 1, -1])
        elif r == 6:
            ts = 2 ** 64 - rng.range(1, 4 * 10 ** 9)
        else:
            ts = rng.range(0, 8 * 10 ** 12)
        ts = max(0, min(2 ** 64 - 1, ts))
        add("bucket", f"agg_bucket {g} {ws} {ts}", show=f"bucket_of({ts}, {g}, week_start={ws})")
    return out


# ------------------------------------------------------------------ running
def run_sides(cases_, model_ok):
    for c in cases_:
        if c.get("line") is None and c.get("split"):
            c["line"] = "split " + c["show"]
    simple = [i for i, c in enumerate(cases_) if not c.get("split")]
    pairs = [i for i, c in enumerate(cases_) if c.get("split")]
    lines = [cases_[i]["line"] for i in simple]
    for i in pairs:
        lines += cases_[i]["split"]
    ri = vlib.run_lines(vlib.VHARN, ["fn"], lines, timeout=1500)
    rm = vlib.run_lines(vlib.MODEL_RUN, [], lines, timeout=1500) if model_ok else [None] * len(lines)
    impl, model = [None] * len(cases_), [None] * len(cases_)
    for k, i in enumerate(simple):
        impl[i], model[i] = ri[k], rm[k]
    base_ = len(simple)
    for k, i in enumerate(pairs):
        impl[i] = f"{ri[base_ + 2 * k]} || {ri[base_ + 2 * k + 1]}"
        model[i] = None if rm[base_ + 2 * k] is None else f"{rm[base_ + 2 * k]} || {rm[base_ + 2 * k + 1]}"
    return impl, model


def same(c, impl, model):
    """the model lists every outcome the sink allows (one per line part, ' ## '-separated)"""
    if model is None or impl is None:
        return impl == model
    if c.get("split"):
        ia, ib = impl.split(" || ")
        ma, mb = model.split(" || ")
        return ia in ma.split(" ## ") and ib in mb.split(" ## ")
    return impl in model.split(" ## ")


# ------------------------------------------------------------------ oracle
def _expected(ms, gran, ng, nf, flows):
    """reference groups: {(bucket, (group texts..)) : [expected metric]}; keys with a missing group value use None"""
    rows = [r for f in flows for b in f for r in b]
    groups = {}
    for r in rows:
        ts, gs, fs = r[0], r[1:1 + ng], r[1 + ng:]
        if gran == "-":
            b = None
        elif ts[0] in ("t", "i") and 0 <= ts[1] <= DT_MAX:
            b = ref_bucket(ts[1], gran)
        else:
            b = "invalid"
        key = (b, tuple(group_text(g) for g in gs))
        groups.setdefault(key, []).append(fs)
    exp = {}
    for key, frs in groups.items():
        exp[key] = [ref_metric(m[0], [fr[int(m[1:] or 0)] for fr in frs] if m[0] != "c" else [("i", 0)] * len(frs)) for m in ms]
    return exp, groups


def _key_classes(ms, gran, ng, nf, flows):
    """known deviations of the group key present in the data (ordered)"""
    rows = [r for f in flows for b in f for r in b]
    out = []
    if gran != "-" and any(not (r[0][0] in ("t", "i") and 0 <= r[0][1] <= DT_MAX) for r in rows):
        out.append("BucketOfInvalidTime")
    if gran == "w" and any(r[0][0] in ("t", "i") and 0 <= r[0][1] < 345600 for r in rows):
        out.append("WeekBucketBeforeEpoch")
    if any(g[0] == "n" or (g[0] == "s" and g[1] == b"") for r in rows for g in r[1:1 + ng]):
        out.append("EmptyGroupDropped")
    if any(g[0] == "s" and L.parse_i64(g[1]) is not None and str(L.parse_i64(g[1])).encode() != g[1] for r in rows for g in r[1:1 + ng]):
        out.append("GroupKeyNumericNormalised")
    return out


def _mixed_paths(ms, gran, ng, flows):
    """no BY / PER, only COUNT / TOTAL / AVG, and one flow has both a batch whose TOTAL/AVG columns are all
    Int64-or-Null and a batch where one is not"""
    if gran != "-" or ng != 0 or any(m[0] not in "cta" for m in ms):
        return False
    for f in flows:
        kinds = set()
        for b in f:
            typed = all(all(r[1 + ng + int(m[1:])][0] in ("i", "n") for r in b) for m in ms if m[0] in "ta")
            kinds.add(typed)
        if len(kinds) == 2:
            return True
    return False


def _metric_class(m, ng, flows, vals):
    """class explaining a wrong metric m over the field values vals of one group"""
    if m[0] == "c":
        return None
    j = int(m[1:])
    cols = [[r[1 + ng + j] for r in b] for f in flows for b in f]
    k = m[0]
    if k == "f" and any(any(v[0] == "n" for v in col) and not all(v[0] in ("i", "n") for v in col) for col in cols):
        return "CountFieldNullInStringBatch"
    if k in "tamx" and any(v[0] == "f" and L.parse_i64(L.rust_f64_display(v[1]).encode()) is None for v in vals):
        return "NonIntegerMetricField"
    if k in "mx" and any(v[0] == "s" and L.parse_i64(v[1]) is not None for v in vals):
        return "MinMaxNumericLookingStrings"
    if k == "m" and any(v[0] == "n" for v in vals) and any(v[0] == "s" for v in vals):
        return "MinNullAsEmptyString"
    return None


def _judge_run(line, impl):
    """-> list of (why, class) for every deviation of the reported aggregates from the recomputation"""
    t = line.split()
    ms, gran, ng, nf = t[1].split(","), t[2], int(t[3]), int(t[4])
    flows = dec_flows(t[5])
    got = parse_out(impl)
    if got is None:
        return [(f"aggregate pipeline did not answer: {impl}", None)]
    exp, members = _expected(ms, gran, ng, nf, flows)
    kcls = _key_classes(ms, gran, ng, nf, flows)
    out = []
    for key, ems in sorted(exp.items(), key=lambda kv: repr(kv[0])):
        if key not in got:
            b, gs = key
            cls = None
            if b == "invalid":
                cls = "BucketOfInvalidTime"
            elif isinstance(b, int) and b < 0:
                cls = "WeekBucketBeforeEpoch"
            elif any(g is None or g == b"" for g in gs):
                cls = "EmptyGroupDropped"
            elif any(L.parse_i64(g) is not None and str(L.parse_i64(g)).encode() != g for g in gs):
                cls = "GroupKeyNumericNormalised"
            out.append((f"group {key} of the selection is not reported (reported: {sorted(got, key=repr)[:4]})", cls))
            continue
        for m, e, g in zip(ms, ems, got[key]):
            if t[0] == "agg_raw":
                g = _final_of_raw(g)
            if not metric_matches(e, g):
                vals = [fr[int(m[1:])] for fr in members[key]] if m[0] != "c" else []
                cls = _metric_class(m, ng, flows, vals) or _merge_target(key, kcls, flows, ng)
                out.append((f"group {key}: metric {m} = {g}, the fold over the selected events gives {e}", cls))
    for key in got:
        if key not in exp:
            out.append((f"reported group {key} does not exist in the selection", kcls[0] if kcls else None))
    return out


def _merge_target(key, kcls, flows, ng):
    """a key-level deviation explains a wrong metric only in a group that receives the mis-keyed rows"""
    b, gs = key
    rows = [r for f in flows for bt in f for r in bt]
    for k in kcls:
        if k in ("BucketOfInvalidTime", "WeekBucketBeforeEpoch") and b in (0, None):
            return k
        if k == "GroupKeyNumericNormalised":
            texts = set(g[1] for r in rows for g in r[1:1 + ng] if g[0] == "s")
            if any(any(L.parse_i64(x) is not None and str(L.parse_i64(x)).encode() == g and x != g for x in texts) for g in gs):
                return k
    return None


def _first(js):
    """unclassified deviations first: a known class never hides an unknown one"""
    for why, cls in js:
        if cls is None:
            return why, cls
    return js[0] if js else (None, None)


def _final_of_raw(g):
    """raw state string -> final form (what agg_state_to_scalar prints)"""
    import re
    if g.startswith("c") or re.fullmatch(r"s-?[0-9]+", g):
        return "i" + g[1:]
    if g.startswith("m"):
        num, s = g[1:].split(":")
        if num != "-":
            return "i" + num
        return s if s != "-" else "s-"
    return g


def _judge(c, impl):
    if impl is None or "PANIC" in impl or "ABORT" in impl:
        if c["line"].startswith("agg_bucket"):
            t = c["line"].split()
            secs = int(t[3]) - (2 ** 64 if int(t[3]) >= 2 ** 63 else 0)
            if t[1] == "w" and CHRONO_MIN_SECS <= secs < CHRONO_MIN_SECS + 7 * 86400:
                return (f"CalendarTimeBucketer::bucket_of panics on {c.get('show')}", "BucketPanicAtChronoMin")
        return (f"implementation {impl} on {c.get('show')}", None)
    if c.get("split"):
        a, b = impl.split(" || ")
        if a != b:
            ja = _first(_judge_run(c["split"][0], a))
            jb = _first(_judge_run(c["split"][1], b))
            cls = None
            for why, k in (ja, jb):
                if why is not None and k is None:
                    cls = None
                    break
                if k is not None:
                    cls = cls or k
            if cls == "MinNullAsEmptyString":
                cls = "MinEmptyPartial"
            return (f"the same rows split two ways give different aggregates: {a}  vs  {b}", cls)
        return (None, None)
    line = c["line"]
    if line.startswith("agg_bucket"):
        return (oracle_bucket(c, impl), None)
    if line.startswith("agg_run") or line.startswith("agg_raw"):
        return _first(_judge_run(line, impl))
    return (None, None)


CHRONO_MIN_SECS = -8334601228800   # -262143-01-01T00:00:00Z


def oracle(c, impl):
    return _judge(c, impl)[0]


def oracle_bucket(c, impl):
    t = c["line"].split()
    g, ws, ts = t[1], int(t[2]), int(t[3])
    f = impl.split()
    if len(f) != 6:
        return f"bucket probe did not answer: {impl}"
    cal, utc, naive = int(f[1]), int(f[3]), int(f[5])
    if cal != utc:
        return f"bucket_of({ts},{g}) differs between no time zone ({cal}) and UTC ({utc})"
    w = {"h": 3600, "d": 86400, "w": 604800, "m": 2592000, "y": 31536000}[g]
    if naive != ts // w * w:
        return f"naive_bucket_of({ts},{g}) = {naive}"
    if 0 <= ts <= DT_MAX:
        e = ref_bucket(ts, g, ws)
        if cal != e % 2 ** 64:
            return f"calendar bucket_of({ts},{g},week_start={ws}) = {cal}, the calendar gives {e}"
    return None


# ------------------------------------------------------------------ classification
def classify(c, impl):
    return _judge(c, impl)[1]


def nontrivial_key(c, impl):
    if impl is None or impl.startswith("G0") or impl.startswith("ERR"):
        return None
    return (c["line"].split()[0], c.get("scenario"), impl)


# ---------------------------------------------------------------------------------------------
# Engine-level part (oracle only): aggregates vs the metric recomputed from the rows the same query
# without aggregation returns on the same quiescent state, over shards x memory / segments / compacted.
from props import englib as _E

_F = {"cases": cases, "run_sides": run_sides, "same": same, "oracle": oracle, "classify": classify,
      "nontrivial_key": nontrivial_key}


def _eng_cases(rng, tier):
    out = []
    n = 14 if tier == "quick" else 400
    for i in range(n):
        cfg = dict(rng.choice(_E.CFGS)); cfg["segments_per_merge"] = rng.choice([2, 3])
        nctx = rng.range(1, 4)
        evs, script = _E.gen_population(rng, rng.range(4, 36), nctx, rng.choice([3, 10, 1000]))
        # events of a second type (same field names) mixed in, most of them last so that they stay in memory:
        # an aggregate over t must not see them (fix dc170f4; before it the in-memory flow ignored the type)
        script.insert(1, ("cmd", f"DEFINE u FIELDS {_E.FIELDS}"))
        for j in range(rng.below(5)):
            pos = rng.range(2, len(script)) if rng.chance(1, 3) else len(script)
            script.insert(pos, ("cmd", f'STORE u FOR c{rng.below(nctx)} PAYLOAD {{"k": {rng.below(10)}, "g": "g{rng.below(3)}"}}'))
        # string values that need escaping when a partial state travels between shard flows and the coordinator
        # (line break, tab, quote, backslash, control and non-ASCII characters), for COUNT UNIQUE over a string field
        for wv in [rng.choice(['line\\nbreak', 'tab\\there', 'quo\\"te', 'back\\\\slash', 'bell\\u0007', 'caf\\u00e9', 'g0']) for _ in range(rng.range(0, 4))]:
            pos = rng.range(2, len(script))
            script.insert(pos, ("cmd", f'STORE t FOR c{rng.below(nctx)} PAYLOAD {{"k": {rng.below(10)}, "g": "{wv}"}}'))
        script.append(("quiesce",))
        qs = []
        for _ in range(5):
            restr = rng.choice(["", "", f" FOR c{rng.below(nctx)}", f" WHERE k >= {rng.below(6)}"])
            agg = rng.choice(["COUNT", "TOTAL k", "AVG k", "MIN k", "MAX k", "COUNT UNIQUE k", "COUNT UNIQUE g", "COUNT UNIQUE g", "COUNT BY g", "COUNT, TOTAL k BY g"])
            script.append(("cmd", f"QUERY t{restr}"))
            script.append(("cmd", f"QUERY t{restr} {agg}"))
            qs.append((restr, agg))
        out.append({"kind": "engine", "line": "", "cfg": cfg, "script": [list(x) for x in script], "evs": evs, "qs": qs,
                    "show": f"engine {cfg}: {len(evs)} events, " + "; ".join(f"QUERY t{r} {a}" for r, a in qs)})
    # a slow shard: every shard's scan of the aggregate query is held at its first step for longer than any
    # plausible per-shard patience (6 s); the answer must still be the fold over the selection (a shard that answers
    # late is part of the answer)
    for i in range(1 if tier == "quick" else 6):
        cfg = dict(rng.choice([c for c in _E.CFGS if c["shards"] > 1])); cfg["segments_per_merge"] = 2
        nctx = rng.range(3, 6)
        evs, script = _E.gen_population(rng, rng.range(8, 30), nctx, 10)
        script = [st for st in script if st[0] == "cmd"]          # no restarts / compactions here
        script.append(("quiesce",))
        qs = []
        for agg in rng.choice([["COUNT BY g", "TOTAL k"], ["COUNT", "COUNT, TOTAL k BY g"]]):
            script.append(("cmd", "QUERY t"))
            script.append(("slowread", f"QUERY t {agg}", "rd_scan_start", rng.choice([5600, 6500])))
            qs.append(("", agg))
        out.append({"kind": "engine", "line": "", "cfg": cfg, "script": [list(x) for x in script], "evs": evs, "qs": qs,
                    "show": f"engine slow-shard {cfg}: {len(evs)} events, " + "; ".join(f"QUERY t {a} (scans held > 5 s)" for _, a in qs)})
    # ... and ONE slow shard, stalled in the middle of its flow (not in its set-up): the shard of a busy context has a
    # rotated memtable whose flush is held at its first step; the aggregate query's memory source of that shard is held
    # while it has the passive buffer locked, for longer than 5 s, while the other shards answer at once
    for i in range(1 if tier == "quick" else 6):
        cfg = dict(rng.choice([c for c in _E.CFGS if c["shards"] > 1])); cfg["segments_per_merge"] = 2
        cap = cfg["fill_factor"] * cfg["event_per_zone"]
        script = [("cmd", f"DEFINE t FIELDS {_E.FIELDS}")]
        evs = []
        for cx in range(rng.range(3, 6)):
            for j in range(rng.range(1, max(1, cap - 1))):
                k = rng.below(10)
                script.append(("cmd", f'STORE t FOR quiet{cx} PAYLOAD {{"k": {k}, "g": "g{rng.below(3)}"}}')); evs.append({"k": k})
        if rng.chance(1, 2):
            script += [("cmd", "FLUSH"), ("quiesce",)]
        script.append(("raw", "!park fw_begin"))
        for j in range(cap):
            k = rng.below(10)
            script.append(("cmd", f'STORE t FOR busy PAYLOAD {{"k": {k}, "g": "g{rng.below(3)}"}}')); evs.append({"k": k})
        script.append(("raw", "!wait_parked fw_begin 3000"))
        agg = rng.choice(["COUNT BY g", "COUNT", "TOTAL k", "COUNT, TOTAL k BY g"])
        script.append(("cmd", "QUERY t"))
        script.append(("slowread", f"QUERY t {agg}", "rd_passive_locked", rng.choice([5600, 6500]), "fw_begin"))
        qs = [("", agg)]
        out.append({"kind": "engine", "line": "", "cfg": cfg, "script": [list(x) for x in script], "evs": evs, "qs": qs,
                    "show": f"engine slow-shard-mid-flow {cfg}: {len(evs)} events, QUERY t {agg} (one shard's memory source held > 5 s)"})
    # scale: more rows in ONE flow than a source batch holds (32 768), so that per-batch partial states are combined
    # inside a flow; a group that occurs in the first batch only, one that first appears late, null metric cells
    for i in range(1 if tier == "quick" else 4):
        nev = rng.range(33500, 36000) if i == 0 else rng.range(33000, 70000)
        flushed = (i % 2 == 1)
        cfg = dict(fill_factor=80, event_per_zone=1000, shards=1, segments_per_merge=2)
        script = [("cmd", f"DEFINE t FIELDS {_E.FIELDS}")]
        for j in range(nev):
            g = "rare" if j in (3, 77, 4000) else ("late" if j > nev - 50 and j % 7 == 0 else f"g{j % 4}")
            script.append(("raw", f'STORE t FOR c{j % 3} PAYLOAD {{"k": {j % 10}, "g": "{g}"}}'))
        if flushed:
            script.append(("cmd", "FLUSH"))
        script.append(("quiesce",))
        qs = []
        for restr, agg in (("", "COUNT BY g"), ("", "COUNT, TOTAL k BY g"), ("", "COUNT"), ("", "TOTAL k"), (" WHERE k >= 5", "COUNT BY g")):
            script.append(("cmd", f"QUERY t{restr}"))
            script.append(("cmd", f"QUERY t{restr} {agg}"))
            qs.append((restr, agg))
        out.append({"kind": "engine", "line": "", "cfg": cfg, "script": [list(x) for x in script], "evs": [], "qs": qs,
                    "show": f"engine large {cfg}: {nev} events in one {'segment' if flushed else 'memtable'}, " + "; ".join(f"QUERY t{r} {a}" for r, a in qs)})
    return out


def cases(rng, tier):
    return _F["cases"](rng, tier) + _eng_cases(rng.fork("engine"), tier)


def run_sides(cases_, model_ok):
    fn = [c for c in cases_ if c.get("kind") != "engine"]
    en = [c for c in cases_ if c.get("kind") == "engine"]
    fi, fm = _F["run_sides"](fn, model_ok) if fn else ([], [])
    ei = _E.run_scripts(en) if en else []
    it_f, it_m, it_e = iter(fi), iter(fm), iter(ei)
    impl, model = [], []
    for c in cases_:
        if c.get("kind") == "engine":
            impl.append(next(it_e)); model.append(None)
        else:
            impl.append(next(it_f)); model.append(next(it_m))
    return impl, model


def same(c, impl, model):
    return True if c.get("kind") == "engine" else _F["same"](c, impl, model)


def _eng_judge(c, impl):
    """-> (why, class) of the first aggregate that differs from the fold over the selection"""
    if not impl.get("ok"):
        return "engine harness: " + str(impl.get("err")), None
    res = impl["res"][-2 * len(c["qs"]):]
    for i, (restr, agg) in enumerate(c["qs"]):
        sel, ag = res[2 * i], res[2 * i + 1]
        if sel["status"] != 200 or ag["status"] != 200:
            continue
        ks = [x["k"] for x in sel["rows"]]
        rows = ag["rows"]
        # rows can be present twice only after a restart (WAL replay of events that are in a segment too) or a
        # compaction (partially drained input + output): without either step an over-count is not the known finding
        dbl = any(st[0] in ("restart", "compact") for st in c["script"])
        def bad(msg, cls):
            return f"QUERY t{restr} {agg}: {msg} (selection has {len(ks)} rows)", (cls if dbl else None)
        if agg == "COUNT":
            got = rows[0]["count"] if rows else 0
            if got != len(ks):
                return bad(f"COUNT {got}", "AggregateCountsMoreThanSelected" if got > len(ks) else None)
        elif agg == "TOTAL k":
            got = rows[0]["total_k"] if rows else 0
            if got != sum(ks):
                return bad(f"TOTAL {got} vs {sum(ks)}", "AggregateCountsMoreThanSelected" if got > sum(ks) else None)
        elif agg in ("MIN k", "MAX k"):
            key = "min_k" if agg == "MIN k" else "max_k"
            got = rows[0].get(key) if rows else None
            exp = (min(ks) if agg == "MIN k" else max(ks)) if ks else None
            if ks and got != exp:
                over = restr != "" or True
                return bad(f"{agg} {got} vs {exp}", "AggregateCountsMoreThanSelected")
        elif agg == "AVG k":
            got = rows[0].get("avg_k") if rows else None
            if ks and (got is None or abs(got - sum(ks) / len(ks)) > 1e-9):
                return bad(f"AVG {got} vs {sum(ks) / len(ks)}", "AggregateCountsMoreThanSelected")
        elif agg == "COUNT UNIQUE g":
            if not rows and ks:
                return bad("COUNT UNIQUE g returned no row at all", None)
            got = rows[0].get("count_unique_g") if rows else 0
            want = len(set(x.get("g") for x in sel["rows"]))
            if got != want:
                return bad(f"COUNT UNIQUE g {got} vs {want} distinct values in the selection", "AggregateCountsMoreThanSelected" if (got or 0) > want else None)
        elif agg == "COUNT UNIQUE k":
            got = rows[0].get("count_unique_k") if rows else 0
            if got != len(set(ks)):
                return bad(f"COUNT UNIQUE {got} vs {len(set(ks))}", "AggregateCountsMoreThanSelected" if got > len(set(ks)) else None)
        elif agg.endswith("BY g"):
            exp = {}
            for x in sel["rows"]:
                exp[x["g"]] = exp.get(x["g"], 0) + 1
            got = {x["g"]: x["count"] for x in rows}
            if got != exp:
                more = all(got.get(g, 0) >= n for g, n in exp.items())
                return bad(f"COUNT BY g {got} vs {exp}", "AggregateCountsMoreThanSelected" if more else None)
    return None, None


def oracle(c, impl):
    return _eng_judge(c, impl)[0] if c.get("kind") == "engine" else _F["oracle"](c, impl)


def classify(c, impl):
    return _eng_judge(c, impl)[1] if c.get("kind") == "engine" else _F["classify"](c, impl)


def nontrivial_key(c, impl):
    if c.get("kind") == "engine":
        return c["show"] if impl.get("ok") else None
    return _F["nontrivial_key"](c, impl)
